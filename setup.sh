#!/bin/bash
# builds the engine offline from the module cache
set -e
cd "$(dirname "$0")"
export GOFLAGS=-mod=mod GOPROXY=off GOSUMDB=off GOTOOLCHAIN=local
mkdir -p .build
(cd engine && go build -o ../.build/gosym .)
echo "gosym built"
