package main

import (
	"fmt"
	"os"
	"sort"
	"strings"
	"sync"
	"time"

	"golang.org/x/tools/go/ssa"
)

type PathResult struct {
	Outcome  string // ok, dead, fail, panic, unsupported, bound-hit, known
	Detail   string
	Trace    []int
	Fails    []FailRec
	Covers   []string
	Steps    int
	Asserts  int
	Disch    int
	Inconcl  int
	Queries  int
	Tweaks   int
	Vector   []string // input vector under the path's model (for validation)
	Observes []string
	KnownHit []string
}

type FailRec struct {
	Msg      string
	Vector   []string
	Named    []string
	Observes []string
	Kind     string // assert | panic
	Known    string
}

type HarnessRun struct {
	eng  *Engine
	name string
	fn   *ssa.Function
	mu   sync.Mutex
	cond *sync.Cond
	work []workItem
	busy int
	stop bool

	paths                  int
	outcomes               map[string]int
	decisions              int
	fails                  []FailRec
	covers                 map[string]bool
	unsupported            map[string]int
	boundHits              map[string]int
	asserts                int
	discharged             int
	inconclusive           int
	queries                int
	tweaks                 int
	steps                  int
	funcs                  map[string]bool
	stubs                  map[string]bool
	samples                []PathResult // paths kept for native validation
	sampleEvery            int
	maxPaths               int
	truncated              bool
	nSat, nUnsat, nUnknown int
	solveTime              time.Duration
	knownHits              map[string]int
	maxFails               int
	boundIsViolation       bool
}

type workItem struct {
	prefix []int
	model  Model
}

func (h *HarnessRun) push(prefix []int, m Model) {
	h.mu.Lock()
	h.work = append(h.work, workItem{prefix, m})
	h.mu.Unlock()
	h.cond.Signal()
}

func newExec(e *Engine, h *HarnessRun, s *Solver, decisions []int) *Exec {
	return &Exec{eng: e, h: h, solver: s, decisions: decisions, covers: map[string]bool{},
		funcsSeen: map[*ssa.Function]bool{}, stubsHit: map[string]bool{}, knownHit: map[string]bool{}, mapSite: -1}
}

func (h *HarnessRun) runPath(s *Solver, wi workItem) (res PathResult) {
	x := newExec(h.eng, h, s, wi.prefix)
	x.model = wi.model
	if x.model == nil && len(wi.prefix) == 0 {
		x.model = Model{} // empty pc: every assignment is a model
	}
	defer func() {
		res.Trace = x.trace
		res.Steps = x.steps
		res.Asserts = x.asserts
		res.Disch = x.discharged
		res.Inconcl = x.inconclusive
		res.Queries = x.queries
		res.Tweaks = x.tweaks
		for c := range x.covers {
			res.Covers = append(res.Covers, c)
		}
		for k := range x.knownHit {
			res.KnownHit = append(res.KnownHit, k)
		}
		h.mu.Lock()
		for f := range x.funcsSeen {
			h.funcs[f.String()] = true
		}
		for st := range x.stubsHit {
			h.stubs[st] = true
		}
		h.mu.Unlock()
		if r := recover(); r != nil {
			switch v := r.(type) {
			case *pathEnd:
				if strings.HasPrefix(v.reason, "bound-hit") {
					res.Outcome = "bound-hit"
					if h.boundIsViolation {
						if m := x.currentModel(); m != nil {
							res.Fails = append(res.Fails, FailRec{Msg: "panic: does not terminate within the recursion/step bound: " + v.reason + x.where(), Vector: x.vector(m), Named: x.namedVector(m), Observes: x.renderAllObs(m), Kind: "panic"})
						}
					}
				} else if v.reason == "known" {
					res.Outcome = "known"
				} else {
					res.Outcome = "dead"
				}
				res.Detail = v.reason
			case *unsupportedErr:
				res.Outcome = "unsupported"
				res.Detail = v.msg + x.where()
			case *goPanic:
				res.Outcome = "panic"
				res.Detail = v.desc
				m := x.currentModel()
				if m != nil {
					res.Fails = append(res.Fails, FailRec{Msg: "panic: " + v.desc, Vector: x.vector(m), Named: x.namedVector(m), Observes: x.renderAllObs(m), Kind: "panic"})
				} else {
					res.Inconcl++
				}
			default:
				// a Go run-time error inside the engine itself (a value shape it does not handle): no verdict for this path
				if os.Getenv("VERIF_ENGINE_PANIC") != "" {
					panic(r)
				}
				res.Outcome = "unsupported"
				res.Detail = fmt.Sprintf("engine error: %v", r) + x.where()
			}
		} else {
			res.Outcome = "ok"
			if len(x.knownHit) > 0 {
				res.Outcome = "known"
			}
		}
		for _, f := range x.fails {
			res.Fails = append(res.Fails, FailRec{Msg: f.Msg, Vector: x.vector(f.Model), Named: x.namedVector(f.Model), Observes: x.renderObsList(f.Obs, f.Model), Kind: "assert"})
		}
		if res.Outcome == "ok" || res.Outcome == "known" {
			if m := x.currentModel(); m != nil {
				res.Vector = x.vector(m)
				for _, o := range x.observes {
					res.Observes = append(res.Observes, o.Label+"="+x.renderObs(o.V, m))
				}
			}
		}
	}()
	x.callFunction(h.fn, nil, nil)
	return
}

func (x *Exec) currentModel() Model {
	if x.model != nil {
		return x.model
	}
	r, m := x.solver.Check(x.pc, nil, true)
	x.queries++
	if r == Sat {
		x.model = m
		return m
	}
	return nil
}

func (h *HarnessRun) run(workers int, deadline time.Time) {
	h.cond = sync.NewCond(&h.mu)
	h.work = []workItem{{}}
	var wg sync.WaitGroup
	// the first path runs alone: it triggers the lazy package initialisations
	first := make(chan struct{})
	var once sync.Once
	for w := 0; w < workers; w++ {
		if w == 1 {
			<-first
		}
		wg.Add(1)
		go func(id int) {
			defer wg.Done()
			s, err := NewSolver(h.eng.solverKind, h.eng.timeout, h.eng.seed)
			if err != nil {
				fmt.Fprintln(os.Stderr, "solver start failed:", err)
				return
			}
			defer func() {
				h.mu.Lock()
				h.nSat += s.nSat
				h.nUnsat += s.nUnsat
				h.nUnknown += s.nUnknown
				h.solveTime += s.solveTime
				h.mu.Unlock()
				s.Close()
			}()
			for {
				h.mu.Lock()
				for len(h.work) == 0 && h.busy > 0 && !h.stop {
					h.cond.Wait()
				}
				if h.stop || (len(h.work) == 0 && h.busy == 0) {
					h.mu.Unlock()
					h.cond.Broadcast()
					return
				}
				if h.paths >= h.maxPaths || time.Now().After(deadline) || len(h.fails) >= h.maxFails {
					h.truncated = h.paths >= h.maxPaths || time.Now().After(deadline)
					h.stop = true
					h.mu.Unlock()
					h.cond.Broadcast()
					return
				}
				p := h.work[len(h.work)-1]
				h.work = h.work[:len(h.work)-1]
				h.busy++
				h.mu.Unlock()

				res := h.runPath(s, p)
				once.Do(func() { close(first) })

				h.mu.Lock()
				h.busy--
				h.paths++
				h.outcomes[res.Outcome]++
				h.decisions += len(res.Trace)
				h.steps += res.Steps
				h.asserts += res.Asserts
				h.discharged += res.Disch
				h.inconclusive += res.Inconcl
				h.queries += res.Queries
				h.tweaks += res.Tweaks
				for _, c := range res.Covers {
					h.covers[c] = true
				}
				for _, k := range res.KnownHit {
					h.knownHits[k]++
				}
				switch res.Outcome {
				case "unsupported":
					h.unsupported[res.Detail]++
				case "bound-hit":
					h.boundHits[res.Detail]++
				}
				h.fails = append(h.fails, res.Fails...)
				if res.Vector != nil && len(h.samples) < 20000 {
					h.samples = append(h.samples, res)
				}
				h.mu.Unlock()
				h.cond.Broadcast()
			}
		}(w)
	}
	wg.Wait()
}

func sortedKeys(m map[string]int) []string {
	var ks []string
	for k := range m {
		ks = append(ks, k)
	}
	sort.Strings(ks)
	return ks
}

func sortedKeysB(m map[string]bool) []string {
	var ks []string
	for k := range m {
		ks = append(ks, k)
	}
	sort.Strings(ks)
	return ks
}
