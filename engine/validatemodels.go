package main

// Models of the reflection-based helpers of github.com/go-openapi/validate (a dependency, not the
// code under check): generated Validate methods call them. The error values are built by running
// the real constructors of github.com/go-openapi/errors.

import (
	"go/types"

	"golang.org/x/tools/go/ssa"
)

// ifaceIsZero: reflect.DeepEqual(reflect.Zero(type).Interface(), value), or an invalid (nil) interface
func (x *Exec) ifaceIsZero(iv *IfaceVal) *Term {
	if iv.T == nil {
		return TTrue
	}
	return x.valueIsZero(iv.V, iv.T)
}

func (x *Exec) valueIsZero(v Value, t types.Type) *Term {
	switch t := v.(type) {
	case *Term:
		if t.S.K == KFP {
			return tFCmp(OpFEq, t, zeroOfSort(t.S)) // -0 == 0 for DeepEqual on floats
		}
		return tEq(t, zeroOfSort(t.S))
	case *StrVal:
		return strEq(t, mkStr(""))
	case *PtrVal:
		return t.Nil
	case *SliceVal:
		return mkBool(t.Nil && t.Len == 0)
	case *MapVal:
		return mkBool(t.M == nil)
	case *StructVal:
		r := TTrue
		for _, f := range t.F {
			r = tAnd(r, x.valueIsZero(f, nil))
		}
		return r
	case *IfaceVal:
		return x.ifaceIsZero(t)
	}
	panic(unsupported("zero test on this value kind"))
}

// foldEq: ASCII case-insensitive equality (validate.EnumCase lower-cases both sides)
func (x *Exec) foldEq(s, t *StrVal) *Term {
	fold := func(b *Term) *Term {
		isUp := tAnd(bvCmp(OpULe, mkBV(8, 'A'), b), bvCmp(OpULe, b, mkBV(8, 'Z')))
		return tIte(isUp, bvBin(OpAdd, b, mkBV(8, 32)), b)
	}
	r := TFalse
	for _, sa := range s.Alts {
		for _, ta := range t.Alts {
			if sa.Len() != ta.Len() {
				continue
			}
			eq := tAnd(sa.G, ta.G)
			for i := 0; i < sa.Len(); i++ {
				eq = tAnd(eq, tEq(fold(sa.Byte(i)), fold(ta.Byte(i))))
			}
			r = tOr(r, eq)
		}
	}
	return r
}

func (x *Exec) errorsCall(name string, args ...Value) Value {
	fn := x.eng.findFunc("github.com/go-openapi/errors", name)
	if fn == nil {
		panic(unsupported("github.com/go-openapi/errors." + name + " not found"))
	}
	return x.callFunction(fn, args, nil)
}

func registerValidateModels(e *Engine) {
	const vp = "github.com/go-openapi/validate."
	reg := func(name string, f func(x *Exec, fn *ssa.Function, a []Value) Value) {
		e.intrinsics[vp+name] = func(x *Exec, fn *ssa.Function, a []Value) (Value, bool) { return f(x, fn, a), true }
	}
	nilRes := func(x *Exec, fn *ssa.Function) Value { return x.zeroResults(fn) }
	reg("Required", func(x *Exec, fn *ssa.Function, a []Value) Value {
		if x.decide(x.ifaceIsZero(a[2].(*IfaceVal))) {
			return x.errorsCall("Required", a[0], a[1], a[2])
		}
		return nilRes(x, fn)
	})
	enum := func(x *Exec, fn *ssa.Function, path, in, data, list Value, caseSensitive bool) Value {
		lv := list.(*IfaceVal)
		sl, ok := lv.V.(*SliceVal)
		if !ok {
			return nilRes(x, fn)
		}
		hit := TFalse
		for i := 0; i < sl.Len; i++ {
			el := sl.At(i)
			if _, isI := el.(*IfaceVal); !isI {
				el = &IfaceVal{T: data.(*IfaceVal).T, V: el}
			}
			if !caseSensitive {
				ds, ok1 := data.(*IfaceVal).V.(*StrVal)
				es, ok2 := el.(*IfaceVal).V.(*StrVal)
				if ok1 && ok2 {
					hit = tOr(hit, x.foldEq(ds, es))
					continue
				}
			}
			hit = tOr(hit, x.deepEqual(data, el))
			// "attempt comparison after type conversion": the value converted to the enum element's type
			dv, ev := data.(*IfaceVal), el.(*IfaceVal)
			if dv.T != nil && ev.T != nil && !types.Identical(dv.T, ev.T) && sameBasicClass(dv.T, ev.T) {
				conv := x.convert(dv.V, dv.T, ev.T)
				hit = tOr(hit, x.deepEqual(&IfaceVal{T: ev.T, V: conv}, el))
			}
		}
		if x.decide(hit) {
			return nilRes(x, fn)
		}
		return x.errorsCall("EnumFail", path, in, data, mkSliceOfIface(sl))
	}
	reg("Enum", func(x *Exec, fn *ssa.Function, a []Value) Value {
		return enum(x, fn, a[0], a[1], a[2], a[3], true)
	})
	reg("EnumCase", func(x *Exec, fn *ssa.Function, a []Value) Value {
		cs := a[4].(*Term)
		if !cs.IsConst() {
			panic(unsupported("EnumCase with symbolic case flag"))
		}
		return enum(x, fn, a[0], a[1], a[2], a[3], cs.Val != 0)
	})
	// the compiled-pattern cache (atomic.Value + mutex) is bypassed: compile every time
	for _, n := range []string{"compileRegexp", "mustCompileRegexp"} {
		must := n == "mustCompileRegexp"
		reg(n, func(x *Exec, fn *ssa.Function, a []Value) Value {
			target := "Compile"
			if must {
				target = "MustCompile"
			}
			f := x.eng.findFunc("regexp", target)
			if f == nil {
				panic(unsupported("regexp." + target + " not found"))
			}
			return x.callFunction(f, []Value{a[0]}, nil)
		})
	}
	reg("UniqueItems", func(x *Exec, fn *ssa.Function, a []Value) Value {
		iv := a[2].(*IfaceVal)
		sl, ok := iv.V.(*SliceVal)
		if !ok {
			return nilRes(x, fn)
		}
		dup := TFalse
		for i := 0; i < sl.Len; i++ {
			for j := i + 1; j < sl.Len; j++ {
				dup = tOr(dup, x.deepEqual(sl.At(i), sl.At(j)))
			}
		}
		if x.decide(dup) {
			return x.errorsCall("DuplicateItems", a[0], a[1])
		}
		return nilRes(x, fn)
	})
}

// swag.ConvertBool on symbolic text: true iff the lower-cased text is one of swag's truthy words; never an error
func registerSwagConvertBool(e *Engine) {
	e.intrinsics["github.com/go-openapi/swag.ConvertBool"] = func(x *Exec, fn *ssa.Function, a []Value) (Value, bool) {
		s := a[0].(*StrVal)
		if s.IsConcrete() {
			return nil, false
		}
		r := TFalse
		for _, w := range []string{"true", "1", "yes", "ok", "y", "on", "selected", "checked", "t", "enabled"} {
			r = tOr(r, x.foldEq(s, mkStr(w)))
		}
		return TupleVal{r, nilIface}, true
	}
}

// both numeric, or both strings (reflect's ConvertibleTo also allows integer -> string: not modelled)
func sameBasicClass(a, b types.Type) bool {
	ab, ok1 := a.Underlying().(*types.Basic)
	bb, ok2 := b.Underlying().(*types.Basic)
	if !ok1 || !ok2 {
		return false
	}
	num := types.IsInteger | types.IsFloat
	if ab.Info()&num != 0 && bb.Info()&num != 0 {
		return true
	}
	return ab.Info()&types.IsString != 0 && bb.Info()&types.IsString != 0
}

// strconv.FormatBool of a symbolic boolean: "true" / "false" as guarded alternatives
func registerFormatBool(e *Engine) {
	e.intrinsics["strconv.FormatBool"] = func(x *Exec, fn *ssa.Function, a []Value) (Value, bool) {
		b := a[0].(*Term)
		if b.IsConst() {
			return nil, false
		}
		return &StrVal{Alts: []StrAlt{{G: b, S: "true"}, {G: tNot(b), S: "false"}}}, true
	}
}

// reflect.TypeOf(x).String() / .Kind() are used by the scanner to name the Go type of an enum
// value: a tiny model - the reflect.Type is a handle on the go/types type of the dynamic value
func registerReflectTypeOf(e *Engine) {
	e.intrinsics["reflect.TypeOf"] = func(x *Exec, fn *ssa.Function, a []Value) (Value, bool) {
		iv := a[0].(*IfaceVal)
		if iv.T == nil {
			return nilIface, true
		}
		rt := x.eng.findType("reflect", "rtype")
		if rt == nil {
			panic(unsupported("reflect.rtype not in program"))
		}
		return &IfaceVal{T: types.NewPointer(rt), V: mkPtr(&Cell{V: &NativeVal{V: iv.T}})}, true
	}
	handle := func(x *Exec, v Value) types.Type {
		nv, ok := x.deref(v.(*PtrVal)).Load().(*NativeVal)
		if !ok {
			panic(unsupported("reflect.Type receiver is not a modelled handle"))
		}
		return nv.V.(types.Type)
	}
	e.intrinsics["(*reflect.rtype).Kind"] = func(x *Exec, fn *ssa.Function, a []Value) (Value, bool) {
		return mkBV(64, uint64(reflectKindOf(handle(x, a[0])))), true
	}
	e.intrinsics["(*reflect.rtype).Elem"] = func(x *Exec, fn *ssa.Function, a []Value) (Value, bool) {
		var el types.Type
		switch u := handle(x, a[0]).Underlying().(type) {
		case *types.Pointer:
			el = u.Elem()
		case *types.Slice:
			el = u.Elem()
		case *types.Array:
			el = u.Elem()
		case *types.Map:
			el = u.Elem()
		default:
			x.goPanicf("reflect: Elem of invalid type")
		}
		rt := x.eng.findType("reflect", "rtype")
		return &IfaceVal{T: types.NewPointer(rt), V: mkPtr(&Cell{V: &NativeVal{V: el}})}, true
	}
	e.intrinsics["(*reflect.rtype).Name"] = func(x *Exec, fn *ssa.Function, a []Value) (Value, bool) {
		if n, ok := handle(x, a[0]).(*types.Named); ok {
			return mkStr(n.Obj().Name()), true
		}
		return mkStr(""), true
	}
	e.intrinsics["(*reflect.rtype).String"] = func(x *Exec, fn *ssa.Function, a []Value) (Value, bool) {
		nv, ok := x.deref(a[0].(*PtrVal)).Load().(*NativeVal)
		if !ok {
			panic(unsupported("reflect.Type receiver is not a modelled handle"))
		}
		t := nv.V.(types.Type)
		return mkStr(types.TypeString(t, func(p *types.Package) string { return p.Name() })), true
	}
}

// context.WithValue asks internal/reflectlite whether the key is comparable
func registerReflectliteTypeOf(e *Engine) {
	e.intrinsics["internal/reflectlite.TypeOf"] = func(x *Exec, fn *ssa.Function, a []Value) (Value, bool) {
		iv := a[0].(*IfaceVal)
		if iv.T == nil {
			return nilIface, true
		}
		rt := x.eng.findType("internal/reflectlite", "rtype")
		if rt == nil {
			panic(unsupported("reflectlite.rtype not in program"))
		}
		return &IfaceVal{T: rt, V: &NativeVal{V: iv.T}}, true
	}
	e.intrinsics["(internal/reflectlite.rtype).Comparable"] = func(x *Exec, fn *ssa.Function, a []Value) (Value, bool) {
		nv, ok := a[0].(*NativeVal)
		if !ok {
			panic(unsupported("reflectlite.Type receiver is not a modelled handle"))
		}
		return mkBool(types.Comparable(nv.V.(types.Type))), true
	}
}

// reflect.ValueOf(x).Kind() / IsNil() / IsValid(): the Value struct carries a handle on the interface value
func registerReflectValueOf(e *Engine) {
	e.intrinsics["reflect.ValueOf"] = func(x *Exec, fn *ssa.Function, a []Value) (Value, bool) {
		vt := x.eng.findType("reflect", "Value")
		if vt == nil {
			panic(unsupported("reflect.Value not in program"))
		}
		sv := zeroValue(vt).(*StructVal)
		nf := &StructVal{F: append([]Value{}, sv.F...)}
		nf.F[1] = &NativeVal{V: a[0].(*IfaceVal)}
		return nf, true
	}
	held := func(v Value) *IfaceVal {
		nv, ok := v.(*StructVal).F[1].(*NativeVal)
		if !ok {
			return nilIface // the zero Value
		}
		return nv.V.(*IfaceVal)
	}
	e.intrinsics["(reflect.Value).IsValid"] = func(x *Exec, fn *ssa.Function, a []Value) (Value, bool) {
		return mkBool(held(a[0]).T != nil), true
	}
	e.intrinsics["(reflect.Value).Kind"] = func(x *Exec, fn *ssa.Function, a []Value) (Value, bool) {
		iv := held(a[0])
		if iv.T == nil {
			return mkBV(64, 0), true
		}
		return mkBV(64, uint64(reflectKindOf(iv.T))), true
	}
	e.intrinsics["(reflect.Value).IsNil"] = func(x *Exec, fn *ssa.Function, a []Value) (Value, bool) {
		iv := held(a[0])
		if iv.T == nil {
			x.goPanicf("reflect: call of reflect.Value.IsNil on zero Value")
		}
		switch t := iv.V.(type) {
		case *PtrVal:
			return t.Nil, true
		case *SliceVal:
			return mkBool(t.Nil), true
		case *MapVal:
			return mkBool(t.M == nil), true
		case *IfaceVal:
			return mkBool(t.T == nil), true
		case *FuncVal:
			return TFalse, true
		}
		x.goPanicf("reflect: call of reflect.Value.IsNil on a non-nillable value")
		return nil, true
	}
}

func reflectKindOf(t types.Type) int {
	switch u := t.Underlying().(type) {
	case *types.Basic:
		switch u.Kind() {
		case types.Bool:
			return 1
		case types.Int:
			return 2
		case types.Int8:
			return 3
		case types.Int16:
			return 4
		case types.Int32:
			return 5
		case types.Int64:
			return 6
		case types.Uint:
			return 7
		case types.Uint8:
			return 8
		case types.Uint16:
			return 9
		case types.Uint32:
			return 10
		case types.Uint64:
			return 11
		case types.Uintptr:
			return 12
		case types.Float32:
			return 13
		case types.Float64:
			return 14
		case types.String:
			return 24
		case types.UnsafePointer:
			return 26
		}
	case *types.Array:
		return 17
	case *types.Chan:
		return 18
	case *types.Signature:
		return 19
	case *types.Interface:
		return 20
	case *types.Map:
		return 21
	case *types.Pointer:
		return 22
	case *types.Slice:
		return 23
	case *types.Struct:
		return 25
	}
	return 0
}

func mkSliceOfIface(sl *SliceVal) Value {
	var vs []Value
	for i := 0; i < sl.Len; i++ {
		vs = append(vs, sl.At(i))
	}
	return mkSlice(vs)
}

// sync/atomic on a sequential engine: plain loads and stores. The typed wrappers
// (atomic.Pointer[T], atomic.Int32, atomic.Value ...) are interpreted from source and end up here.
func registerAtomicModels(e *Engine) {
	delete(e.denyPkgs, "sync/atomic")
	// GODEBUG settings: all at their defaults
	e.intrinsics["(*internal/godebug.Setting).Value"] = func(x *Exec, fn *ssa.Function, a []Value) (Value, bool) { return mkStr(""), true }
	e.intrinsics["(*internal/godebug.Setting).IncNonDefault"] = func(x *Exec, fn *ssa.Function, a []Value) (Value, bool) { return nil, true }
	always := func(name string, f func(x *Exec, a []Value) Value) {
		e.intrinsics["sync/atomic."+name] = func(x *Exec, fn *ssa.Function, a []Value) (Value, bool) { return f(x, a), true }
	}
	for _, t := range []string{"Int32", "Int64", "Uint32", "Uint64", "Uintptr", "Pointer"} {
		always("Load"+t, func(x *Exec, a []Value) Value { return x.deref(a[0].(*PtrVal)).Load() })
		always("Store"+t, func(x *Exec, a []Value) Value { x.deref(a[0].(*PtrVal)).Store(a[1]); return nil })
		always("Swap"+t, func(x *Exec, a []Value) Value {
			r := x.deref(a[0].(*PtrVal))
			old := r.Load()
			r.Store(a[1])
			return old
		})
		always("CompareAndSwap"+t, func(x *Exec, a []Value) Value {
			r := x.deref(a[0].(*PtrVal))
			if x.decide(x.equalValues(r.Load(), a[1], nil)) {
				r.Store(a[2])
				return TTrue
			}
			return TFalse
		})
		if t != "Pointer" {
			always("Add"+t, func(x *Exec, a []Value) Value {
				r := x.deref(a[0].(*PtrVal))
				nv := bvBin(OpAdd, r.Load().(*Term), a[1].(*Term))
				r.Store(nv)
				return nv
			})
		}
	}
}
