package main

// Long-lived SMT solver process (z3 -in by default). The assertion stack is kept
// aligned with the path condition: one push level per pc entry.

import (
	"bufio"
	"fmt"
	"io"
	"math"
	"os"
	"os/exec"
	"strconv"
	"strings"
	"time"
)

type Res int

const (
	Unsat Res = iota
	Sat
	Unknown
)

func (r Res) String() string { return [...]string{"unsat", "sat", "unknown"}[r] }

type level struct {
	t     *Term
	syms  []string
	terms []*Term
}

type Solver struct {
	kind        string
	cmd         *exec.Cmd
	in          io.WriteCloser
	out         *bufio.Reader
	stack       []*level
	declLvl     map[string]int // symbol -> level index where declared
	sorts       map[string]Sort
	names       map[*Term]string
	nextID      int
	timeout     int // ms
	incremental bool

	nSat, nUnsat, nUnknown int
	solveTime              time.Duration
	errors                 int
	log                    io.Writer
}

func solverArgs(kind string, timeoutMs int) (string, []string) {
	switch kind {
	case "z3-new":
		return "z3-new", []string{"-in", fmt.Sprintf("-t:%d", timeoutMs)}
	case "cvc5":
		return "cvc5", []string{"--incremental", "--lang=smt2", "--produce-models", fmt.Sprintf("--tlimit-per=%d", timeoutMs)}
	default:
		return "z3", []string{"-in", fmt.Sprintf("-t:%d", timeoutMs)}
	}
}

func NewSolver(kind string, timeoutMs int, seed int) (*Solver, error) {
	bin, args := solverArgs(kind, timeoutMs)
	cmd := exec.Command(bin, args...)
	in, err := cmd.StdinPipe()
	if err != nil {
		return nil, err
	}
	outp, err := cmd.StdoutPipe()
	if err != nil {
		return nil, err
	}
	cmd.Stderr = nil
	if err := cmd.Start(); err != nil {
		return nil, err
	}
	s := &Solver{kind: kind, cmd: cmd, in: in, out: bufio.NewReaderSize(outp, 1<<16),
		declLvl: map[string]int{}, sorts: map[string]Sort{}, names: map[*Term]string{}, timeout: timeoutMs}
	if kind == "cvc5" {
		s.send("(set-logic ALL)\n")
	} else {
		s.send(fmt.Sprintf("(set-option :random-seed %d)\n", seed))
	}
	s.send("(set-option :produce-models true)\n")
	s.incremental = os.Getenv("VERIF_INCREMENTAL") != ""
	return s, nil
}

func (s *Solver) Close() {
	if s == nil || s.cmd == nil {
		return
	}
	s.in.Close()
	s.cmd.Process.Kill()
	s.cmd.Wait()
	s.cmd = nil
}

func (s *Solver) send(str string) {
	if s.log != nil {
		io.WriteString(s.log, str)
	}
	io.WriteString(s.in, str)
}

func (s *Solver) readLine() string {
	line, err := s.out.ReadString('\n')
	if err != nil {
		return "(error \"solver died: " + err.Error() + "\")"
	}
	return strings.TrimSpace(line)
}

// read one balanced s-expression (possibly multi-line)
func (s *Solver) readSexp() string {
	var sb strings.Builder
	depth := 0
	started := false
	for {
		line, err := s.out.ReadString('\n')
		if err != nil {
			return sb.String()
		}
		for _, c := range line {
			if c == '(' {
				depth++
				started = true
			} else if c == ')' {
				depth--
			}
		}
		sb.WriteString(line)
		if started && depth <= 0 {
			break
		}
		if !started && strings.TrimSpace(line) != "" {
			break
		}
	}
	return sb.String()
}

func (s *Solver) popTo(n int) {
	if len(s.stack) > n {
		k := len(s.stack) - n
		for i := n; i < len(s.stack); i++ {
			for _, sym := range s.stack[i].syms {
				delete(s.declLvl, sym)
			}
			for _, t := range s.stack[i].terms {
				delete(s.names, t)
			}
		}
		s.stack = s.stack[:n]
		s.send(fmt.Sprintf("(pop %d)\n", k))
	}
}

// pushAssert opens a level asserting t
func (s *Solver) pushAssert(t *Term) {
	lv := &level{t: t}
	s.stack = append(s.stack, lv)
	var defs strings.Builder
	p := &smtPrinter{names: s.names, next: &s.nextID, out: &defs}
	var decls strings.Builder
	p.decl = func(name string, so Sort) {
		if _, ok := s.declLvl[name]; ok {
			return
		}
		s.declLvl[name] = len(s.stack) - 1
		s.sorts[name] = so
		lv.syms = append(lv.syms, name)
		fmt.Fprintf(&decls, "(declare-const %s %s)\n", name, so.smt())
	}
	body := p.print(t)
	lv.terms = p.newly
	s.send("(push 1)\n" + decls.String() + defs.String() + "(assert " + body + ")\n")
}

func (s *Solver) align(pc []*Term) {
	i := 0
	for i < len(pc) && i < len(s.stack) && s.stack[i].t == pc[i] {
		i++
	}
	s.popTo(i)
	for ; i < len(pc); i++ {
		s.pushAssert(pc[i])
	}
}

// Check decides pc ∧ extra. If wantModel and sat, returns values of all declared symbols.
// Default mode re-sends the whole query after (reset): z3 then uses its tactic pipeline
// (bit-blasting for FP/BV), which is far stronger than the incremental core on FP queries.
func (s *Solver) Check(pc []*Term, extra *Term, wantModel bool) (Res, Model) {
	start := time.Now()
	defer func() { s.solveTime += time.Since(start) }()
	if s.incremental {
		return s.checkIncremental(pc, extra, wantModel)
	}
	var decls, body strings.Builder
	n := 0
	s.declLvl = map[string]int{}
	p := &smtPrinter{names: map[*Term]string{}, next: &n, out: &body}
	p.decl = func(name string, so Sort) {
		if _, ok := s.declLvl[name]; ok {
			return
		}
		s.declLvl[name] = 0
		s.sorts[name] = so
		fmt.Fprintf(&decls, "(declare-const %s %s)\n", name, so.smt())
	}
	emit := func(t *Term) {
		e := p.print(t)
		body.WriteString("(assert " + e + ")\n")
	}
	for _, t := range pc {
		emit(t)
	}
	if extra != nil {
		emit(extra)
	}
	hdr := "(reset)\n(set-option :produce-models true)\n"
	if s.kind == "cvc5" {
		hdr = "(reset)\n(set-logic ALL)\n(set-option :produce-models true)\n"
	}
	s.send(hdr + decls.String() + body.String() + "(check-sat)\n")
	res := s.readVerdict()
	var m Model
	if res == Sat && wantModel {
		m = s.getModel()
	}
	s.count(res)
	return res, m
}

func (s *Solver) count(res Res) {
	switch res {
	case Sat:
		s.nSat++
	case Unsat:
		s.nUnsat++
	default:
		s.nUnknown++
	}
}

func (s *Solver) readVerdict() Res {
	var res Res
	sawErr := false
	for {
		line := s.readLine()
		if line == "" {
			continue
		}
		if strings.HasPrefix(line, "(error") {
			s.errors++
			sawErr = true
			if strings.Contains(line, "solver died") {
				return Unknown
			}
			continue
		}
		if line == "sat" {
			res = Sat
		} else if line == "unsat" {
			res = Unsat
		} else if line == "unknown" || line == "timeout" {
			res = Unknown
		} else {
			continue
		}
		break
	}
	if sawErr {
		res = Unknown
	}
	return res
}

func (s *Solver) checkIncremental(pc []*Term, extra *Term, wantModel bool) (Res, Model) {
	s.align(pc)
	base := len(s.stack)
	if extra != nil {
		s.pushAssert(extra)
	}
	s.send("(check-sat)\n")
	res := s.readVerdict()
	var m Model
	if res == Sat && wantModel {
		m = s.getModel()
	}
	s.count(res)
	s.popTo(base)
	return res, m
}

func (s *Solver) getModel() Model {
	if len(s.declLvl) == 0 {
		return Model{}
	}
	names := make([]string, 0, len(s.declLvl))
	for n := range s.declLvl {
		names = append(names, n)
	}
	s.send("(get-value (" + strings.Join(names, " ") + "))\n")
	txt := s.readSexp()
	m := Model{}
	toks := tokenize(txt)
	pos := 0
	sx := parseSexp(toks, &pos)
	for _, pair := range sx.list {
		if len(pair.list) != 2 {
			continue
		}
		name := pair.list[0].atom
		so, ok := s.sorts[name]
		if !ok {
			continue
		}
		v, ok := parseValue(pair.list[1], so)
		if ok {
			m[name] = v
		}
	}
	return m
}

type sexp struct {
	atom string
	list []*sexp
	isL  bool
}

func tokenize(s string) []string {
	var toks []string
	i := 0
	for i < len(s) {
		c := s[i]
		switch {
		case c == '(' || c == ')':
			toks = append(toks, string(c))
			i++
		case c == ' ' || c == '\n' || c == '\t' || c == '\r':
			i++
		case c == '|':
			j := strings.IndexByte(s[i+1:], '|')
			if j < 0 {
				j = len(s) - i - 1
			}
			toks = append(toks, s[i:i+j+2])
			i += j + 2
		default:
			j := i
			for j < len(s) && !strings.ContainsRune("() \n\t\r", rune(s[j])) {
				j++
			}
			toks = append(toks, s[i:j])
			i = j
		}
	}
	return toks
}

func parseSexp(toks []string, pos *int) *sexp {
	if *pos >= len(toks) {
		return &sexp{}
	}
	t := toks[*pos]
	*pos++
	if t == "(" {
		n := &sexp{isL: true}
		for *pos < len(toks) && toks[*pos] != ")" {
			n.list = append(n.list, parseSexp(toks, pos))
		}
		*pos++
		return n
	}
	return &sexp{atom: t}
}

func parseBits(a string) (uint64, int, bool) {
	if strings.HasPrefix(a, "#x") {
		v, err := strconv.ParseUint(a[2:], 16, 64)
		return v, 4 * (len(a) - 2), err == nil
	}
	if strings.HasPrefix(a, "#b") {
		v, err := strconv.ParseUint(a[2:], 2, 64)
		return v, len(a) - 2, err == nil
	}
	return 0, 0, false
}

func parseValue(x *sexp, so Sort) (uint64, bool) {
	switch so.K {
	case KBool:
		return map[string]uint64{"true": 1, "false": 0}[x.atom], x.atom == "true" || x.atom == "false"
	case KBV:
		if !x.isL {
			v, _, ok := parseBits(x.atom)
			return v, ok
		}
		// (_ bvN w)
		if len(x.list) == 3 && x.list[0].atom == "_" && strings.HasPrefix(x.list[1].atom, "bv") {
			v, err := strconv.ParseUint(x.list[1].atom[2:], 10, 64)
			return v, err == nil
		}
		return 0, false
	default:
		eb, sb := 11, 52
		if so.W == 32 {
			eb, sb = 8, 23
		}
		if x.isL && len(x.list) == 4 && x.list[0].atom == "fp" {
			sg, _, ok1 := parseBits(x.list[1].atom)
			ex, _, ok2 := parseBits(x.list[2].atom)
			mn, _, ok3 := parseBits(x.list[3].atom)
			if ok1 && ok2 && ok3 {
				return sg<<uint(eb+sb) | ex<<uint(sb) | mn, true
			}
			return 0, false
		}
		if x.isL && len(x.list) == 4 && x.list[0].atom == "_" {
			var f float64
			switch x.list[1].atom {
			case "+zero":
				f = 0
			case "-zero":
				f = math.Copysign(0, -1)
			case "+oo":
				f = math.Inf(1)
			case "-oo":
				f = math.Inf(-1)
			case "NaN":
				f = math.NaN()
			default:
				return 0, false
			}
			return mkFP(so, f).Val, true
		}
		return 0, false
	}
}

// standaloneQuery renders pc ∧ extra as a self-contained SMT-LIB2 script.
func standaloneQuery(pc []*Term, extra *Term, names []string) string {
	var decls, defs, asserts strings.Builder
	n := 0
	seen := map[string]bool{}
	p := &smtPrinter{names: map[*Term]string{}, next: &n, out: &defs}
	p.decl = func(name string, so Sort) {
		if seen[name] {
			return
		}
		seen[name] = true
		fmt.Fprintf(&decls, "(declare-const %s %s)\n", name, so.smt())
	}
	all := append([]*Term{}, pc...)
	if extra != nil {
		all = append(all, extra)
	}
	for _, t := range all {
		body := p.print(t)
		// definitions must precede their use: flush defs emitted so far before the assert
		asserts.WriteString(defs.String())
		defs.Reset()
		asserts.WriteString("(assert " + body + ")\n")
	}
	return decls.String() + asserts.String() + "(check-sat)\n"
}

var fallbackKinds = []string{"z3-new", "cvc5"}

// fallbackCheck re-asks an inconclusive query to other solvers (one-shot processes).
func fallbackCheck(pc []*Term, extra *Term, timeoutMs int, primary string) Res {
	q := standaloneQuery(pc, extra, nil)
	if dir := os.Getenv("VERIF_LOGUNKNOWN"); dir != "" {
		os.MkdirAll(dir, 0o755)
		os.WriteFile(fmt.Sprintf("%s/q%d.smt2", dir, time.Now().UnixNano()), []byte(q), 0o644)
	}
	for _, k := range fallbackKinds {
		if k == primary {
			continue
		}
		bin, args := solverArgs(k, timeoutMs)
		if k == "cvc5" {
			args = []string{"--lang=smt2", fmt.Sprintf("--tlimit=%d", timeoutMs)}
			q = "(set-logic ALL)\n" + q
		} else {
			args = []string{"-in", fmt.Sprintf("-T:%d", timeoutMs/1000+1)}
		}
		cmd := exec.Command(bin, args...)
		cmd.Stdin = strings.NewReader(q)
		out, _ := cmd.Output()
		txt := strings.TrimSpace(string(out))
		if strings.Contains(txt, "(error") {
			continue
		}
		if strings.HasPrefix(txt, "unsat") {
			return Unsat
		}
		if strings.HasPrefix(txt, "sat") {
			return Sat
		}
	}
	return Unknown
}
