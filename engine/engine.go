package main

import (
	"fmt"
	"github.com/go-openapi/swag"
	"go/types"
	"os"
	"path/filepath"
	"reflect"
	"sort"
	"strings"
	"sync"
	"sync/atomic"

	"golang.org/x/tools/go/packages"
	"golang.org/x/tools/go/ssa"
	"golang.org/x/tools/go/ssa/ssautil"
)

type intrinsicFn func(x *Exec, fn *ssa.Function, args []Value) (Value, bool)

type Engine struct {
	prog       *ssa.Program
	pkgs       []*packages.Package
	target     *ssa.Package
	repo       string
	intrinsics map[string]intrinsicFn
	natives    map[string]func(x *Exec, args []Value) Value
	nativeFns  map[string]reflect.Value
	denyPkgs   map[string]bool
	allowFns   map[string]bool

	mu        sync.Mutex
	globals   map[*ssa.Global]*Cell
	pkgInit   map[*ssa.Package]string // "" ok, else failure reason
	initDepth int
	initMu    sync.Mutex

	methCache sync.Map
	implCache sync.Map

	maxSteps int
	maxDepth int

	known      map[string]bool // open known-finding ids
	params     map[string]int
	timeout    int
	seed       int
	solverKind string
}

func loadEngine(repo, pkgPath string, overlay map[string][]byte) (*Engine, error) {
	cfg := &packages.Config{
		Mode:       packages.LoadAllSyntax,
		Dir:        repo,
		Overlay:    overlay,
		BuildFlags: []string{"-tags=verif"},
		Env:        append(os.Environ(), "GOFLAGS=-mod=mod", "GOPROXY=off", "GOSUMDB=off", "GOTOOLCHAIN=local"),
	}
	pkgs, err := packages.Load(cfg, "./"+pkgPath)
	if err != nil {
		return nil, err
	}
	var errs []string
	packages.Visit(pkgs, nil, func(p *packages.Package) {
		for _, e := range p.Errors {
			errs = append(errs, e.Error())
		}
	})
	if len(errs) > 0 {
		return nil, fmt.Errorf("package load errors:\n%s", strings.Join(errs, "\n"))
	}
	prog, spkgs := ssautil.AllPackages(pkgs, ssa.InstantiateGenerics)
	prog.Build()
	e := &Engine{prog: prog, pkgs: pkgs, target: spkgs[0], repo: repo,
		intrinsics: map[string]intrinsicFn{}, natives: map[string]func(*Exec, []Value) Value{},
		nativeFns: map[string]reflect.Value{}, globals: map[*ssa.Global]*Cell{}, pkgInit: map[*ssa.Package]string{},
		maxSteps: 400000, maxDepth: 80, known: map[string]bool{}, params: map[string]int{}, timeout: 10000,
		denyPkgs: map[string]bool{}, allowFns: map[string]bool{}}
	for _, p := range []string{"reflect", "encoding/json", "text/template", "os", "net", "runtime", "syscall",
		"sync", "sync/atomic", "log", "unsafe", "internal/bytealg", "io/ioutil", "os/exec", "time", "internal/reflectlite",
		"html/template", "go/format", "github.com/go-openapi/swag", "golang.org/x/tools/imports", "gopkg.in/yaml.v3", "encoding/gob", "math/rand"} {
		e.denyPkgs[p] = true
	}
	registerIntrinsics(e)
	registerNatives(e)
	registerVFS(e)
	// the pointer/value helpers of swag are pure and need none of the package's init-time state
	for _, t := range []string{"String", "Bool", "Int", "Int32", "Int64", "Uint", "Uint16", "Uint32", "Uint64", "Float32", "Float64"} {
		e.allowFns["github.com/go-openapi/swag."+t] = true
		e.allowFns["github.com/go-openapi/swag."+t+"Value"] = true
	}
	for _, t := range []string{"Int8", "Int16", "Int32", "Int64", "Uint8", "Uint16", "Uint32", "Uint64"} {
		e.allowFns["github.com/go-openapi/swag.Convert"+t] = true
	}
	e.allowFns["github.com/go-openapi/swag.SplitByFormat"] = true
	e.allowFns["github.com/go-openapi/swag.JoinByFormat"] = true
	e.allowFns["github.com/go-openapi/swag.ConvertFloat32"] = true
	e.allowFns["github.com/go-openapi/swag.ConvertFloat64"] = true
	for _, t := range []string{"Bool", "Float32", "Float64", "Int8", "Int16", "Int32", "Int64", "Uint8", "Uint16", "Uint32", "Uint64"} {
		e.allowFns["github.com/go-openapi/swag.Format"+t] = true
	}
	return e, nil
}

func (e *Engine) denied(fn *ssa.Function) bool {
	if e.allowFns[fn.String()] {
		return false
	}
	if fn.Pkg == nil {
		if fn.Origin() != nil && fn.Origin().Pkg != nil {
			return e.denyPkgs[fn.Origin().Pkg.Pkg.Path()]
		}
		return false
	}
	return e.denyPkgs[fn.Pkg.Pkg.Path()]
}

// ---------------------------------------------------------------------------
// globals and lazy package initialisation

func (e *Engine) global(x *Exec, g *ssa.Global) *Cell {
	nested := x != nil && x.initPkg != nil
	e.mu.Lock()
	state, started := e.pkgInit[g.Pkg]
	e.mu.Unlock()
	if !started {
		e.initPackage(g.Pkg, nested)
	} else if state == "running" && !nested {
		e.initMu.Lock() // wait for the initialising goroutine
		e.initMu.Unlock()
	}
	e.mu.Lock()
	c := e.globals[g]
	if c != nil && g.Name() == "closers" && g.Pkg != nil && g.Pkg.Pkg.Path() == "github.com/go-openapi/swag" {
		// swag's package initialiser is not run (the package is called natively or through models),
		// but the interpreted ConcatJSON looks up the closing bracket in this table
		if mv, ok := c.V.(*MapVal); ok && mv.M == nil {
			c.V = &MapVal{M: &MapObj{KeyT: types.Typ[types.Uint8], Frozen: true, E: []MapEntry{
				{K: mkBV(8, '{'), V: mkBV(8, '}')}, {K: mkBV(8, '['), V: mkBV(8, ']')}}}}
		}
	}
	e.mu.Unlock()
	e.checkInit(g.Pkg)
	if c == nil {
		panic(unsupported("global without cell: " + g.String()))
	}
	if x != nil && !nested && c.Frozen {
		// after initialisation every path works on its own copy of a global variable's cell
		// (aggregates reachable from it stay shared and read-only)
		if x.gshadow == nil {
			x.gshadow = map[*ssa.Global]*Cell{}
		}
		sh := x.gshadow[g]
		if sh == nil {
			sh = &Cell{V: c.V, Name: c.Name}
			x.gshadow[g] = sh
		}
		return sh
	}
	return c
}

func (e *Engine) checkInit(p *ssa.Package) {
	e.mu.Lock()
	reason, done := e.pkgInit[p]
	e.mu.Unlock()
	if done && reason != "" && reason != "running" {
		panic(unsupported("package " + p.Pkg.Path() + " init failed: " + reason))
	}
}

func (e *Engine) initPackage(p *ssa.Package, nested bool) {
	e.mu.Lock()
	if _, ok := e.pkgInit[p]; ok {
		e.mu.Unlock()
		return
	}
	e.mu.Unlock()
	// serialise outermost initialisations; nested ones run on the same goroutine
	outer := false
	if !nested {
		e.initMu.Lock()
		outer = true
		e.mu.Lock()
		if _, ok := e.pkgInit[p]; ok {
			e.mu.Unlock()
			e.initMu.Unlock()
			return
		}
		e.mu.Unlock()
	}
	defer func() {
		if outer {
			e.initMu.Unlock()
		}
	}()
	e.mu.Lock()
	e.pkgInit[p] = "running"
	var cells []*Cell
	for _, m := range p.Members {
		if g, ok := m.(*ssa.Global); ok {
			c := &Cell{V: zeroValue(g.Type().Underlying().(*types.Pointer).Elem()), Name: g.String()}
			e.globals[g] = c
			cells = append(cells, c)
		}
	}
	e.mu.Unlock()
	reason := ""
	if initFn := p.Func("init"); initFn != nil && initFn.Blocks != nil && !e.denyPkgs[p.Pkg.Path()] {
		x := newExec(e, nil, nil, nil)
		x.initPkg = p
		atomic.AddInt32(&initWrites, 1)
		func() {
			defer atomic.AddInt32(&initWrites, -1)
			defer func() {
				if r := recover(); r != nil {
					switch v := r.(type) {
					case *unsupportedErr:
						reason = v.msg + x.where()
					case *goPanic:
						reason = "panic: " + v.desc
					case *pathEnd:
						reason = v.reason
					default:
						reason = fmt.Sprint(r)
					}
				}
			}()
			x.callFunction(initFn, nil, nil)
		}()
	}
	// freeze everything reachable from this package's globals
	seen := map[interface{}]bool{}
	for _, c := range cells {
		freeze(c, seen)
	}
	e.mu.Lock()
	e.pkgInit[p] = reason
	e.mu.Unlock()
	if reason != "" && os.Getenv("VERIF_DEBUG") != "" {
		fmt.Fprintf(os.Stderr, "init of %s failed: %s\n", p.Pkg.Path(), reason)
	}
}

func freeze(v Value, seen map[interface{}]bool) {
	switch t := v.(type) {
	case *Cell:
		if seen[t] {
			return
		}
		seen[t] = true
		t.Frozen = true
		freeze(t.V, seen)
	case *PtrVal:
		if t.R != nil {
			freezeRef(t.R, seen)
		}
	case *StructVal:
		for _, f := range t.F {
			freeze(f, seen)
		}
	case *ArrayVal:
		for _, f := range t.E {
			freeze(f, seen)
		}
	case *SliceVal:
		if t.A != nil && !seen[t.A] {
			seen[t.A] = true
			t.A.Frozen = true
			for _, f := range t.A.E {
				freeze(f, seen)
			}
		}
	case *MapVal:
		if t.M != nil && !seen[t.M] {
			seen[t.M] = true
			t.M.Frozen = true
			for _, en := range t.M.E {
				freeze(en.K, seen)
				freeze(en.V, seen)
			}
		}
	case *IfaceVal:
		if t.T != nil {
			freeze(t.V, seen)
		}
	case *FuncVal:
		for _, b := range t.Bind {
			freeze(b, seen)
		}
	case TupleVal:
		for _, f := range t {
			freeze(f, seen)
		}
	}
}

func freezeRef(r Ref, seen map[interface{}]bool) {
	switch t := r.(type) {
	case *Cell:
		freeze(t, seen)
	case fieldRef:
		freezeRef(t.Base, seen)
	case arrElemRef:
		freezeRef(t.Base, seen)
	case elemRef:
		if !seen[t.A] {
			seen[t.A] = true
			t.A.Frozen = true
			for _, f := range t.A.E {
				freeze(f, seen)
			}
		}
	}
}

// ---------------------------------------------------------------------------
// methods

type methKey struct {
	t    types.Type
	name string
	pkg  *types.Package
}

func (e *Engine) lookupMethod(t types.Type, m *types.Func) *ssa.Function {
	// types.Type values are canonical enough for caching by string
	key := t.String() + "#" + m.Id()
	if f, ok := e.methCache.Load(key); ok {
		return f.(*ssa.Function)
	}
	mset := e.prog.MethodSets.MethodSet(t)
	sel := mset.Lookup(m.Pkg(), m.Name())
	if sel == nil {
		return nil
	}
	f := e.prog.MethodValue(sel)
	if f != nil {
		e.methCache.Store(key, f)
	}
	return f
}

func (e *Engine) methodByName(t types.Type, name string) *ssa.Function {
	mset := e.prog.MethodSets.MethodSet(t)
	for i := 0; i < mset.Len(); i++ {
		sel := mset.At(i)
		if sel.Obj().Name() == name {
			return e.prog.MethodValue(sel)
		}
	}
	return nil
}

func (e *Engine) implements(t types.Type, it *types.Interface) bool {
	key := t.String() + "#" + it.String()
	if v, ok := e.implCache.Load(key); ok {
		return v.(bool)
	}
	r := types.Implements(t, it)
	e.implCache.Store(key, r)
	return r
}

func (e *Engine) findType(pkgPath, name string) types.Type {
	for _, p := range e.prog.AllPackages() {
		if p.Pkg.Path() == pkgPath {
			if m, ok := p.Members[name]; ok {
				if t, ok := m.(*ssa.Type); ok {
					return t.Type()
				}
			}
		}
	}
	return nil
}

func (e *Engine) findFunc(pkgPath, name string) *ssa.Function {
	for _, p := range e.prog.AllPackages() {
		if p.Pkg.Path() == pkgPath {
			return p.Func(name)
		}
	}
	return nil
}

// ---------------------------------------------------------------------------
// overlay construction

func buildOverlay(repo, harnessRoot, pkgPath string) (map[string][]byte, map[string]string, error) {
	dir := filepath.Join(harnessRoot, pkgPath)
	ents, err := os.ReadDir(dir)
	if err != nil {
		return nil, nil, err
	}
	ov := map[string][]byte{}
	repl := map[string]string{}
	var names []string
	for _, en := range ents {
		if strings.HasSuffix(en.Name(), ".go") {
			names = append(names, en.Name())
		}
	}
	sort.Strings(names)
	for _, n := range names {
		b, err := os.ReadFile(filepath.Join(dir, n))
		if err != nil {
			return nil, nil, err
		}
		virt := filepath.Join(repo, pkgPath, n)
		if !strings.HasSuffix(n, "_test.go") {
			ov[virt] = b
		}
		repl[virt] = filepath.Join(dir, n)
	}
	return ov, repl, nil
}

// bridgeSwagPrefix: the generator installs swag.GoNamePrefixFunc during its init. The engine
// calls the real (linked) swag natively on concrete names, so the linked swag must use the same
// prefix function: it is bridged to an interpretation of whatever function value the interpreted
// init stored (i.e. the current source of generator.prefixForName).
func (e *Engine) bridgeSwagPrefix() {
	for _, p := range e.prog.AllPackages() {
		if p.Pkg.Path() != "github.com/go-openapi/swag" {
			continue
		}
		g, ok := p.Members["GoNamePrefixFunc"].(*ssa.Global)
		if !ok {
			return
		}
		e.mu.Lock()
		c := e.globals[g]
		e.mu.Unlock()
		if c == nil {
			return
		}
		fv, ok := c.V.(*FuncVal)
		if !ok || fv.Fn == nil {
			return
		}
		swag.GoNamePrefixFunc = func(name string) string {
			x := newExec(e, nil, nil, nil)
			var out string
			func() {
				defer func() {
					if r := recover(); r != nil {
						out = ""
					}
				}()
				r := x.call(fv, []Value{mkStr(name)}, nil)
				if sv, ok := r.(*StrVal); ok && sv.IsConcrete() {
					out = sv.Conc()
				}
			}()
			return out
		}
	}
}
