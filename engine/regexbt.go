package main

// Backtracking regular-expression matcher over (possibly symbolic) bytes with Go's leftmost-first
// semantics. Byte tests go through the forking decide(), so on each path spans and submatches are
// concrete. ASCII only (symbolic bytes are ASCII by construction; concrete non-ASCII is unsupported).

import (
	"regexp"
	"regexp/syntax"
	"unicode"
)

type btMatcher struct {
	x    *Exec
	s    StrAlt
	caps []int
	fuel int
}

func (m *btMatcher) byteIn(re *syntax.Regexp, b *Term) bool {
	var t *Term
	switch re.Op {
	case syntax.OpCharClass:
		t = runeRangesTerm(b, re.Rune, false)
		if re.Flags&syntax.FoldCase != 0 {
			up := tAnd(bvCmp(OpULe, mkBV(8, 'A'), b), bvCmp(OpULe, b, mkBV(8, 'Z')))
			lo := tAnd(bvCmp(OpULe, mkBV(8, 'a'), b), bvCmp(OpULe, b, mkBV(8, 'z')))
			t = tOr(t, tOr(tAnd(up, runeRangesTerm(bvBin(OpAdd, b, mkBV(8, 32)), re.Rune, false)), tAnd(lo, runeRangesTerm(bvBin(OpSub, b, mkBV(8, 32)), re.Rune, false))))
		}
	case syntax.OpAnyChar:
		t = TTrue
	case syntax.OpAnyCharNotNL:
		t = tNot(tEq(b, mkBV(8, '\n')))
	default:
		panic(unsupported("regexp backtracking: single-char op"))
	}
	return m.x.decide(t)
}

func (m *btMatcher) runeIs(r rune, fold bool, b *Term) bool {
	if r > 0x7f {
		panic(unsupported("regexp backtracking: non-ASCII literal"))
	}
	t := tEq(b, mkBV(8, uint64(r)))
	if fold {
		for r1 := unicode.SimpleFold(r); r1 != r; r1 = unicode.SimpleFold(r1) {
			if r1 < 0x80 {
				t = tOr(t, tEq(b, mkBV(8, uint64(r1))))
			}
		}
	}
	return m.x.decide(t)
}

func (m *btMatcher) match(re *syntax.Regexp, pos int, k func(int) bool) bool {
	m.fuel--
	if m.fuel < 0 {
		panic(&pathEnd{"bound-hit: regexp backtracking steps"})
	}
	n := m.s.Len()
	switch re.Op {
	case syntax.OpEmptyMatch:
		return k(pos)
	case syntax.OpNoMatch:
		return false
	case syntax.OpLiteral:
		p := pos
		for _, r := range re.Rune {
			if p >= n || !m.runeIs(r, re.Flags&syntax.FoldCase != 0, m.s.Byte(p)) {
				return false
			}
			p++
		}
		return k(p)
	case syntax.OpCharClass, syntax.OpAnyChar, syntax.OpAnyCharNotNL:
		if pos >= n || !m.byteIn(re, m.s.Byte(pos)) {
			return false
		}
		return k(pos + 1)
	case syntax.OpBeginText:
		return pos == 0 && k(pos)
	case syntax.OpEndText:
		return pos == n && k(pos)
	case syntax.OpBeginLine:
		if pos == 0 || m.x.decide(tEq(m.s.Byte(pos-1), mkBV(8, '\n'))) {
			return k(pos)
		}
		return false
	case syntax.OpEndLine:
		if pos == n || m.x.decide(tEq(m.s.Byte(pos), mkBV(8, '\n'))) {
			return k(pos)
		}
		return false
	case syntax.OpCapture:
		oldS, oldE := m.caps[2*re.Cap], m.caps[2*re.Cap+1]
		ok := m.match(re.Sub[0], pos, func(e int) bool {
			ps, pe := m.caps[2*re.Cap], m.caps[2*re.Cap+1]
			m.caps[2*re.Cap], m.caps[2*re.Cap+1] = pos, e
			if k(e) {
				return true
			}
			m.caps[2*re.Cap], m.caps[2*re.Cap+1] = ps, pe
			return false
		})
		if !ok {
			m.caps[2*re.Cap], m.caps[2*re.Cap+1] = oldS, oldE
		}
		return ok
	case syntax.OpConcat:
		var seq func(i, p int) bool
		seq = func(i, p int) bool {
			if i == len(re.Sub) {
				return k(p)
			}
			return m.match(re.Sub[i], p, func(e int) bool { return seq(i+1, e) })
		}
		return seq(0, pos)
	case syntax.OpAlternate:
		for _, sub := range re.Sub {
			if m.match(sub, pos, k) {
				return true
			}
		}
		return false
	case syntax.OpQuest:
		if re.Flags&syntax.NonGreedy != 0 {
			return k(pos) || m.match(re.Sub[0], pos, k)
		}
		return m.match(re.Sub[0], pos, k) || k(pos)
	case syntax.OpStar, syntax.OpPlus, syntax.OpRepeat:
		min, max := 0, -1
		if re.Op == syntax.OpPlus {
			min = 1
		}
		if re.Op == syntax.OpRepeat {
			min, max = re.Min, re.Max
		}
		greedy := re.Flags&syntax.NonGreedy == 0
		var rep func(cnt, p int) bool
		rep = func(cnt, p int) bool {
			more := func() bool {
				if max >= 0 && cnt >= max {
					return false
				}
				return m.match(re.Sub[0], p, func(e int) bool {
					if e == p && cnt >= min {
						return false // empty iteration: no progress
					}
					return rep(cnt+1, e)
				})
			}
			if cnt < min {
				return more()
			}
			if greedy {
				return more() || k(p)
			}
			return k(p) || more()
		}
		return rep(0, pos)
	case syntax.OpWordBoundary, syntax.OpNoWordBoundary:
		n := m.s.Len()
		before, after := TFalse, TFalse
		if pos > 0 {
			before = isWordByte(m.s.Byte(pos - 1))
		}
		if pos < n {
			after = isWordByte(m.s.Byte(pos))
		}
		b := m.x.decide(tNot(tEq(before, after)))
		if (re.Op == syntax.OpWordBoundary) == b {
			return k(pos)
		}
		return false
	}
	panic(unsupported("regexp backtracking: op " + re.Op.String()))
}

var reTreeCache = map[string]*syntax.Regexp{}

func reTree(re *regexp.Regexp) *syntax.Regexp {
	progCacheMu.Lock()
	defer progCacheMu.Unlock()
	if t, ok := reTreeCache[re.String()]; ok {
		return t
	}
	t, err := syntax.Parse(re.String(), syntax.Perl)
	if err != nil {
		panic(unsupported("regexp parse: " + err.Error()))
	}
	t = t.Simplify()
	reTreeCache[re.String()] = t
	return t
}

// findFrom returns the leftmost match starting at or after `from`: capture positions or nil
func (x *Exec) reFind(re *regexp.Regexp, s StrAlt, from int) []int {
	tree := reTree(re)
	ncap := tree.MaxCap() + 1
	for start := from; start <= s.Len(); start++ {
		m := &btMatcher{x: x, s: s, caps: make([]int, 2*ncap), fuel: 20000}
		for i := range m.caps {
			m.caps[i] = -1
		}
		end := -1
		if m.match(tree, start, func(e int) bool { end = e; return true }) {
			m.caps[0], m.caps[1] = start, end
			return m.caps
		}
	}
	return nil
}

func subAlt(s StrAlt, b, e int) *StrVal {
	if s.Sym == nil {
		return mkStr(s.S[b:e])
	}
	return mkStrBytes(s.Sym[b:e])
}

func (x *Exec) reFindStringSubmatch(re *regexp.Regexp, sv *StrVal) Value {
	s := x.pickAlt(sv)
	caps := x.reFind(re, s, 0)
	if caps == nil {
		return &SliceVal{Nil: true}
	}
	vs := make([]Value, len(caps)/2)
	for i := range vs {
		if caps[2*i] < 0 {
			vs[i] = mkStr("")
		} else {
			vs[i] = subAlt(s, caps[2*i], caps[2*i+1])
		}
	}
	return mkSlice(vs)
}

func (x *Exec) reReplaceAll(re *regexp.Regexp, sv *StrVal, repl string) Value {
	for i := 0; i < len(repl); i++ {
		if repl[i] == '$' {
			panic(unsupported("ReplaceAllString with $ references on symbolic text"))
		}
	}
	s := x.pickAlt(sv)
	out := mkStr("")
	last, pos, n := 0, 0, s.Len()
	prevEnd := -1
	for pos <= n {
		caps := x.reFind(re, s, pos)
		if caps == nil {
			break
		}
		b, e := caps[0], caps[1]
		if e == b && b == prevEnd {
			// an empty match right after the previous match is ignored
			pos = b + 1
			continue
		}
		out = x.concat(out, subAlt(s, last, b))
		out = x.concat(out, mkStr(repl))
		last, prevEnd = e, e
		if e > b {
			pos = e
		} else {
			pos = e + 1
		}
	}
	return x.concat(out, subAlt(s, last, n))
}
