package main

import (
	"fmt"
	"go/token"
	"go/types"
	"unicode/utf8"

	"golang.org/x/tools/go/ssa"
)

func decodeRuneBytes(b []byte) (rune, int) { return utf8.DecodeRune(b) }

func (x *Exec) binop(op token.Token, a, b Value, ta, tb types.Type) Value {
	switch op {
	case token.EQL:
		return x.equalValues(a, b, ta)
	case token.NEQ:
		return tNot(x.equalValues(a, b, ta))
	}
	switch av := a.(type) {
	case *StrVal:
		bv := b.(*StrVal)
		switch op {
		case token.ADD:
			return x.concat(av, bv)
		case token.LSS, token.LEQ, token.GTR, token.GEQ:
			if av.Opaque || bv.Opaque {
				lt, gt := x.opaqueLess(av, bv), x.opaqueLess(bv, av)
				switch op {
				case token.LSS:
					return lt
				case token.GTR:
					return gt
				case token.LEQ:
					return tNot(gt)
				default:
					return tNot(lt)
				}
			}
			if len(av.Alts)*len(bv.Alts) > 1 && len(av.Alts)*len(bv.Alts) <= 256 {
				// no fork: the comparison is a term over the alternatives
				lt, gt := TFalse, TFalse
				for _, p := range av.Alts {
					for _, q := range bv.Alts {
						g := tAnd(p.G, q.G)
						if g.IsFalse() {
							continue
						}
						lt = tOr(lt, tAnd(g, altLess(p, q)))
						gt = tOr(gt, tAnd(g, altLess(q, p)))
					}
				}
				switch op {
				case token.LSS:
					return lt
				case token.GTR:
					return gt
				case token.LEQ:
					return tNot(gt)
				default:
					return tNot(lt)
				}
			}
			l, r := x.pickAlt(av), x.pickAlt(bv)
			switch op {
			case token.LSS:
				return altLess(l, r)
			case token.GTR:
				return altLess(r, l)
			case token.LEQ:
				return tNot(altLess(r, l))
			default:
				return tNot(altLess(l, r))
			}
		}
	case *Term:
		bt := b.(*Term)
		if av.S.K == KFP {
			switch op {
			case token.ADD:
				return tFBin(OpFAdd, av, bt)
			case token.SUB:
				return tFBin(OpFSub, av, bt)
			case token.MUL:
				return tFBin(OpFMul, av, bt)
			case token.QUO:
				return tFBin(OpFDiv, av, bt)
			case token.LSS:
				return tFCmp(OpFLt, av, bt)
			case token.LEQ:
				return tFCmp(OpFLe, av, bt)
			case token.GTR:
				return tFCmp(OpFLt, bt, av)
			case token.GEQ:
				return tFCmp(OpFLe, bt, av)
			}
			panic(unsupported("float binop " + op.String()))
		}
		if av.S.K == KBool {
			switch op {
			case token.AND, token.LAND:
				return tAnd(av, bt)
			case token.OR, token.LOR:
				return tOr(av, bt)
			}
			panic(unsupported("bool binop " + op.String()))
		}
		sg := isSigned(ta)
		switch op {
		case token.ADD:
			return bvBin(OpAdd, av, bt)
		case token.SUB:
			return bvBin(OpSub, av, bt)
		case token.MUL:
			return bvBin(OpMul, av, bt)
		case token.QUO, token.REM:
			if x.decide(tEq(bt, mkBV(bt.S.W, 0))) {
				x.goPanicf("integer divide by zero")
			}
			if op == token.QUO {
				if sg {
					return bvBin(OpSDiv, av, bt)
				}
				return bvBin(OpUDiv, av, bt)
			}
			if sg {
				return bvBin(OpSRem, av, bt)
			}
			return bvBin(OpURem, av, bt)
		case token.AND:
			return bvBin(OpBAnd, av, bt)
		case token.OR:
			return bvBin(OpBOr, av, bt)
		case token.XOR:
			return bvBin(OpBXor, av, bt)
		case token.AND_NOT:
			return bvBin(OpBAnd, av, bvUn(OpBNot, bt))
		case token.SHL, token.SHR:
			// shift count: unsigned compare against width, then resize
			w := av.S.W
			cnt := bt
			if isSigned(tb) && !cnt.IsConst() {
				if x.decide(bvCmp(OpSLt, cnt, mkBV(cnt.S.W, 0))) {
					x.goPanicf("negative shift amount")
				}
			}
			var big *Term
			if cnt.S.W > w {
				big = bvCmp(OpULe, mkBV(cnt.S.W, uint64(w)), cnt)
				cnt = tExtract(cnt, 0, w)
			} else {
				cnt = tZExt(cnt, w)
				big = TFalse
			}
			var r, over *Term
			switch {
			case op == token.SHL:
				r, over = bvBin(OpShl, av, cnt), mkBV(w, 0)
			case sg:
				r = bvBin(OpAShr, av, cnt)
				over = bvBin(OpAShr, av, mkBV(w, uint64(w-1)))
			default:
				r, over = bvBin(OpLShr, av, cnt), mkBV(w, 0)
			}
			return tIte(big, over, r)
		case token.LSS:
			if sg {
				return bvCmp(OpSLt, av, bt)
			}
			return bvCmp(OpULt, av, bt)
		case token.LEQ:
			if sg {
				return bvCmp(OpSLe, av, bt)
			}
			return bvCmp(OpULe, av, bt)
		case token.GTR:
			if sg {
				return bvCmp(OpSLt, bt, av)
			}
			return bvCmp(OpULt, bt, av)
		case token.GEQ:
			if sg {
				return bvCmp(OpSLe, bt, av)
			}
			return bvCmp(OpULe, bt, av)
		}
	}
	panic(unsupported(fmt.Sprintf("binop %s on %T", op, a)))
}

func (x *Exec) concat(a, b *StrVal) *StrVal {
	if a.Opaque {
		return a // prefix unchanged; the rest stays unknown
	}
	if b.Opaque {
		pre := a
		if b.OpPrefix != nil {
			pre = x.concat(a, b.OpPrefix)
		}
		return &StrVal{Opaque: true, OpPrefix: pre, MinLen: b.MinLen}
	}
	if len(a.Alts)*len(b.Alts) > 64 {
		a = x.single(a)
		if len(a.Alts)*len(b.Alts) > 64 {
			b = x.single(b)
		}
	}
	r := &StrVal{}
	for _, p := range a.Alts {
		for _, q := range b.Alts {
			g := tAnd(p.G, q.G)
			if g.IsFalse() {
				continue
			}
			if p.Sym == nil && q.Sym == nil {
				r.Alts = append(r.Alts, StrAlt{G: g, S: p.S + q.S})
			} else {
				bs := append(append([]*Term{}, p.Bytes()...), q.Bytes()...)
				r.Alts = append(r.Alts, StrAlt{G: g, Sym: bs})
			}
		}
	}
	return r
}

func isNilConstVal(v Value) bool {
	switch t := v.(type) {
	case *IfaceVal:
		return t.T == nil
	case *PtrVal:
		return t.R == nil && t.Nil.IsTrue()
	}
	return false
}

func (x *Exec) equalValues(a, b Value, t types.Type) *Term {
	switch av := a.(type) {
	case *Term:
		return tEq(av, b.(*Term))
	case *StrVal:
		bv := b.(*StrVal)
		if av.Opaque || bv.Opaque {
			return x.opaqueEq(av, bv)
		}
		return strEq(av, bv)
	case *PtrVal:
		bv, ok := b.(*PtrVal)
		if !ok {
			panic(unsupported(fmt.Sprintf("pointer compared with %T", b)))
		}
		if av.R == nil || bv.R == nil {
			if av.R == nil && bv.R == nil {
				return TTrue
			}
			if av.R == nil {
				return bv.Nil
			}
			return av.Nil
		}
		same := mkBool(sameRef(av.R, bv.R))
		return tOr(tAnd(av.Nil, bv.Nil), tAndN(tNot(av.Nil), tNot(bv.Nil), same))
	case *IfaceVal:
		bv, ok := b.(*IfaceVal)
		if !ok {
			panic(unsupported(fmt.Sprintf("interface compared with %T", b)))
		}
		if av.T == nil || bv.T == nil {
			return mkBool(av.T == nil && bv.T == nil)
		}
		if !types.Identical(av.T, bv.T) {
			return TFalse
		}
		if !types.Comparable(av.T) {
			x.goPanicf("runtime error: comparing uncomparable type %s", av.T)
		}
		return x.equalValues(av.V, bv.V, av.T)
	case *StructVal:
		bv := b.(*StructVal)
		r := TTrue
		var st *types.Struct
		if t != nil {
			st, _ = t.Underlying().(*types.Struct)
		}
		for i := range av.F {
			var ft types.Type
			if st != nil {
				ft = st.Field(i).Type()
			}
			r = tAnd(r, x.equalValues(av.F[i], bv.F[i], ft))
			if r.IsFalse() {
				return r
			}
		}
		return r
	case *ArrayVal:
		bv := b.(*ArrayVal)
		r := TTrue
		var et types.Type
		if t != nil {
			if at, ok := t.Underlying().(*types.Array); ok {
				et = at.Elem()
			}
		}
		for i := range av.E {
			r = tAnd(r, x.equalValues(av.E[i], bv.E[i], et))
		}
		return r
	case *SliceVal:
		bv := b.(*SliceVal)
		if bv.Nil && bv.A == nil {
			return mkBool(av.Nil)
		}
		if av.Nil && av.A == nil {
			return mkBool(bv.Nil)
		}
		panic(unsupported("slice comparison"))
	case *MapVal:
		bv := b.(*MapVal)
		if bv.M == nil {
			return mkBool(av.M == nil)
		}
		if av.M == nil {
			return mkBool(bv.M == nil)
		}
		panic(unsupported("map comparison"))
	case *FuncVal:
		bv := b.(*FuncVal)
		an := av.Fn == nil && av.Builtin == nil && av.Native == ""
		bn := bv.Fn == nil && bv.Builtin == nil && bv.Native == ""
		if an || bn {
			return mkBool(an && bn)
		}
		panic(unsupported("func comparison"))
	case *ChanVal:
		return TTrue
	case nil:
		return mkBool(b == nil)
	}
	panic(unsupported(fmt.Sprintf("equality on %T", a)))
}

// ---------------------------------------------------------------------------
// conversions

func (x *Exec) convert(v Value, from, to types.Type) Value {
	fu, tu := from.Underlying(), to.Underlying()
	if tb, ok := tu.(*types.Basic); ok {
		if tb.Info()&types.IsString != 0 {
			switch fv := v.(type) {
			case *StrVal:
				return fv
			case *SliceVal: // []byte or []rune -> string
				et := fu.(*types.Slice).Elem().Underlying().(*types.Basic)
				if et.Kind() == types.Uint8 {
					bs := make([]*Term, fv.Len)
					for i := range bs {
						bs[i] = fv.At(i).(*Term)
					}
					return mkStrBytes(bs)
				}
				// []rune
				var out []*Term
				for i := 0; i < fv.Len; i++ {
					out = append(out, x.encodeRune(fv.At(i).(*Term))...)
				}
				return mkStrBytes(out)
			case *Term: // integer -> string (rune)
				return mkStrBytes(x.encodeRune(tZExtOrTrunc(fv, 32)))
			}
		}
		if ts, ok := sortOf(to); ok {
			t, isT := v.(*Term)
			if !isT {
				panic(unsupported(fmt.Sprintf("convert %T to %s", v, to)))
			}
			fs := t.S
			switch {
			case fs.K == KBV && ts.K == KBV:
				if ts.W <= fs.W {
					return tExtract(t, 0, ts.W)
				}
				if isSigned(from) {
					return tSExt(t, ts.W)
				}
				return tZExt(t, ts.W)
			case fs.K == KBV && ts.K == KFP:
				return tIToFP(t, isSigned(from), ts)
			case fs.K == KFP && ts.K == KBV:
				return tFPToI(t, isSigned(to), ts.W)
			case fs.K == KFP && ts.K == KFP:
				return tFPToFP(t, ts)
			case fs.K == KBool && ts.K == KBool:
				return t
			}
		}
		if tb.Kind() == types.UnsafePointer {
			return v
		}
	}
	if ts, ok := tu.(*types.Slice); ok {
		if sv, ok := v.(*StrVal); ok {
			alt := x.pickAlt(sv)
			et := ts.Elem().Underlying().(*types.Basic)
			if et.Kind() == types.Uint8 {
				bs := alt.Bytes()
				arr := &ArrayObj{E: make([]Value, len(bs))}
				for i, b := range bs {
					arr.E[i] = b
				}
				return &SliceVal{A: arr, Len: len(bs), Cap: len(bs)}
			}
			// []rune
			var rs []Value
			for p := 0; p < alt.Len(); {
				r, n := x.decodeRune(alt, p)
				rs = append(rs, r)
				p += n
			}
			return &SliceVal{A: &ArrayObj{E: rs}, Len: len(rs), Cap: len(rs)}
		}
		if sv, ok := v.(*SliceVal); ok {
			return sv
		}
	}
	if _, ok := tu.(*types.Pointer); ok {
		return v
	}
	panic(unsupported(fmt.Sprintf("convert %s -> %s", from, to)))
}

func tZExtOrTrunc(t *Term, w int) *Term {
	if t.S.W >= w {
		return tExtract(t, 0, w)
	}
	return tZExt(t, w)
}

func (x *Exec) encodeRune(r *Term) []*Term {
	if r.IsConst() {
		buf := make([]byte, 4)
		rv := rune(int32(uint32(r.Val)))
		if r.S.W > 32 && r.Val > 0x10FFFF {
			rv = utf8.RuneError
		}
		n := utf8.EncodeRune(buf, rv)
		out := make([]*Term, n)
		for i := range out {
			out[i] = mkBV(8, uint64(buf[i]))
		}
		return out
	}
	if x.decide(bvCmp(OpULt, r, mkBV(r.S.W, 0x80))) {
		return []*Term{tExtract(r, 0, 8)}
	}
	panic(unsupported("symbolic non-ASCII rune to string"))
}

// ---------------------------------------------------------------------------
// builtins

func (x *Exec) callBuiltin(name string, args []Value, site *ssa.CallCommon) Value {
	switch name {
	case "len":
		switch a := args[0].(type) {
		case *StrVal:
			if a.Opaque {
				// unknown text: its length is an unconstrained value >= MinLen
				n := x.fresh("oplen", SBV64)
				x.vAssume(tAnd(bvCmp(OpSLe, mkBV(64, uint64(a.MinLen)), n), bvCmp(OpSLe, n, mkBV(64, 1<<20))))
				return n
			}
			if len(a.Alts) > 1 {
				// avoid forking when all alternatives have the same length
				n := a.Alts[0].Len()
				same := true
				for _, al := range a.Alts {
					if al.Len() != n {
						same = false
					}
				}
				if same {
					return mkBV(64, uint64(n))
				}
				// different lengths: fork on the alternative (lengths stay concrete)
				return mkBV(64, uint64(x.pickAlt(a).Len()))
			}
			return mkBV(64, uint64(a.Alts[0].Len()))
		case *SliceVal:
			return mkBV(64, uint64(a.Len))
		case *MapVal:
			if a.M == nil {
				return mkBV(64, 0)
			}
			return mkBV(64, uint64(len(a.M.E)))
		case *ArrayVal:
			return mkBV(64, uint64(len(a.E)))
		case *PtrVal:
			return mkBV(64, uint64(len(x.deref(a).Load().(*ArrayVal).E)))
		case *ChanVal:
			return mkBV(64, 0)
		}
	case "cap":
		switch a := args[0].(type) {
		case *SliceVal:
			return mkBV(64, uint64(a.Cap))
		case *ArrayVal:
			return mkBV(64, uint64(len(a.E)))
		}
	case "append":
		s := args[0].(*SliceVal)
		var add []Value
		switch t := args[1].(type) {
		case *SliceVal:
			for i := 0; i < t.Len; i++ {
				add = append(add, t.At(i))
			}
		case *StrVal:
			for _, b := range x.pickAlt(t).Bytes() {
				add = append(add, b)
			}
		}
		if len(add) == 0 {
			return s
		}
		if s.Len+len(add) <= s.Cap {
			if s.A.Frozen {
				panic(unsupported("append into frozen backing array"))
			}
			for i, v := range add {
				s.A.E[s.Off+s.Len+i] = v
			}
			return &SliceVal{A: s.A, Off: s.Off, Len: s.Len + len(add), Cap: s.Cap}
		}
		ncap := s.Len + len(add)
		if ncap < 2*s.Cap {
			ncap = 2 * s.Cap
		}
		arr := &ArrayObj{E: make([]Value, ncap)}
		for i := 0; i < s.Len; i++ {
			arr.E[i] = s.At(i)
		}
		for i, v := range add {
			arr.E[s.Len+i] = v
		}
		// zero-fill spare capacity lazily with nil (never read before written via append);
		// reslicing beyond len needs real zeros:
		if ncap > s.Len+len(add) {
			et := site.Args[0].Type().Underlying().(*types.Slice).Elem()
			z := zeroValue(et)
			for i := s.Len + len(add); i < ncap; i++ {
				arr.E[i] = z
			}
		}
		return &SliceVal{A: arr, Len: s.Len + len(add), Cap: ncap}
	case "copy":
		dst := args[0].(*SliceVal)
		var src []Value
		switch t := args[1].(type) {
		case *SliceVal:
			for i := 0; i < t.Len; i++ {
				src = append(src, t.At(i))
			}
		case *StrVal:
			for _, b := range x.pickAlt(t).Bytes() {
				src = append(src, b)
			}
		}
		n := len(src)
		if dst.Len < n {
			n = dst.Len
		}
		if n > 0 && dst.A.Frozen {
			panic(unsupported("copy into frozen array"))
		}
		for i := 0; i < n; i++ {
			dst.A.E[dst.Off+i] = src[i]
		}
		return mkBV(64, uint64(n))
	case "delete":
		m := args[0].(*MapVal)
		if m.M == nil {
			return nil
		}
		if m.M.Frozen {
			panic(unsupported("delete from frozen map"))
		}
		if i := x.mapFind(m.M, args[1]); i >= 0 {
			ne := make([]MapEntry, 0, len(m.M.E)-1)
			ne = append(ne, m.M.E[:i]...)
			ne = append(ne, m.M.E[i+1:]...)
			m.M.E = ne
		}
		return nil
	case "panic":
		panic(&goPanic{val: args[0], desc: "explicit panic: " + describe(args[0]) + x.where()})
	case "recover":
		if x.panicking != nil && !x.recovered {
			x.recovered = true
			return x.panicking.val
		}
		return nilIface
	case "print", "println":
		return nil
	case "min", "max":
		r := args[0]
		for _, a := range args[1:] {
			lt := x.binop(token.LSS, a, r, site.Args[0].Type(), site.Args[0].Type()).(*Term)
			if name == "max" {
				lt = x.binop(token.GTR, a, r, site.Args[0].Type(), site.Args[0].Type()).(*Term)
			}
			if rt, ok := r.(*Term); ok {
				r = tIte(lt, a.(*Term), rt)
			} else if x.decide(lt) {
				r = a
			}
		}
		return r
	case "ssa:wrapnilchk":
		p := args[0].(*PtrVal)
		x.deref(p)
		return p
	case "clear":
		switch a := args[0].(type) {
		case *MapVal:
			if a.M != nil {
				a.M.E = nil
			}
		}
		return nil
	}
	panic(unsupported("builtin " + name + fmt.Sprintf(" on %T", args[0])))
}

// opaqueEq: two texts produced by the same Sprintf format are equal when their operands are
// (formatting is a function); anything else about opaque text is not decidable here.
func (x *Exec) opaqueEq(a, b *StrVal) *Term {
	if a == b {
		return TTrue
	}
	if a.Opaque && b.Opaque && a.OpFmt != "" && a.OpFmt == b.OpFmt && len(a.OpArgs) == len(b.OpArgs) {
		r := TTrue
		for i := range a.OpArgs {
			r = tAnd(r, x.deepEqual(a.OpArgs[i], b.OpArgs[i]))
		}
		return r
	}
	// one side known: a mismatch with the known prefix or the minimal length decides inequality
	op, kn := a, b
	if !a.Opaque {
		op, kn = b, a
	}
	if op.Opaque && !kn.Opaque {
		minLen := op.MinLen
		if op.OpPrefix != nil && !op.OpPrefix.Opaque {
			all := true
			for _, pa := range op.OpPrefix.Alts {
				if pa.Len() > minLen && len(op.OpPrefix.Alts) == 1 {
					minLen = pa.Len()
				}
				_ = all
			}
		}
		shorter := true
		for _, ka := range kn.Alts {
			if ka.Len() >= minLen {
				shorter = false
			}
		}
		if shorter {
			return TFalse
		}
		if op.OpPrefix != nil && op.OpPrefix.IsConcrete() && kn.IsConcrete() {
			p, k := op.OpPrefix.Conc(), kn.Conc()
			if len(k) < len(p) || k[:len(p)] != p {
				return TFalse
			}
		}
	}
	panic(unsupported("comparison of opaque string"))
}

// opaqueLess decides a < b from the known prefixes when they differ; otherwise it is not decidable.
func (x *Exec) opaqueLess(a, b *StrVal) *Term {
	known := func(s *StrVal) (StrAlt, bool) { // (known text, text is complete)
		if !s.Opaque {
			return x.pickAlt(s), true
		}
		if s.OpPrefix == nil {
			return StrAlt{G: TTrue, S: ""}, false
		}
		return x.pickAlt(s.OpPrefix), false
	}
	pa, ca := known(a)
	pb, cb := known(b)
	n := pa.Len()
	if pb.Len() < n {
		n = pb.Len()
	}
	for i := 0; i < n; i++ {
		ba, bb := pa.Byte(i), pb.Byte(i)
		if x.decide(tEq(ba, bb)) {
			continue
		}
		return bvCmp(OpULt, ba, bb)
	}
	// common known part is equal
	if ca && cb {
		return mkBool(pa.Len() < pb.Len())
	}
	if ca && pa.Len() <= pb.Len() {
		// a is complete and a prefix of b's known text: a < b unless b == a exactly (b has more text or equal)
		if pa.Len() < pb.Len() {
			return TTrue
		}
	}
	if cb && pb.Len() < pa.Len() {
		return TFalse // b is complete and a proper prefix of a
	}
	// the same format applied to the same operands yields the same text: neither is smaller
	if a.Opaque && b.Opaque && a.OpFmt != "" && a.OpFmt == b.OpFmt && len(a.OpArgs) == len(b.OpArgs) {
		if eq := x.opaqueEq(a, b); eq.IsTrue() {
			return TFalse
		}
	}
	if a.Opaque && b.Opaque {
		// the order depends on text the engine does not know (numbers rendered by Sprintf): both orders
		// are explored through an unconstrained oracle bit. Sound for order-insensitive obligations only;
		// order-sensitive observations would show up as a native validation mismatch.
		return x.fresh("ord", SBool)
	}
	panic(unsupported("ordering of strings whose distinguishing text is unknown (opaque)"))
}
