package main

// Symbolic regular-expression matching: Go's own compiled program (regexp/syntax.Prog) is
// simulated over the symbolic bytes with one Bool term per (position, pc). No forks.

import (
	"regexp"
	"regexp/syntax"
	"sync"
	"unicode"
)

var progCache sync.Map
var progCacheMu sync.Mutex

func progOf(re *regexp.Regexp) *syntax.Prog {
	if p, ok := progCache.Load(re.String()); ok {
		return p.(*syntax.Prog)
	}
	rx, err := syntax.Parse(re.String(), syntax.Perl)
	if err != nil {
		panic(unsupported("regexp parse: " + err.Error()))
	}
	p, err := syntax.Compile(rx.Simplify())
	if err != nil {
		panic(unsupported("regexp compile: " + err.Error()))
	}
	progCache.Store(re.String(), p)
	return p
}

// runeClassTerm: does byte b (ASCII, zero-extended) belong to the class given as rune ranges?
func runeRangesTerm(b *Term, ranges []rune, foldCase bool) *Term {
	r := TFalse
	for i := 0; i+1 < len(ranges); i += 2 {
		lo, hi := ranges[i], ranges[i+1]
		if lo > 0x7f {
			continue
		}
		if hi > 0x7f {
			hi = 0x7f
		}
		if lo == hi {
			r = tOr(r, tEq(b, mkBV(8, uint64(lo))))
		} else {
			r = tOr(r, tAnd(bvCmp(OpULe, mkBV(8, uint64(lo)), b), bvCmp(OpULe, b, mkBV(8, uint64(hi)))))
		}
	}
	return r
}

func instMatchesByte(in *syntax.Inst, b *Term) *Term {
	switch in.Op {
	case syntax.InstRune1:
		r0 := in.Rune[0]
		t := tEq(b, mkBV(8, uint64(r0)))
		if syntax.Flags(in.Arg)&syntax.FoldCase != 0 {
			for r1 := unicode.SimpleFold(r0); r1 != r0; r1 = unicode.SimpleFold(r1) {
				if r1 < 0x80 {
					t = tOr(t, tEq(b, mkBV(8, uint64(r1))))
				}
			}
		}
		if r0 > 0x7f {
			return TFalse
		}
		return t
	case syntax.InstRune:
		if len(in.Rune) == 1 {
			r0 := in.Rune[0]
			t := TFalse
			if r0 < 0x80 {
				t = tEq(b, mkBV(8, uint64(r0)))
			}
			if syntax.Flags(in.Arg)&syntax.FoldCase != 0 {
				for r1 := unicode.SimpleFold(r0); r1 != r0; r1 = unicode.SimpleFold(r1) {
					if r1 < 0x80 {
						t = tOr(t, tEq(b, mkBV(8, uint64(r1))))
					}
				}
			}
			return t
		}
		t := runeRangesTerm(b, in.Rune, false)
		if syntax.Flags(in.Arg)&syntax.FoldCase != 0 {
			// fold: also accept the other case of ASCII letters
			up := tAnd(bvCmp(OpULe, mkBV(8, 'A'), b), bvCmp(OpULe, b, mkBV(8, 'Z')))
			lowb := bvBin(OpAdd, b, mkBV(8, 32))
			lo := tAnd(bvCmp(OpULe, mkBV(8, 'a'), b), bvCmp(OpULe, b, mkBV(8, 'z')))
			upb := bvBin(OpSub, b, mkBV(8, 32))
			t = tOr(t, tOr(tAnd(up, runeRangesTerm(lowb, in.Rune, false)), tAnd(lo, runeRangesTerm(upb, in.Rune, false))))
		}
		return t
	case syntax.InstRuneAny:
		return TTrue
	case syntax.InstRuneAnyNotNL:
		return tNot(tEq(b, mkBV(8, '\n')))
	}
	return TFalse
}

func isWordByte(b *Term) *Term {
	return tOrN(tAnd(bvCmp(OpULe, mkBV(8, 'a'), b), bvCmp(OpULe, b, mkBV(8, 'z'))),
		tAnd(bvCmp(OpULe, mkBV(8, 'A'), b), bvCmp(OpULe, b, mkBV(8, 'Z'))),
		tAnd(bvCmp(OpULe, mkBV(8, '0'), b), bvCmp(OpULe, b, mkBV(8, '9'))), tEq(b, mkBV(8, '_')))
}

// emptyOK: are the empty-width conditions op satisfied at position pos of s?
func emptyOK(op syntax.EmptyOp, s StrAlt, pos int) *Term {
	n := s.Len()
	r := TTrue
	if op&syntax.EmptyBeginText != 0 && pos != 0 {
		return TFalse
	}
	if op&syntax.EmptyEndText != 0 && pos != n {
		return TFalse
	}
	if op&syntax.EmptyBeginLine != 0 && pos != 0 {
		r = tAnd(r, tEq(s.Byte(pos-1), mkBV(8, '\n')))
	}
	if op&syntax.EmptyEndLine != 0 && pos != n {
		r = tAnd(r, tEq(s.Byte(pos), mkBV(8, '\n')))
	}
	if op&(syntax.EmptyWordBoundary|syntax.EmptyNoWordBoundary) != 0 {
		before, after := TFalse, TFalse
		if pos > 0 {
			before = isWordByte(s.Byte(pos - 1))
		}
		if pos < n {
			after = isWordByte(s.Byte(pos))
		}
		boundary := tNot(tEq(before, after))
		if op&syntax.EmptyWordBoundary != 0 {
			r = tAnd(r, boundary)
		}
		if op&syntax.EmptyNoWordBoundary != 0 {
			r = tAnd(r, tNot(boundary))
		}
	}
	return r
}

// matchAlt: unanchored match of prog against one alternative (bytes assumed ASCII)
func matchAlt(p *syntax.Prog, s StrAlt) *Term {
	n := s.Len()
	np := len(p.Inst)
	// active[pc] at current position (before consuming byte pos)
	active := make([]*Term, np)
	matched := TFalse
	for i := range active {
		active[i] = TFalse
	}
	// closure: propagate through Alt/Nop/Capture/EmptyWidth/Match at position pos
	closure := func(pos int, seeds []*Term) []*Term {
		out := make([]*Term, np)
		for i := range out {
			out[i] = TFalse
		}
		var add func(pc int, g *Term, depth int)
		add = func(pc int, g *Term, depth int) {
			if g.IsFalse() || depth > 2*np {
				return
			}
			in := &p.Inst[pc]
			switch in.Op {
			case syntax.InstAlt, syntax.InstAltMatch:
				add(int(in.Out), g, depth+1)
				add(int(in.Arg), g, depth+1)
			case syntax.InstNop, syntax.InstCapture:
				add(int(in.Out), g, depth+1)
			case syntax.InstEmptyWidth:
				add(int(in.Out), tAnd(g, emptyOK(syntax.EmptyOp(in.Arg), s, pos)), depth+1)
			case syntax.InstMatch:
				matched = tOr(matched, g)
			case syntax.InstFail:
			default:
				out[pc] = tOr(out[pc], g)
			}
		}
		for pc, g := range seeds {
			if g != nil && !g.IsFalse() {
				add(pc, g, 0)
			}
		}
		return out
	}
	for pos := 0; pos <= n; pos++ {
		seeds := make([]*Term, np)
		copy(seeds, active)
		// unanchored: a match may start at every position
		seeds[p.Start] = TTrue
		cur := closure(pos, seeds)
		if pos == n {
			break
		}
		b := s.Byte(pos)
		next := make([]*Term, np)
		for i := range next {
			next[i] = TFalse
		}
		for pc, g := range cur {
			if g.IsFalse() {
				continue
			}
			in := &p.Inst[pc]
			m := instMatchesByte(in, b)
			if m.IsFalse() {
				continue
			}
			next[in.Out] = tOr(next[in.Out], tAnd(g, m))
		}
		active = next
	}
	return matched
}

func (x *Exec) regexMatchSym(re *regexp.Regexp, s *StrVal) *Term {
	if s.Opaque {
		panic(unsupported("regexp match on opaque string"))
	}
	p := progOf(re)
	r := TFalse
	for _, a := range s.Alts {
		if a.Sym == nil {
			if re.MatchString(a.S) {
				r = tOr(r, a.G)
			}
			continue
		}
		r = tOr(r, tAnd(a.G, matchAlt(p, a)))
	}
	return r
}

// concretizeByRegex: submatch extraction needs concrete text. Fork on "matches / does not match";
// for the matching side the bytes are concretised through the solver model (one representative),
// which under-approximates: callers that need all values must not rely on it.
func (x *Exec) concretizeByRegex(re *regexp.Regexp, s *StrVal) string {
	panic(unsupported("FindStringSubmatch on symbolic string"))
}
