package main

// Harness primitives (v*) and models of library functions.

import (
	"bytes"
	"os"
	"path/filepath"
	"encoding/json"
	"fmt"
	"go/types"
	"math"
	"regexp"
	"sort"
	"strconv"
	"strings"

	"golang.org/x/tools/go/ssa"
)

type syncMapModel struct {
	keys []Value
	vals map[string]Value
}

func cstr(x *Exec, v Value) string {
	s := v.(*StrVal)
	if !s.IsConcrete() {
		panic(unsupported("primitive needs a constant string argument"))
	}
	return s.Conc()
}

func cint(x *Exec, v Value) int {
	t := v.(*Term)
	if !t.IsConst() {
		panic(unsupported("primitive needs a constant int argument"))
	}
	return int(signExt(t.Val, t.S.W))
}

func sliceElems(v Value) []Value {
	s := v.(*SliceVal)
	out := make([]Value, s.Len)
	for i := range out {
		out[i] = s.At(i)
	}
	return out
}

func mkSlice(vs []Value) *SliceVal {
	return &SliceVal{A: &ArrayObj{E: vs}, Len: len(vs), Cap: len(vs)}
}

func mkStrSlice(ss []string) *SliceVal {
	vs := make([]Value, len(ss))
	for i, s := range ss {
		vs[i] = mkStr(s)
	}
	return mkSlice(vs)
}

// vector renders the recorded inputs under a model
func (x *Exec) vector(m Model) []string {
	memo := map[*Term]uint64{}
	out := make([]string, 0, len(x.inputs))
	for _, in := range x.inputs {
		switch in.Kind {
		case "bool":
			out = append(out, fmt.Sprintf("b:%d", evalTerm(in.Term, m, memo)))
		case "int", "i64", "byte":
			v := evalTerm(in.Term, m, memo)
			out = append(out, fmt.Sprintf("i:%d", signExt(v, in.Term.S.W)))
		case "f64":
			out = append(out, fmt.Sprintf("f:%016x", evalTerm(in.Term, m, memo)))
		case "bytes", "oneof":
			out = append(out, "s:"+hexOf(x.strUnder(in.Str, m, memo)))
		case "choice":
			out = append(out, "c:"+in.Conc)
		}
	}
	return out
}

func (x *Exec) namedVector(m Model) []string {
	v := x.vector(m)
	out := make([]string, len(v))
	memo := map[*Term]uint64{}
	for i, in := range x.inputs {
		val := v[i]
		switch in.Kind {
		case "f64":
			val = fmt.Sprint(math.Float64frombits(evalTerm(in.Term, m, memo)))
		case "bytes", "oneof":
			val = fmt.Sprintf("%q", x.strUnder(in.Str, m, memo))
		}
		out[i] = in.Name + "=" + val
	}
	return out
}

func (x *Exec) renderObsList(obs []Observation, m Model) []string {
	var out []string
	for _, o := range obs {
		out = append(out, o.Label+"="+x.renderObs(o.V, m))
	}
	return out
}

func (x *Exec) renderAllObs(m Model) []string { return x.renderObsList(x.observes, m) }

func hexOf(s string) string {
	const hx = "0123456789abcdef"
	var sb strings.Builder
	for i := 0; i < len(s); i++ {
		sb.WriteByte(hx[s[i]>>4])
		sb.WriteByte(hx[s[i]&15])
	}
	return sb.String()
}

func (x *Exec) strUnder(s *StrVal, m Model, memo map[*Term]uint64) string {
	if s.Opaque {
		return "<opaque>"
	}
	for _, a := range s.Alts {
		if evalTerm(a.G, m, memo) == 1 {
			if a.Sym == nil {
				return a.S
			}
			b := make([]byte, len(a.Sym))
			for i, t := range a.Sym {
				b[i] = byte(evalTerm(t, m, memo))
			}
			return string(b)
		}
	}
	return "<no-alt>"
}

func (x *Exec) renderObs(v Value, m Model) string {
	memo := map[*Term]uint64{}
	switch t := v.(type) {
	case *Term:
		val := evalTerm(t, m, memo)
		switch t.S.K {
		case KBool:
			return fmt.Sprint(val == 1)
		case KBV:
			return fmt.Sprint(signExt(val, t.S.W))
		default:
			return fmt.Sprintf("%016x", val)
		}
	case *StrVal:
		return fmt.Sprintf("%q", x.strUnder(t, m, memo))
	case *IfaceVal:
		if t.T == nil {
			return "nil"
		}
		return x.renderObs(t.V, m)
	case *SliceVal:
		var parts []string
		for i := 0; i < t.Len; i++ {
			parts = append(parts, x.renderObs(t.At(i), m))
		}
		return "[" + strings.Join(parts, " ") + "]"
	}
	return fmt.Sprintf("<%T>", v)
}

func (x *Exec) vAssert(c *Term, msg string) {
	x.asserts++
	if c.IsTrue() {
		x.discharged++
		return
	}
	neg := tNot(c)
	var res Res
	var m Model
	if v, ok := x.modelSays(neg); ok && v {
		res, m = Sat, x.model
	} else {
		x.queries++
		res, m = x.solver.Check(x.pc, neg, true)
		if res == Unknown {
			res = fallbackCheck(x.pc, neg, x.eng.timeout, x.eng.solverKind)
			if res == Sat {
				// need a model: ask the primary again is pointless; treat as inconclusive unless unsat
				res = Unknown
			}
		}
	}
	switch res {
	case Unsat:
		x.discharged++
		return
	case Unknown:
		x.inconclusive++
		return
	}
	x.fails = append(x.fails, AssertFail{Msg: msg, Cond: c, Model: m, Obs: append([]Observation{}, x.observes...)})
	// continue on the side where the assertion holds (if any)
	x.vAssume(c)
}

func (x *Exec) vAssume(c *Term) {
	if c.IsTrue() {
		return
	}
	if c.IsFalse() {
		panic(&pathEnd{"assume"})
	}
	if v, ok := x.modelSays(c); ok && v {
		x.assumeTerm(c)
		return
	}
	ok, m := x.feasible(c)
	if !ok {
		panic(&pathEnd{"assume"})
	}
	x.assumeTerm(c)
	x.model = m
}

func registerIntrinsics(e *Engine) {
	tp := e.target.Pkg.Path() + "."
	reg := func(name string, f func(x *Exec, args []Value) Value) {
		e.intrinsics[tp+name] = func(x *Exec, fn *ssa.Function, args []Value) (Value, bool) {
			return f(x, args), true
		}
	}
	reg("vBool", func(x *Exec, a []Value) Value {
		t := x.fresh("b", SBool)
		x.inputs = append(x.inputs, InputRec{Name: cstr(x, a[0]), Kind: "bool", Term: t})
		return t
	})
	reg("vInt", func(x *Exec, a []Value) Value {
		lo, hi := cint(x, a[1]), cint(x, a[2])
		t := x.fresh("i", SBV64)
		x.inputs = append(x.inputs, InputRec{Name: cstr(x, a[0]), Kind: "int", Term: t})
		x.vAssume(tAnd(bvCmp(OpSLe, mkBV(64, uint64(lo)), t), bvCmp(OpSLe, t, mkBV(64, uint64(hi)))))
		return t
	})
	reg("vI64", func(x *Exec, a []Value) Value {
		t := x.fresh("l", SBV64)
		x.inputs = append(x.inputs, InputRec{Name: cstr(x, a[0]), Kind: "i64", Term: t})
		return t
	})
	reg("vF64", func(x *Exec, a []Value) Value {
		t := x.fresh("f", SF64)
		x.inputs = append(x.inputs, InputRec{Name: cstr(x, a[0]), Kind: "f64", Term: t})
		x.vAssume(tAnd(tNot(tFIsNaN(t)), tNot(tFIsInf(t))))
		return t
	})
	reg("vByte", func(x *Exec, a []Value) Value {
		s := x.fresh("c", BV(7))
		t := tZExt(s, 8)
		x.inputs = append(x.inputs, InputRec{Name: cstr(x, a[0]), Kind: "byte", Term: t})
		return t
	})
	// vBytes(name, maxLen): ASCII string of length 0..maxLen, all lengths as guarded alternatives
	reg("vBytes", func(x *Exec, a []Value) Value {
		mx := cint(x, a[1])
		s := &StrVal{}
		var sel *Term
		if mx > 0 {
			sel = x.fresh("n", BV(8))
		}
		var all []*Term
		for i := 0; i < mx; i++ {
			all = append(all, tZExt(x.fresh("c", BV(7)), 8))
		}
		for n := 0; n <= mx; n++ {
			g := TTrue
			if mx > 0 {
				if n < mx {
					g = tEq(sel, mkBV(8, uint64(n)))
				} else {
					g = bvCmp(OpULe, mkBV(8, uint64(mx)), sel)
				}
			}
			if n == 0 {
				s.Alts = append(s.Alts, StrAlt{G: g, S: ""})
			} else {
				s.Alts = append(s.Alts, StrAlt{G: g, Sym: all[:n]})
			}
		}
		x.inputs = append(x.inputs, InputRec{Name: cstr(x, a[0]), Kind: "bytes", Str: s})
		return s
	})
	// vBytesN(name, n): ASCII string of exactly n symbolic bytes
	reg("vBytesN", func(x *Exec, a []Value) Value {
		n := cint(x, a[1])
		var all []*Term
		for i := 0; i < n; i++ {
			all = append(all, tZExt(x.fresh("c", BV(7)), 8))
		}
		s := mkStrBytes(all)
		x.inputs = append(x.inputs, InputRec{Name: cstr(x, a[0]), Kind: "bytes", Str: s})
		return s
	})
	reg("vOneOf", func(x *Exec, a []Value) Value {
		words := sliceElems(a[1])
		if len(words) == 0 {
			panic(unsupported("vOneOf without words"))
		}
		s := &StrVal{}
		if len(words) == 1 {
			s = mkStr(cstr(x, words[0]))
		} else {
			sel := x.fresh("w", BV(8))
			for i, w := range words {
				g := tEq(sel, mkBV(8, uint64(i)))
				if i == len(words)-1 {
					g = bvCmp(OpULe, mkBV(8, uint64(i)), sel)
				}
				s.Alts = append(s.Alts, StrAlt{G: g, S: cstr(x, w)})
			}
		}
		x.inputs = append(x.inputs, InputRec{Name: cstr(x, a[0]), Kind: "oneof", Str: s})
		return s
	})
	reg("vChoice", func(x *Exec, a []Value) Value {
		n := cint(x, a[1])
		if n <= 0 {
			panic(unsupported("vChoice n<=0"))
		}
		k := x.choose(n, nil)
		x.inputs = append(x.inputs, InputRec{Name: cstr(x, a[0]), Kind: "choice", Conc: fmt.Sprint(k)})
		return mkBV(64, uint64(k))
	})
	reg("vAssume", func(x *Exec, a []Value) Value { x.vAssume(a[0].(*Term)); return nil })
	reg("vAssert", func(x *Exec, a []Value) Value { x.vAssert(a[0].(*Term), cstr(x, a[1])); return nil })
	reg("vCover", func(x *Exec, a []Value) Value { x.covers[cstr(x, a[0])] = true; return nil })
	reg("vObserve", func(x *Exec, a []Value) Value {
		x.observes = append(x.observes, Observation{Label: cstr(x, a[0]), V: a[1]})
		return nil
	})
	reg("vKnown", func(x *Exec, a []Value) Value {
		id := cstr(x, a[0])
		if !x.eng.known[id] {
			return TFalse
		}
		c := a[1].(*Term)
		if x.decide(c) {
			x.knownHit[id] = true
			return TTrue
		}
		return TFalse
	})
	reg("vAnd", func(x *Exec, a []Value) Value { return tAnd(a[0].(*Term), a[1].(*Term)) })
	reg("vOr", func(x *Exec, a []Value) Value { return tOr(a[0].(*Term), a[1].(*Term)) })
	reg("vNot", func(x *Exec, a []Value) Value { return tNot(a[0].(*Term)) })
	reg("vImplies", func(x *Exec, a []Value) Value { return tImplies(a[0].(*Term), a[1].(*Term)) })
	reg("vIteInt", func(x *Exec, a []Value) Value { return tIte(a[0].(*Term), a[1].(*Term), a[2].(*Term)) })
	reg("vIteF64", func(x *Exec, a []Value) Value { return tIte(a[0].(*Term), a[1].(*Term), a[2].(*Term)) })
	reg("vIteBool", func(x *Exec, a []Value) Value { return tIte(a[0].(*Term), a[1].(*Term), a[2].(*Term)) })
	reg("vStrEq", func(x *Exec, a []Value) Value { return strEq(a[0].(*StrVal), a[1].(*StrVal)) })
	reg("vMapOrderFree", func(x *Exec, a []Value) Value {
		t := a[0].(*Term)
		x.mapFree = t.IsTrue()
		return nil
	})
	reg("vMapOrderSite", func(x *Exec, a []Value) Value {
		x.mapSite = cint(x, a[0])
		x.mapSites = 0 // sites are counted from here
		x.mapPkg = ""
		return nil
	})
	// vMapOrderSiteIn(k, pkgPrefix): as vMapOrderSite, numbering only the range statements executed by functions of that package
	reg("vMapOrderSiteIn", func(x *Exec, a []Value) Value {
		x.mapSite = cint(x, a[0])
		x.mapSites = 0
		x.mapPkg = cstr(x, a[1])
		return nil
	})
	reg("vParam", func(x *Exec, a []Value) Value {
		n := cstr(x, a[0])
		return mkBV(64, uint64(x.eng.params[n])) // absent parameters read as 0
	})
	reg("vSymbolic", func(x *Exec, a []Value) Value { return TTrue })
	reg("vMaybeNil", func(x *Exec, a []Value) Value {
		p := a[1].(*PtrVal)
		return &PtrVal{Nil: tOr(a[0].(*Term), p.Nil), R: p.R}
	})
	reg("vIsFinite", func(x *Exec, a []Value) Value {
		t := a[0].(*Term)
		return tAnd(tNot(tFIsNaN(t)), tNot(tFIsInf(t)))
	})
	reg("vIsIntegral", func(x *Exec, a []Value) Value {
		t := a[0].(*Term)
		return tFCmp(OpFEq, t, tFTrunc(t))
	})
	// vStubReturn(funcName, results...): from now on calls of funcName are not executed; they are
	// logged (name + rendered arguments) and answer with the canned results
	reg("vStubReturn", func(x *Exec, a []Value) Value {
		name := cstr(x, a[0])
		var res []Value
		for _, r := range sliceElems(a[1]) {
			res = append(res, r)
		}
		if x.stubRet == nil {
			x.stubRet = map[string][]Value{}
		}
		x.stubRet[name] = res
		return nil
	})
	// vHostFile(rel): text of a file below the directory the generator wrote to (concrete)
	reg("vHostFile", func(x *Exec, a []Value) Value {
		b, err := os.ReadFile(filepath.Join(os.Getenv("VERIF_GEN_DIR"), cstr(x, a[0])))
		if err != nil {
			return TupleVal{mkStr(""), TFalse}
		}
		return TupleVal{mkStr(string(b)), TTrue}
	})
	// vStubReturnN(funcName, n, results...): the n-th call (from 0) of funcName answers with the canned results
	reg("vStubReturnN", func(x *Exec, a []Value) Value {
		name := cstr(x, a[0])
		n := cint(x, a[1])
		var res []Value
		for _, r := range sliceElems(a[2]) {
			res = append(res, r)
		}
		if x.stubSeq == nil {
			x.stubSeq = map[string]map[int][]Value{}
			x.stubCalls = map[string]int{}
		}
		if x.stubSeq[name] == nil {
			x.stubSeq[name] = map[int][]Value{}
		}
		x.stubSeq[name][n] = res
		return nil
	})
	reg("vDocument", func(x *Exec, a []Value) Value { return x.makeDocument(a[0]) })
	reg("vCallLog", func(x *Exec, a []Value) Value { return mkStrSlice(x.calllog) })
	// vMarshalled(i): the value handed to the i-th json.MarshalIndent call of this path (the JSON text itself is not modelled)
	reg("vMarshalled", func(x *Exec, a []Value) Value {
		i := cint(x, a[0])
		if i < 0 || i >= len(x.marshalled) {
			return nilIface
		}
		return x.marshalled[i]
	})

	registerLibModels(e)
	registerStringModels(e)
	registerRegexpModels(e)
	registerBytealg(e)
	registerSpecModel(e)
	registerCloneModels(e)
	registerStrconvModels(e)
	registerTrimModels(e)
	registerValidateModels(e)
	registerParseIntModels(e)
	registerSwagConvertBool(e)
	registerAtomicModels(e)
	registerFormatBool(e)
	registerReflectTypeOf(e)
	registerReflectliteTypeOf(e)
	registerReflectValueOf(e)
}

// ---------------------------------------------------------------------------
// library models

func (x *Exec) errorValue(msg string) Value {
	t := x.eng.findType("errors", "errorString")
	if t == nil {
		panic(unsupported("errors.errorString not in program"))
	}
	cell := &Cell{V: &StructVal{F: []Value{mkStr(msg)}}}
	return &IfaceVal{T: types.NewPointer(t), V: mkPtr(cell)}
}

func (x *Exec) opaqueError() Value {
	t := x.eng.findType("errors", "errorString")
	cell := &Cell{V: &StructVal{F: []Value{&StrVal{Opaque: true}}}}
	return &IfaceVal{T: types.NewPointer(t), V: mkPtr(cell)}
}

// sprint renders an operand for %v/%s; ok=false means "opaque"
func (x *Exec) sprintOperand(v Value, verb byte) (*StrVal, bool) {
	switch t := v.(type) {
	case *IfaceVal:
		if t.T == nil {
			if verb == 's' {
				return mkStr("%!s(<nil>)"), true
			}
			return mkStr("<nil>"), true
		}
		// Stringer / error
		if verb == 'v' || verb == 's' || verb == 'q' {
			for _, mn := range []string{"Error", "String"} {
				if m := x.eng.methodByName(t.T, mn); m != nil && m.Signature.Params().Len() == 0 &&
					m.Signature.Results().Len() == 1 && isStringType(m.Signature.Results().At(0).Type()) {
					r := x.callFunction(m, []Value{t.V}, nil)
					return r.(*StrVal), true
				}
			}
		}
		return x.sprintTyped(t.V, t.T, verb)
	}
	return nil, false
}

func isStringType(t types.Type) bool {
	b, ok := t.Underlying().(*types.Basic)
	return ok && b.Info()&types.IsString != 0
}

func (x *Exec) sprintTyped(v Value, t types.Type, verb byte) (*StrVal, bool) {
	switch u := t.Underlying().(type) {
	case *types.Basic:
		switch {
		case u.Info()&types.IsString != 0:
			s := v.(*StrVal)
			if verb == 'q' {
				if s.IsConcrete() {
					return mkStr(strconv.Quote(s.Conc())), true
				}
				return nil, false
			}
			return s, true
		case u.Info()&types.IsBoolean != 0:
			b := v.(*Term)
			if b.IsConst() {
				return mkStr(fmt.Sprint(b.Val == 1)), true
			}
			return &StrVal{Alts: []StrAlt{{G: b, S: "true"}, {G: tNot(b), S: "false"}}}, true
		case isInt(u):
			tm := v.(*Term)
			if tm.IsConst() {
				_, sg := intWidth(u)
				if sg {
					return mkStr(strconv.FormatInt(signExt(tm.Val, tm.S.W), 10)), true
				}
				return mkStr(strconv.FormatUint(tm.Val, 10)), true
			}
			return nil, false
		case u.Info()&types.IsFloat != 0:
			tm := v.(*Term)
			if tm.IsConst() {
				if verb == 'f' {
					return mkStr(fmt.Sprintf("%f", tm.fval())), true
				}
				if u.Kind() == types.Float32 {
					return mkStr(fmt.Sprint(float32(tm.fval()))), true
				}
				return mkStr(fmt.Sprint(tm.fval())), true
			}
			return nil, false
		}
	}
	return nil, false
}

func (x *Exec) sprintf(format string, args []Value) *StrVal {
	r := x.sprintf0(format, args)
	if r.Opaque {
		// literal characters of the format always appear in the output
		n := 0
		for i := 0; i < len(format); i++ {
			if format[i] == '%' {
				i++
				continue
			}
			n++
		}
		r.MinLen = n
		r.OpFmt = format
		r.OpArgs = args
	}
	return r
}

func (x *Exec) sprintf0(format string, args []Value) *StrVal {
	out := mkStr("")
	argi := 0
	i := 0
	lit := func(s string) { out = x.concat(out, mkStr(s)) }
	for i < len(format) {
		j := strings.IndexByte(format[i:], '%')
		if j < 0 {
			lit(format[i:])
			break
		}
		lit(format[i : i+j])
		i += j + 1
		if i >= len(format) {
			lit("%!(NOVERB)")
			break
		}
		// flags/width are not modelled: only plain verbs
		verb := format[i]
		i++
		if verb == '%' {
			lit("%")
			continue
		}
		if strings.IndexByte("vsdqtf", verb) < 0 {
			return &StrVal{Opaque: true}
		}
		if argi >= len(args) {
			lit("%!" + string(verb) + "(MISSING)")
			continue
		}
		s, ok := x.sprintOperand(args[argi], verb)
		argi++
		if !ok {
			// the text rendered so far is known; what follows is not
			return &StrVal{Opaque: true, OpPrefix: out}
		}
		if s.Opaque {
			return x.concat(out, s)
		}
		out = x.concat(out, s)
	}
	if argi < len(args) {
		return &StrVal{Opaque: true, OpPrefix: out}
	}
	return out
}

func registerLibModels(e *Engine) {
	in := func(name string, f func(x *Exec, fn *ssa.Function, a []Value) (Value, bool)) {
		e.intrinsics[name] = f
	}
	always := func(name string, f func(x *Exec, a []Value) Value) {
		e.intrinsics[name] = func(x *Exec, fn *ssa.Function, a []Value) (Value, bool) { return f(x, a), true }
	}
	// package initialisers of other packages are run lazily, on first access to a global
	// (handled in callFunction via isForeignInit)

	always("fmt.Sprintf", func(x *Exec, a []Value) Value {
		f := a[0].(*StrVal)
		if !f.IsConcrete() {
			return &StrVal{Opaque: true}
		}
		return x.sprintf(f.Conc(), sliceElems(a[1]))
	})
	always("fmt.Errorf", func(x *Exec, a []Value) Value {
		f := a[0].(*StrVal)
		if f.IsConcrete() {
			s := x.sprintf(f.Conc(), sliceElems(a[1]))
			if s.IsConcrete() {
				return x.errorValue(s.Conc())
			}
		}
		return x.opaqueError()
	})
	always("fmt.Sprint", func(x *Exec, a []Value) Value {
		args := sliceElems(a[0])
		out := mkStr("")
		for i, ar := range args {
			s, ok := x.sprintOperand(ar, 'v')
			if !ok {
				return &StrVal{Opaque: true}
			}
			if i > 0 {
				// Sprint adds spaces between operands when neither is a string
				_, s1 := args[i-1].(*IfaceVal)
				if s1 && !isStrIface(args[i-1]) && !isStrIface(ar) {
					out = x.concat(out, mkStr(" "))
				}
			}
			out = x.concat(out, s)
		}
		return out
	})
	always("errors.New", func(x *Exec, a []Value) Value {
		s := a[0].(*StrVal)
		if s.IsConcrete() {
			return x.errorValue(s.Conc())
		}
		return x.opaqueError()
	})
	for _, n := range []string{"log.Printf", "log.Println", "log.Print", "fmt.Println", "fmt.Printf", "fmt.Print",
		"(*log.Logger).Printf", "(*log.Logger).Println"} {
		nn := n
		always(nn, func(x *Exec, a []Value) Value {
			if strings.HasPrefix(nn, "fmt.") {
				return TupleVal{mkBV(64, 0), nilIface}
			}
			return nil
		})
	}
	// fmt.Fprint* into a *bytes.Buffer / *strings.Builder is modelled (the text may be the subject);
	// any other writer swallows the output
	fprint := func(kind string) func(x *Exec, a []Value) Value {
		return func(x *Exec, a []Value) Value {
			w := a[0].(*IfaceVal)
			var text *StrVal
			switch kind {
			case "f":
				f := a[1].(*StrVal)
				if f.IsConcrete() {
					text = x.sprintf(f.Conc(), sliceElems(a[2]))
				} else {
					text = &StrVal{Opaque: true}
				}
			default:
				args := sliceElems(a[1])
				text = mkStr("")
				for i, ar := range args {
					s, ok := x.sprintOperand(ar, 'v')
					if !ok {
						text = &StrVal{Opaque: true}
						break
					}
					if i > 0 && (kind == "ln" || (!isStrIface(args[i-1]) && !isStrIface(ar))) {
						text = x.concat(text, mkStr(" "))
					}
					text = x.concat(text, s)
				}
				if kind == "ln" && !text.Opaque {
					text = x.concat(text, mkStr("\n"))
				}
			}
			if w.T != nil {
				ts := w.T.String()
				if ts == "*bytes.Buffer" || ts == "*strings.Builder" {
					if m := x.eng.methodByName(w.T, "WriteString"); m != nil {
						x.callFunction(m, []Value{w.V, text}, nil)
					}
				}
			}
			return TupleVal{mkBV(64, 0), nilIface}
		}
	}
	always("fmt.Fprintln", fprint("ln"))
	always("fmt.Fprintf", fprint("f"))
	always("fmt.Fprint", fprint(""))
	always("encoding/json.Unmarshal", func(x *Exec, a []Value) Value {
		data := a[0].(*SliceVal)
		buf := make([]byte, data.Len)
		for i := range buf {
			t := data.At(i).(*Term)
			if !t.IsConst() {
				panic(unsupported("json.Unmarshal of symbolic bytes"))
			}
			buf[i] = byte(t.Val)
		}
		target := a[1].(*IfaceVal)
		pt, ok := target.T.(*types.Pointer)
		if !ok {
			panic(unsupported("json.Unmarshal into " + target.T.String()))
		}
		// []json.RawMessage: the raw text of each element
		if sl, isSl := pt.Elem().Underlying().(*types.Slice); isSl && sl.Elem().String() == "encoding/json.RawMessage" {
			var raws []json.RawMessage
			if err := json.Unmarshal(buf, &raws); err != nil {
				return x.errorValue(err.Error())
			}
			vs := make([]Value, len(raws))
			for i, r := range raws {
				bs := make([]Value, len(r))
				for j, c := range r {
					bs[j] = mkBV(8, uint64(c))
				}
				vs[i] = mkSlice(bs)
			}
			x.deref(target.V.(*PtrVal)).Store(mkSlice(vs))
			return nilIface
		}
		var raw interface{}
		dec := json.NewDecoder(bytes.NewReader(buf))
		dec.UseNumber()
		if err := dec.Decode(&raw); err != nil {
			return x.errorValue(err.Error())
		}
		v, okv := jsonToValue(raw, pt.Elem())
		if !okv {
			panic(unsupported("json.Unmarshal into " + target.T.String()))
		}
		x.deref(target.V.(*PtrVal)).Store(v)
		return nilIface
	})
	always("log.Fatalf", func(x *Exec, a []Value) Value { panic(&pathEnd{"log.Fatalf"}) })
	always("log.Fatalln", func(x *Exec, a []Value) Value { panic(&pathEnd{"log.Fatalln"}) })
	always("log.Fatal", func(x *Exec, a []Value) Value { panic(&pathEnd{"log.Fatal"}) })

	always("github.com/Masterminds/sprig/v3.TxtFuncMap", func(x *Exec, a []Value) Value {
		return &MapVal{M: &MapObj{KeyT: types.Typ[types.String]}}
	})
	always("github.com/kr/pretty.Sprint", func(x *Exec, a []Value) Value { return mkStr("") })
	// pretty-printed JSON text is never inspected by the planners: arbitrary (here empty) bytes
	always("encoding/json.MarshalIndent", func(x *Exec, a []Value) Value {
		x.marshalled = append(x.marshalled, a[0]) // the harness may ask what was handed over (vMarshalled)
		return TupleVal{&SliceVal{A: &ArrayObj{}, Len: 0, Cap: 0}, nilIface}
	})
	// json.Marshal of a concrete scalar (strings, numbers, booleans): the real function is called
	always("encoding/json.Marshal", func(x *Exec, a []Value) Value {
		iv := a[0].(*IfaceVal)
		var nat interface{}
		if iv.T != nil {
			var ok bool
			nat, ok = concreteToNative(iv.V, iv.T)
			if !ok {
				panic(unsupported("json.Marshal of " + iv.T.String() + " (symbolic or unsupported kind)"))
			}
		}
		b, err := json.Marshal(nat)
		if err != nil {
			return TupleVal{&SliceVal{Nil: true}, x.errorValue(err.Error())}
		}
		vs := make([]Value, len(b))
		for i, c := range b {
			vs[i] = mkBV(8, uint64(c))
		}
		return TupleVal{mkSlice(vs), nilIface}
	})
	always("encoding/gob.Register", func(x *Exec, a []Value) Value { return nil })
	always("github.com/go-openapi/swag.IsZero", func(x *Exec, a []Value) Value {
		iv := a[0].(*IfaceVal)
		if iv.T == nil {
			return TTrue
		}
		switch t := iv.V.(type) {
		case *Term:
			if t.S.K == KFP {
				return tFCmp(OpFEq, t, zeroOfSort(t.S))
			}
			return tEq(t, zeroOfSort(t.S))
		case *StrVal:
			return strEq(t, mkStr(""))
		case *PtrVal:
			return t.Nil
		case *StructVal:
			return x.valueIsZero(t, iv.T)
		case *SliceVal:
			return mkBool(t.Nil) // swag.IsZero: nil slices and maps only; empty ones are values
		case *MapVal:
			return mkBool(t.M == nil)
		}
		panic(unsupported("swag.IsZero on " + iv.T.String()))
	})
	always("os.Getenv", func(x *Exec, a []Value) Value { return mkStr("") })
	always("os.Getwd", func(x *Exec, a []Value) Value { return TupleVal{mkStr("/work"), nilIface} })
	always("log.New", func(x *Exec, a []Value) Value { return nilPtr })
	always("reflect.DeepEqual", func(x *Exec, a []Value) Value { return x.deepEqual(a[0], a[1]) })

	// sync primitives: sequential engine
	for _, n := range []string{"(*sync.Mutex).Lock", "(*sync.Mutex).Unlock", "(*sync.RWMutex).Lock", "(*sync.RWMutex).Unlock",
		"(*sync.RWMutex).RLock", "(*sync.RWMutex).RUnlock"} {
		always(n, func(x *Exec, a []Value) Value { return nil })
	}
	// sync.Map: the table lives in the struct's own 'dirty' field (as an immutable engine value that
	// is replaced on every update), so that init-time contents are shared and every path sees its
	// own later updates. Keys must be concrete strings or integers (what caches of names use).
	const smapField = 2 // struct { mu; read; dirty; misses }
	smapGet := func(x *Exec, recv Value) (Ref, *syncMapModel) {
		r := x.deref(recv.(*PtrVal))
		sv, ok := r.Load().(*StructVal)
		if !ok || len(sv.F) != 4 {
			panic(unsupported("sync.Map layout"))
		}
		if m, ok := x.syncMaps[r]; ok {
			return r, m // this path's own version of a table made at init time
		}
		if nv, ok := sv.F[smapField].(*NativeVal); ok {
			return r, nv.V.(*syncMapModel)
		}
		return r, &syncMapModel{vals: map[string]Value{}}
	}
	smapPut := func(x *Exec, r Ref, m *syncMapModel) {
		defer func() {
			if rec := recover(); rec != nil {
				// the struct was made while a package was initialised and is shared by all paths:
				// the update belongs to this path only
				if x.syncMaps == nil {
					x.syncMaps = map[Ref]*syncMapModel{}
				}
				x.syncMaps[r] = m
			}
		}()
		fieldRef{Base: r, Idx: smapField}.Store(&NativeVal{V: m})
	}
	smapCopy := func(m *syncMapModel) *syncMapModel {
		n := &syncMapModel{keys: append([]Value{}, m.keys...), vals: map[string]Value{}}
		for k, v := range m.vals {
			n.vals[k] = v
		}
		return n
	}
	skey := func(x *Exec, k Value) string {
		iv, ok := k.(*IfaceVal)
		if ok && iv.T != nil {
			if sv, ok := iv.V.(*StrVal); ok && sv.IsConcrete() {
				return "s:" + sv.Conc()
			}
			if t, ok := iv.V.(*Term); ok && t.IsConst() {
				return fmt.Sprintf("i:%s:%d", iv.T.String(), t.Val)
			}
		}
		panic(unsupported("sync.Map with a key that is not a concrete string or integer"))
	}
	always("(*sync.Map).Load", func(x *Exec, a []Value) Value {
		_, m := smapGet(x, a[0])
		if v, ok := m.vals[skey(x, a[1])]; ok {
			return TupleVal{v, mkBool(true)}
		}
		return TupleVal{nilIface, mkBool(false)}
	})
	always("(*sync.Map).Store", func(x *Exec, a []Value) Value {
		r, m := smapGet(x, a[0])
		m = smapCopy(m)
		k := skey(x, a[1])
		if _, ok := m.vals[k]; !ok {
			m.keys = append(m.keys, a[1])
		}
		m.vals[k] = a[2]
		smapPut(x, r, m)
		return nil
	})
	always("(*sync.Map).LoadOrStore", func(x *Exec, a []Value) Value {
		r, m := smapGet(x, a[0])
		k := skey(x, a[1])
		if v, ok := m.vals[k]; ok {
			return TupleVal{v, mkBool(true)}
		}
		m = smapCopy(m)
		m.keys = append(m.keys, a[1])
		m.vals[k] = a[2]
		smapPut(x, r, m)
		return TupleVal{a[2], mkBool(false)}
	})
	always("(*sync.Map).Delete", func(x *Exec, a []Value) Value {
		r, m := smapGet(x, a[0])
		k := skey(x, a[1])
		if _, ok := m.vals[k]; !ok {
			return nil
		}
		m = smapCopy(m)
		delete(m.vals, k)
		var keys []Value
		for _, kv := range m.keys {
			if skey(x, kv) != k {
				keys = append(keys, kv)
			}
		}
		m.keys = keys
		smapPut(x, r, m)
		return nil
	})
	always("(*sync.Map).Range", func(x *Exec, a []Value) Value {
		_, m := smapGet(x, a[0])
		for _, kv := range m.keys {
			v, ok := m.vals[skey(x, kv)]
			if !ok {
				continue
			}
			res := x.invoke(a[1], []Value{kv, v}, nil)
			if t, ok := res.(*Term); ok && t.IsConst() && t.Val == 0 {
				break
			}
		}
		return nil
	})
	// swag reads a string's bytes through unsafe (hackStringBytes): an ordinary conversion here
	always("github.com/go-openapi/swag.hackStringBytes", func(x *Exec, a []Value) Value {
		return sliceOfBytes(x.pickAlt(a[0].(*StrVal)).Bytes())
	})
	// sync.Pool: nothing is ever pooled - Get asks New (the last field), Put drops the value
	always("(*sync.Pool).Get", func(x *Exec, a []Value) Value {
		sv := x.deref(a[0].(*PtrVal)).Load().(*StructVal)
		if f, ok := sv.F[len(sv.F)-1].(*FuncVal); ok && f != nil && (f.Fn != nil || f.Builtin != nil || f.Native != "") {
			return x.invoke(f, nil, nil)
		}
		return nilIface
	})
	always("(*sync.Pool).Put", func(x *Exec, a []Value) Value { return nil })
	always("(*sync.Once).Do", func(x *Exec, a []Value) Value {
		// the Once cell: field 0 'done' (atomic.Uint32 struct) - model with our own flag on the cell
		p := a[0].(*PtrVal)
		r := x.deref(p)
		sv := r.Load().(*StructVal)
		if mk, ok := sv.F[0].(*StructVal); ok && len(mk.F) > 0 {
			// atomic.Uint32{_ noCopy; v uint32}
			last := len(mk.F) - 1
			if t, ok := mk.F[last].(*Term); ok && t.IsConst() && t.Val == 1 {
				return nil
			}
			nf := &StructVal{F: append([]Value{}, mk.F...)}
			nf.F[last] = mkBV(32, 1)
			fieldRef{Base: r, Idx: 0}.Store(nf)
		} else {
			panic(unsupported("sync.Once layout"))
		}
		x.invoke(a[1], nil, nil)
		return nil
	})

	always("sort.Strings", func(x *Exec, a []Value) Value {
		s := a[0].(*SliceVal)
		x.insertionSort(s.Len, func(i, j int) *Term {
			return altLess(x.pickAlt(s.At(i).(*StrVal)), x.pickAlt(s.At(j).(*StrVal)))
		}, func(i, j int) {
			vi, vj := s.At(i), s.At(j)
			s.A.E[s.Off+i], s.A.E[s.Off+j] = vj, vi
		})
		return nil
	})
	always("sort.Slice", func(x *Exec, a []Value) Value {
		iv := a[0].(*IfaceVal)
		s := iv.V.(*SliceVal)
		less := a[1]
		x.insertionSort(s.Len, func(i, j int) *Term {
			return x.invoke(less, []Value{mkBV(64, uint64(i)), mkBV(64, uint64(j))}, nil).(*Term)
		}, func(i, j int) {
			vi, vj := s.At(i), s.At(j)
			s.A.E[s.Off+i], s.A.E[s.Off+j] = vj, vi
		})
		return nil
	})
	always("sort.SliceStable", e.intrinsicsAlias("sort.Slice"))
	always("sort.Sort", func(x *Exec, a []Value) Value {
		iv := a[0].(*IfaceVal)
		lenF := x.eng.methodByName(iv.T, "Len")
		lessF := x.eng.methodByName(iv.T, "Less")
		swapF := x.eng.methodByName(iv.T, "Swap")
		n := cint(x, x.callFunction(lenF, []Value{iv.V}, nil))
		x.insertionSort(n, func(i, j int) *Term {
			return x.callFunction(lessF, []Value{iv.V, mkBV(64, uint64(i)), mkBV(64, uint64(j))}, nil).(*Term)
		}, func(i, j int) {
			x.callFunction(swapF, []Value{iv.V, mkBV(64, uint64(i)), mkBV(64, uint64(j))}, nil)
		})
		return nil
	})
	always("sort.Stable", e.intrinsicsAlias("sort.Sort"))

	// strings.Builder / bytes.Buffer are interpreted from source except for their unsafe parts
	always("(*strings.Builder).String", func(x *Exec, a []Value) Value {
		r := x.deref(a[0].(*PtrVal))
		buf := r.Load().(*StructVal).F[1].(*SliceVal)
		bs := make([]*Term, buf.Len)
		for i := range bs {
			bs[i] = buf.At(i).(*Term)
		}
		return mkStrBytes(bs)
	})
	always("(*strings.Builder).copyCheck", func(x *Exec, a []Value) Value { return nil })
	always("internal/bytealg.MakeNoZero", func(x *Exec, a []Value) Value {
		n := cint(x, a[0])
		arr := &ArrayObj{E: make([]Value, n)}
		for i := range arr.E {
			arr.E[i] = mkBV(8, 0)
		}
		return &SliceVal{A: arr, Len: n, Cap: n}
	})
	in("strings.Join", func(x *Exec, fn *ssa.Function, a []Value) (Value, bool) {
		elems := sliceElems(a[0])
		sep := a[1].(*StrVal)
		out := mkStr("")
		for i, el := range elems {
			if i > 0 {
				out = x.concat(out, sep)
			}
			out = x.concat(out, el.(*StrVal))
		}
		return out, true
	})
	always("unicode/utf8.RuneCountInString", func(x *Exec, a []Value) Value {
		alt := x.pickAlt(a[0].(*StrVal))
		n := 0
		for p := 0; p < alt.Len(); n++ {
			_, sz := x.decodeRune(alt, p)
			p += sz
		}
		return mkBV(64, uint64(n))
	})
}

func registerRegexpModels(e *Engine) {
	compile := func(x *Exec, fn *ssa.Function, a []Value) (Value, bool) {
		s := a[0].(*StrVal)
		if !s.IsConcrete() {
			panic(unsupported("regexp compile of symbolic pattern"))
		}
		re, err := regexp.Compile(s.Conc())
		if err != nil {
			if strings.HasSuffix(fn.String(), "MustCompile") {
				x.goPanicf("regexp: Compile(%q): %v", s.Conc(), err)
			}
			return TupleVal{nilPtr, x.errorValue(err.Error())}, true
		}
		p := mkPtr(&Cell{V: &NativeVal{V: re}})
		if strings.HasSuffix(fn.String(), "MustCompile") {
			return p, true
		}
		return TupleVal{p, nilIface}, true
	}
	e.intrinsics["regexp.MustCompile"] = compile
	e.intrinsics["regexp.Compile"] = compile
	reOf := func(x *Exec, v Value) *regexp.Regexp {
		nv, ok := x.deref(v.(*PtrVal)).Load().(*NativeVal)
		if !ok {
			panic(unsupported("regexp receiver is not a native handle"))
		}
		return nv.V.(*regexp.Regexp)
	}
	cs := func(v Value) (string, bool) {
		s := v.(*StrVal)
		if s.IsConcrete() {
			return s.Conc(), true
		}
		return "", false
	}
	e.intrinsics["(*regexp.Regexp).MatchString"] = func(x *Exec, fn *ssa.Function, a []Value) (Value, bool) {
		re := reOf(x, a[0])
		if s, ok := cs(a[1]); ok {
			return mkBool(re.MatchString(s)), true
		}
		return x.regexMatchSym(re, a[1].(*StrVal)), true
	}
	e.intrinsics["(*regexp.Regexp).FindStringSubmatch"] = func(x *Exec, fn *ssa.Function, a []Value) (Value, bool) {
		re := reOf(x, a[0])
		s, ok := cs(a[1])
		if !ok {
			return x.reFindStringSubmatch(re, a[1].(*StrVal)), true
		}
		m := re.FindStringSubmatch(s)
		if m == nil {
			return &SliceVal{Nil: true}, true
		}
		return mkStrSlice(m), true
	}
	e.intrinsics["(*regexp.Regexp).FindStringIndex"] = func(x *Exec, fn *ssa.Function, a []Value) (Value, bool) {
		re := reOf(x, a[0])
		s, ok := cs(a[1])
		if !ok {
			caps := x.reFind(re, x.pickAlt(a[1].(*StrVal)), 0)
			if caps == nil {
				return &SliceVal{Nil: true}, true
			}
			return mkSlice([]Value{mkBV(64, uint64(caps[0])), mkBV(64, uint64(caps[1]))}), true
		}
		m := re.FindStringIndex(s)
		if m == nil {
			return &SliceVal{Nil: true}, true
		}
		return mkSlice([]Value{mkBV(64, uint64(m[0])), mkBV(64, uint64(m[1]))}), true
	}
	e.intrinsics["(*regexp.Regexp).ReplaceAllString"] = func(x *Exec, fn *ssa.Function, a []Value) (Value, bool) {
		re := reOf(x, a[0])
		s, ok1 := cs(a[1])
		r, ok2 := cs(a[2])
		if !ok2 {
			panic(unsupported("ReplaceAllString with symbolic replacement"))
		}
		if !ok1 {
			return x.reReplaceAll(re, a[1].(*StrVal), r), true
		}
		return mkStr(re.ReplaceAllString(s, r)), true
	}
	e.intrinsics["(*regexp.Regexp).String"] = func(x *Exec, fn *ssa.Function, a []Value) (Value, bool) {
		return mkStr(reOf(x, a[0]).String()), true
	}
	e.intrinsics["(*regexp.Regexp).Split"] = func(x *Exec, fn *ssa.Function, a []Value) (Value, bool) {
		re := reOf(x, a[0])
		s, ok := cs(a[1])
		if !ok {
			panic(unsupported("Regexp.Split on symbolic string"))
		}
		r := re.Split(s, cint(x, a[2]))
		if r == nil {
			return &SliceVal{Nil: true}, true
		}
		return mkStrSlice(r), true
	}
	e.intrinsics["(*regexp.Regexp).FindString"] = func(x *Exec, fn *ssa.Function, a []Value) (Value, bool) {
		re := reOf(x, a[0])
		s, ok := cs(a[1])
		if !ok {
			panic(unsupported("Regexp.FindString on symbolic string"))
		}
		return mkStr(re.FindString(s)), true
	}
	e.intrinsics["(*regexp.Regexp).FindAllStringSubmatch"] = func(x *Exec, fn *ssa.Function, a []Value) (Value, bool) {
		re := reOf(x, a[0])
		s, ok := cs(a[1])
		if !ok {
			panic(unsupported("Regexp.FindAllStringSubmatch on symbolic string"))
		}
		r := re.FindAllStringSubmatch(s, cint(x, a[2]))
		if r == nil {
			return &SliceVal{Nil: true}, true
		}
		vs := make([]Value, len(r))
		for i, m := range r {
			vs[i] = mkStrSlice(m)
		}
		return mkSlice(vs), true
	}
	e.intrinsics["(*regexp.Regexp).FindAllString"] = func(x *Exec, fn *ssa.Function, a []Value) (Value, bool) {
		re := reOf(x, a[0])
		s, ok := cs(a[1])
		if !ok {
			panic(unsupported("FindAllString on symbolic string"))
		}
		return mkStrSlice(re.FindAllString(s, cint(x, a[2]))), true
	}
}

func (e *Engine) intrinsicsAlias(name string) func(x *Exec, a []Value) Value {
	return func(x *Exec, a []Value) Value {
		r, _ := e.intrinsics[name](x, nil, a)
		return r
	}
}

func isStrIface(v Value) bool {
	iv, ok := v.(*IfaceVal)
	if !ok || iv.T == nil {
		return false
	}
	return isStringType(iv.T)
}

// insertion sort driven by a symbolic less (forks on comparisons)
func (x *Exec) insertionSort(n int, less func(i, j int) *Term, swap func(i, j int)) {
	for i := 1; i < n; i++ {
		for j := i; j > 0; j-- {
			if !x.decide(less(j, j-1)) {
				break
			}
			swap(j, j-1)
		}
	}
}

func (x *Exec) deepEqual(a, b Value) *Term {
	switch av := a.(type) {
	case *IfaceVal:
		bv, ok := b.(*IfaceVal)
		if !ok {
			return TFalse
		}
		if av.T == nil || bv.T == nil {
			return mkBool(av.T == nil && bv.T == nil)
		}
		if !types.Identical(av.T, bv.T) {
			return TFalse
		}
		return x.deepEqual(av.V, bv.V)
	case *Term:
		bv, ok := b.(*Term)
		if !ok || bv.S != av.S {
			return TFalse
		}
		return tEq(av, bv)
	case *StrVal:
		bv, ok := b.(*StrVal)
		if !ok {
			return TFalse
		}
		if av.Opaque || bv.Opaque {
			return x.opaqueEq(av, bv)
		}
		return strEq(av, bv)
	case *SliceVal:
		bv, ok := b.(*SliceVal)
		if !ok || av.Len != bv.Len || av.Nil != bv.Nil {
			return TFalse
		}
		r := TTrue
		for i := 0; i < av.Len; i++ {
			r = tAnd(r, x.deepEqual(av.At(i), bv.At(i)))
		}
		return r
	case *StructVal:
		bv, ok := b.(*StructVal)
		if !ok || len(av.F) != len(bv.F) {
			return TFalse
		}
		r := TTrue
		for i := range av.F {
			r = tAnd(r, x.deepEqual(av.F[i], bv.F[i]))
		}
		return r
	case *PtrVal:
		bv, ok := b.(*PtrVal)
		if !ok {
			return TFalse
		}
		if av.R == nil || bv.R == nil {
			return x.equalValues(av, bv, nil)
		}
		if !av.Nil.IsFalse() || !bv.Nil.IsFalse() {
			panic(unsupported("DeepEqual on symbolic-nil pointers"))
		}
		return x.deepEqual(av.R.Load(), bv.R.Load())
	case *MapVal:
		bv, ok := b.(*MapVal)
		if !ok {
			return TFalse
		}
		if av.M == nil || bv.M == nil {
			return mkBool(av.M == nil && bv.M == nil)
		}
		if len(av.M.E) != len(bv.M.E) {
			return TFalse
		}
		r := TTrue
		for _, en := range av.M.E {
			j := x.mapFind(bv.M, en.K)
			if j < 0 {
				return TFalse
			}
			r = tAnd(r, x.deepEqual(en.V, bv.M.E[j].V))
		}
		return r
	}
	panic(unsupported(fmt.Sprintf("DeepEqual on %T", a)))
}

var _ = math.Abs
var _ = sort.Strings

// concreteToNative: a concrete scalar, or slice of them, as a native Go value for encoding/json
func concreteToNative(v Value, t types.Type) (interface{}, bool) {
	switch tv := v.(type) {
	case *StrVal:
		if !tv.IsConcrete() {
			return nil, false
		}
		return tv.Conc(), true
	case *Term:
		if !tv.IsConst() {
			return nil, false
		}
		switch tv.S.K {
		case KBool:
			return tv.Val == 1, true
		case KBV:
			if isSigned(t) {
				return signExt(tv.Val, tv.S.W), true
			}
			return tv.Val, true
		default:
			return tv.fval(), true
		}
	case *SliceVal:
		st, ok := t.Underlying().(*types.Slice)
		if !ok {
			return nil, false
		}
		if tv.Nil {
			return nil, true
		}
		out := make([]interface{}, tv.Len)
		for i := 0; i < tv.Len; i++ {
			e, ok := concreteToNative(tv.At(i), st.Elem())
			if !ok {
				return nil, false
			}
			out[i] = e
		}
		return out, true
	case *IfaceVal:
		if tv.T == nil {
			return nil, true
		}
		return concreteToNative(tv.V, tv.T)
	}
	return nil, false
}

// jsonToValue: a decoded concrete JSON value as a value of Go type t (scalars and slices of them)
func jsonToValue(raw interface{}, t types.Type) (Value, bool) {
	switch u := t.Underlying().(type) {
	case *types.Basic:
		switch {
		case u.Info()&types.IsString != 0:
			s, ok := raw.(string)
			if !ok {
				return nil, false
			}
			return mkStr(s), true
		case u.Info()&types.IsBoolean != 0:
			b, ok := raw.(bool)
			if !ok {
				return nil, false
			}
			return mkBool(b), true
		case u.Info()&types.IsInteger != 0:
			n, ok := raw.(json.Number)
			if !ok {
				return nil, false
			}
			w, _ := intWidth(u)
			if i, err := strconv.ParseInt(string(n), 10, 64); err == nil {
				return mkBV(w, uint64(i)), true
			}
			if ui, err := strconv.ParseUint(string(n), 10, 64); err == nil {
				return mkBV(w, ui), true
			}
			return nil, false
		case u.Info()&types.IsFloat != 0:
			n, ok := raw.(json.Number)
			if !ok {
				return nil, false
			}
			f, err := n.Float64()
			if err != nil {
				return nil, false
			}
			if u.Kind() == types.Float32 {
				return mkFP(SF32, float64(float32(f))), true
			}
			return mkFP(SF64, f), true
		}
	case *types.Slice:
		l, ok := raw.([]interface{})
		if !ok {
			return nil, false
		}
		vs := make([]Value, len(l))
		for i, e := range l {
			v, ok := jsonToValue(e, u.Elem())
			if !ok {
				return nil, false
			}
			vs[i] = v
		}
		return mkSlice(vs), true
	}
	return nil, false
}

// makeDocument builds a loads.Document around a *spec.Swagger (Analyzer = analysis.New(spec))
func (x *Exec) makeDocument(sw Value) Value {
	dt := x.eng.findType("github.com/go-openapi/loads", "Document")
	if dt == nil {
		panic(unsupported("loads.Document not in program"))
	}
	st := dt.Underlying().(*types.Struct)
	sv := zeroValue(dt).(*StructVal)
	nf := &StructVal{F: append([]Value{}, sv.F...)}
	newFn := x.eng.findFunc("github.com/go-openapi/analysis", "New")
	for i := 0; i < st.NumFields(); i++ {
		switch st.Field(i).Name() {
		case "spec":
			nf.F[i] = sw
		case "origSpec":
			nf.F[i] = deepCopy(sw, map[*Cell]*Cell{})
		case "Analyzer":
			nf.F[i] = x.callFunction(newFn, []Value{sw}, nil)
		}
	}
	return mkPtr(&Cell{V: nf})
}
