package main

// Model of go-openapi/spec's $ref resolution/expansion for fragment-only local references
// ("#/definitions/<name>") against a *spec.Swagger root. The real implementation walks the
// document by JSON pointer through reflection, which the interpreter cannot follow.

import (
	"go/types"
	"strings"

	"golang.org/x/tools/go/ssa"
)

func structFieldIdx(t types.Type, name string) int {
	st := t.Underlying().(*types.Struct)
	for i := 0; i < st.NumFields(); i++ {
		if st.Field(i).Name() == name {
			return i
		}
	}
	panic(unsupported("no field " + name + " in " + t.String()))
}

func getField(sv *StructVal, t types.Type, path ...string) (Value, types.Type) {
	var cur Value = sv
	for _, p := range path {
		i := structFieldIdx(t, p)
		cur = cur.(*StructVal).F[i]
		t = t.Underlying().(*types.Struct).Field(i).Type()
	}
	return cur, t
}

func setField(sv *StructVal, t types.Type, v Value, path ...string) *StructVal {
	i := structFieldIdx(t, path[0])
	n := &StructVal{F: append([]Value{}, sv.F...)}
	if len(path) == 1 {
		n.F[i] = v
	} else {
		n.F[i] = setField(sv.F[i].(*StructVal), t.Underlying().(*types.Struct).Field(i).Type(), v, path[1:]...)
	}
	return n
}

type specModel struct {
	x       *Exec
	schemaT types.Type
	refT    types.Type
	defs    *MapVal
}

func (x *Exec) newSpecModel(root Value) *specModel {
	m := &specModel{x: x}
	m.schemaT = x.eng.findType("github.com/go-openapi/spec", "Schema")
	m.refT = x.eng.findType("github.com/go-openapi/spec", "Ref")
	iv, ok := root.(*IfaceVal)
	if ok {
		root = iv.V
	}
	swp, ok := root.(*PtrVal)
	if !ok || swp.R == nil {
		panic(unsupported("spec model: root is not *spec.Swagger"))
	}
	sw, ok := x.deref(swp).Load().(*StructVal)
	swT := x.eng.findType("github.com/go-openapi/spec", "Swagger")
	if !ok || len(sw.F) != swT.Underlying().(*types.Struct).NumFields() {
		panic(unsupported("spec model: root is not *spec.Swagger"))
	}
	d, _ := getField(sw, swT, "SwaggerProps", "Definitions")
	m.defs = d.(*MapVal)
	return m
}

func (m *specModel) refString(ref Value) string {
	strFn := m.x.eng.methodByName(types.NewPointer(m.refT), "String")
	s := m.x.callFunction(strFn, []Value{mkPtr(&Cell{V: ref})}, nil).(*StrVal)
	if !s.IsConcrete() {
		panic(unsupported("symbolic $ref"))
	}
	return s.Conc()
}

func (m *specModel) lookup(ref string) (*StructVal, bool) {
	const pre = "#/definitions/"
	if !strings.HasPrefix(ref, pre) || strings.Contains(ref[len(pre):], "/") {
		panic(unsupported("spec model: only #/definitions/<name> references are modelled, got " + ref))
	}
	name := ref[len(pre):]
	if m.defs != nil && m.defs.M != nil {
		for _, e := range m.defs.M.E {
			if ks, ok := e.K.(*StrVal); ok && ks.IsConcrete() && ks.Conc() == name {
				return e.V.(*StructVal), true
			}
		}
	}
	return nil, false
}

// expand returns the schema with local references replaced by their targets (bounded depth;
// references beyond the bound - i.e. cycles - are left in place, as the real expander does)
func (m *specModel) expand(s *StructVal, fuel int) (*StructVal, bool) {
	refV, _ := getField(s, m.schemaT, "SchemaProps", "Ref")
	if rs := m.refString(refV); rs != "" {
		if fuel == 0 {
			return s, true
		}
		t, ok := m.lookup(rs)
		if !ok {
			return nil, false
		}
		return m.expand(t, fuel-1)
	}
	ok := true
	// items
	if it, _ := getField(s, m.schemaT, "SchemaProps", "Items"); it != nil {
		if p := it.(*PtrVal); p.R != nil {
			soa := p.R.Load().(*StructVal)
			soaT := m.x.eng.findType("github.com/go-openapi/spec", "SchemaOrArray")
			if sp, _ := getField(soa, soaT, "Schema"); sp.(*PtrVal).R != nil {
				es, k := m.expand(sp.(*PtrVal).R.Load().(*StructVal), fuel)
				ok = ok && k
				if k {
					nsoa := setField(soa, soaT, mkPtr(&Cell{V: es}), "Schema")
					s = setField(s, m.schemaT, mkPtr(&Cell{V: nsoa}), "SchemaProps", "Items")
				}
			}
		}
	}
	// properties
	if pr, _ := getField(s, m.schemaT, "SchemaProps", "Properties"); pr.(*MapVal).M != nil {
		old := pr.(*MapVal).M
		nm := &MapObj{KeyT: old.KeyT}
		for _, e := range old.E {
			es, k := m.expand(e.V.(*StructVal), fuel)
			ok = ok && k
			if !k {
				es = e.V.(*StructVal)
			}
			nm.E = append(nm.E, MapEntry{K: e.K, V: es})
		}
		s = setField(s, m.schemaT, &MapVal{M: nm}, "SchemaProps", "Properties")
	}
	// allOf
	if ao, _ := getField(s, m.schemaT, "SchemaProps", "AllOf"); ao.(*SliceVal).Len > 0 {
		sl := ao.(*SliceVal)
		vs := make([]Value, sl.Len)
		for i := range vs {
			es, k := m.expand(sl.At(i).(*StructVal), fuel)
			ok = ok && k
			if !k {
				es = sl.At(i).(*StructVal)
			}
			vs[i] = es
		}
		s = setField(s, m.schemaT, mkSlice(vs), "SchemaProps", "AllOf")
	}
	// additionalProperties
	if ap, _ := getField(s, m.schemaT, "SchemaProps", "AdditionalProperties"); ap.(*PtrVal).R != nil {
		sob := ap.(*PtrVal).R.Load().(*StructVal)
		sobT := m.x.eng.findType("github.com/go-openapi/spec", "SchemaOrBool")
		if sp, _ := getField(sob, sobT, "Schema"); sp.(*PtrVal).R != nil {
			es, k := m.expand(sp.(*PtrVal).R.Load().(*StructVal), fuel)
			ok = ok && k
			if k {
				nsob := setField(sob, sobT, mkPtr(&Cell{V: es}), "Schema")
				s = setField(s, m.schemaT, mkPtr(&Cell{V: nsob}), "SchemaProps", "AdditionalProperties")
			}
		}
	}
	return s, ok
}

func registerSpecModel(e *Engine) {
	// ExpandSchema(schema *Schema, root interface{}, cache ResolutionCache) error  (in place)
	e.intrinsics["github.com/go-openapi/spec.ExpandSchema"] = func(x *Exec, fn *ssa.Function, a []Value) (Value, bool) {
		m := x.newSpecModel(a[1])
		ref := x.deref(a[0].(*PtrVal))
		es, ok := m.expand(ref.Load().(*StructVal), 3)
		if !ok {
			return x.errorValue("unresolved reference"), true
		}
		ref.Store(es)
		return nilIface, true
	}
	e.intrinsics["github.com/go-openapi/spec.ResolveRef"] = func(x *Exec, fn *ssa.Function, a []Value) (Value, bool) {
		m := x.newSpecModel(a[0])
		refp := a[1].(*PtrVal)
		rs := m.refString(x.deref(refp).Load())
		t, ok := m.lookup(rs)
		if !ok {
			return TupleVal{nilPtr, x.errorValue("object has no key " + rs)}, true
		}
		// one step only: a definition that is itself a $ref is returned as such (validated against the
		// real resolver by the native re-execution of sampled paths)
		return TupleVal{mkPtr(&Cell{V: t}), nilIface}, true
	}
}

// deepCopy clones a value including everything reachable through pointers, slices and maps
func deepCopy(v Value, seen map[*Cell]*Cell) Value {
	switch t := v.(type) {
	case *StructVal:
		n := &StructVal{F: make([]Value, len(t.F))}
		for i, f := range t.F {
			n.F[i] = deepCopy(f, seen)
		}
		return n
	case *ArrayVal:
		n := &ArrayVal{E: make([]Value, len(t.E))}
		for i, f := range t.E {
			n.E[i] = deepCopy(f, seen)
		}
		return n
	case *PtrVal:
		if t.R == nil {
			return t
		}
		if c, ok := t.R.(*Cell); ok {
			if nc, done := seen[c]; done {
				return &PtrVal{Nil: t.Nil, R: nc}
			}
			nc := &Cell{}
			seen[c] = nc
			nc.V = deepCopy(c.V, seen)
			return &PtrVal{Nil: t.Nil, R: nc}
		}
		return &PtrVal{Nil: t.Nil, R: &Cell{V: deepCopy(t.R.Load(), seen)}}
	case *SliceVal:
		if t.A == nil {
			return t
		}
		vs := make([]Value, t.Len)
		for i := range vs {
			vs[i] = deepCopy(t.At(i), seen)
		}
		return &SliceVal{A: &ArrayObj{E: vs}, Len: t.Len, Cap: t.Len}
	case *MapVal:
		if t.M == nil {
			return t
		}
		nm := &MapObj{KeyT: t.M.KeyT}
		for _, e := range t.M.E {
			nm.E = append(nm.E, MapEntry{K: e.K, V: deepCopy(e.V, seen)})
		}
		return &MapVal{M: nm}
	case *IfaceVal:
		if t.T == nil {
			return t
		}
		return &IfaceVal{T: t.T, V: deepCopy(t.V, seen)}
	}
	return v
}

func registerCloneModels(e *Engine) {
	// Pristine(): a fresh document from a JSON round trip of the current spec
	e.intrinsics["(*github.com/go-openapi/loads.Document).Pristine"] = func(x *Exec, fn *ssa.Function, a []Value) (Value, bool) {
		d := x.deref(a[0].(*PtrVal)).Load().(*StructVal)
		dt := x.eng.findType("github.com/go-openapi/loads", "Document")
		sw, _ := getField(d, dt, "spec")
		return x.makeDocument(deepCopy(sw, map[*Cell]*Cell{})), true
	}
	e.intrinsics["(*github.com/go-swagger/go-swagger/generator.codeGenOpBuilder).cloneSchema"] = func(x *Exec, fn *ssa.Function, a []Value) (Value, bool) {
		return deepCopy(a[1], map[*Cell]*Cell{}), true
	}
}
