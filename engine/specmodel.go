package main

// Model of go-openapi/spec's $ref resolution/expansion for fragment-only local references
// ("#/definitions/<name>") against a *spec.Swagger root. The real implementation walks the
// document by JSON pointer through reflection, which the interpreter cannot follow.

import (
	"go/types"
	"strings"

	"golang.org/x/tools/go/ssa"
)

func structFieldIdx(t types.Type, name string) int {
	st := t.Underlying().(*types.Struct)
	for i := 0; i < st.NumFields(); i++ {
		if st.Field(i).Name() == name {
			return i
		}
	}
	panic(unsupported("no field " + name + " in " + t.String()))
}

func getField(sv *StructVal, t types.Type, path ...string) (Value, types.Type) {
	var cur Value = sv
	for _, p := range path {
		i := structFieldIdx(t, p)
		cur = cur.(*StructVal).F[i]
		t = t.Underlying().(*types.Struct).Field(i).Type()
	}
	return cur, t
}

func setField(sv *StructVal, t types.Type, v Value, path ...string) *StructVal {
	i := structFieldIdx(t, path[0])
	n := &StructVal{F: append([]Value{}, sv.F...)}
	if len(path) == 1 {
		n.F[i] = v
	} else {
		n.F[i] = setField(sv.F[i].(*StructVal), t.Underlying().(*types.Struct).Field(i).Type(), v, path[1:]...)
	}
	return n
}

type specModel struct {
	x       *Exec
	schemaT types.Type
	refT    types.Type
	defs    *MapVal
}

func (x *Exec) newSpecModel(root Value) *specModel {
	m := &specModel{x: x}
	m.schemaT = x.eng.findType("github.com/go-openapi/spec", "Schema")
	m.refT = x.eng.findType("github.com/go-openapi/spec", "Ref")
	iv, ok := root.(*IfaceVal)
	if ok {
		root = iv.V
	}
	swp, ok := root.(*PtrVal)
	if !ok || swp.R == nil {
		panic(unsupported("spec model: root is not *spec.Swagger"))
	}
	sw, ok := x.deref(swp).Load().(*StructVal)
	swT := x.eng.findType("github.com/go-openapi/spec", "Swagger")
	if !ok || len(sw.F) != swT.Underlying().(*types.Struct).NumFields() {
		panic(unsupported("spec model: root is not *spec.Swagger"))
	}
	d, _ := getField(sw, swT, "SwaggerProps", "Definitions")
	m.defs = d.(*MapVal)
	return m
}

func (m *specModel) refString(ref Value) string {
	strFn := m.x.eng.methodByName(types.NewPointer(m.refT), "String")
	s := m.x.callFunction(strFn, []Value{mkPtr(&Cell{V: ref})}, nil).(*StrVal)
	if !s.IsConcrete() {
		panic(unsupported("symbolic $ref"))
	}
	return s.Conc()
}

func (m *specModel) lookup(ref string) (*StructVal, bool) {
	const pre = "#/definitions/"
	if !strings.HasPrefix(ref, pre) || strings.Contains(ref[len(pre):], "/") {
		panic(unsupported("spec model: only #/definitions/<name> references are modelled, got " + ref))
	}
	name := ref[len(pre):]
	if m.defs != nil && m.defs.M != nil {
		for _, e := range m.defs.M.E {
			if ks, ok := e.K.(*StrVal); ok && ks.IsConcrete() && ks.Conc() == name {
				return e.V.(*StructVal), true
			}
		}
	}
	return nil, false
}

// expand returns the schema with local references replaced by their targets (bounded depth;
// references beyond the bound - i.e. cycles - are left in place, as the real expander does)
func (m *specModel) expand(s *StructVal, fuel int) (*StructVal, bool) {
	refV, _ := getField(s, m.schemaT, "SchemaProps", "Ref")
	if rs := m.refString(refV); rs != "" {
		if fuel == 0 {
			return s, true
		}
		t, ok := m.lookup(rs)
		if !ok {
			return nil, false
		}
		return m.expand(t, fuel-1)
	}
	ok := true
	// items
	if it, _ := getField(s, m.schemaT, "SchemaProps", "Items"); it != nil {
		if p := it.(*PtrVal); p.R != nil {
			soa := p.R.Load().(*StructVal)
			soaT := m.x.eng.findType("github.com/go-openapi/spec", "SchemaOrArray")
			if sp, _ := getField(soa, soaT, "Schema"); sp.(*PtrVal).R != nil {
				es, k := m.expand(sp.(*PtrVal).R.Load().(*StructVal), fuel)
				ok = ok && k
				if k {
					nsoa := setField(soa, soaT, mkPtr(&Cell{V: es}), "Schema")
					s = setField(s, m.schemaT, mkPtr(&Cell{V: nsoa}), "SchemaProps", "Items")
				}
			}
		}
	}
	// properties
	if pr, _ := getField(s, m.schemaT, "SchemaProps", "Properties"); pr.(*MapVal).M != nil {
		old := pr.(*MapVal).M
		nm := &MapObj{KeyT: old.KeyT}
		for _, e := range old.E {
			es, k := m.expand(e.V.(*StructVal), fuel)
			ok = ok && k
			if !k {
				es = e.V.(*StructVal)
			}
			nm.E = append(nm.E, MapEntry{K: e.K, V: es})
		}
		s = setField(s, m.schemaT, &MapVal{M: nm}, "SchemaProps", "Properties")
	}
	// allOf
	if ao, _ := getField(s, m.schemaT, "SchemaProps", "AllOf"); ao.(*SliceVal).Len > 0 {
		sl := ao.(*SliceVal)
		vs := make([]Value, sl.Len)
		for i := range vs {
			es, k := m.expand(sl.At(i).(*StructVal), fuel)
			ok = ok && k
			if !k {
				es = sl.At(i).(*StructVal)
			}
			vs[i] = es
		}
		s = setField(s, m.schemaT, mkSlice(vs), "SchemaProps", "AllOf")
	}
	// additionalProperties
	if ap, _ := getField(s, m.schemaT, "SchemaProps", "AdditionalProperties"); ap.(*PtrVal).R != nil {
		sob := ap.(*PtrVal).R.Load().(*StructVal)
		sobT := m.x.eng.findType("github.com/go-openapi/spec", "SchemaOrBool")
		if sp, _ := getField(sob, sobT, "Schema"); sp.(*PtrVal).R != nil {
			es, k := m.expand(sp.(*PtrVal).R.Load().(*StructVal), fuel)
			ok = ok && k
			if k {
				nsob := setField(sob, sobT, mkPtr(&Cell{V: es}), "Schema")
				s = setField(s, m.schemaT, mkPtr(&Cell{V: nsob}), "SchemaProps", "AdditionalProperties")
			}
		}
	}
	return s, ok
}

func registerSpecModel(e *Engine) {
	// ExpandSchema(schema *Schema, root interface{}, cache ResolutionCache) error  (in place)
	e.intrinsics["github.com/go-openapi/spec.ExpandSchema"] = func(x *Exec, fn *ssa.Function, a []Value) (Value, bool) {
		m := x.newSpecModel(a[1])
		ref := x.deref(a[0].(*PtrVal))
		es, ok := m.expand(ref.Load().(*StructVal), 3)
		if !ok {
			return x.errorValue("unresolved reference"), true
		}
		ref.Store(es)
		return nilIface, true
	}
	e.intrinsics["github.com/go-openapi/spec.ResolveRef"] = func(x *Exec, fn *ssa.Function, a []Value) (Value, bool) {
		m := x.newSpecModel(a[0])
		refp := a[1].(*PtrVal)
		rs := m.refString(x.deref(refp).Load())
		t, ok := m.lookup(rs)
		if !ok {
			return TupleVal{nilPtr, x.errorValue("object has no key " + rs)}, true
		}
		// the real resolver follows chains of references to the final schema
		for i := 0; i < 10; i++ {
			rv, _ := getField(t, m.schemaT, "SchemaProps", "Ref")
			nr := m.refString(rv)
			if nr == "" {
				break
			}
			nt, ok := m.lookup(nr)
			if !ok {
				return TupleVal{nilPtr, x.errorValue("object has no key " + nr)}, true
			}
			t = nt
		}
		return TupleVal{mkPtr(&Cell{V: t}), nilIface}, true
	}
}
