package main

// Symbolic models of the leaf string-search functions (the rest of package strings is
// interpreted from its source). Each model declines (handled=false) when all arguments
// are concrete, so that the real function is called instead.

import (
	"strings"

	"golang.org/x/tools/go/ssa"
)

func (x *Exec) matchAt(s StrAlt, sub StrAlt, i int) *Term {
	if i+sub.Len() > s.Len() {
		return TFalse
	}
	r := TTrue
	for j := 0; j < sub.Len(); j++ {
		r = tAnd(r, tEq(s.Byte(i+j), sub.Byte(j)))
		if r.IsFalse() {
			return r
		}
	}
	return r
}

// index of first occurrence (forks on the position)
func (x *Exec) symIndex(s, sub StrAlt, from int) int {
	if sub.Len() == 0 {
		return from
	}
	for i := from; i+sub.Len() <= s.Len(); i++ {
		if x.decide(x.matchAt(s, sub, i)) {
			return i
		}
	}
	return -1
}

func registerStringModels(e *Engine) {
	concrete := func(vs ...Value) bool {
		for _, v := range vs {
			switch t := v.(type) {
			case *StrVal:
				if !t.IsConcrete() {
					return false
				}
			case *Term:
				if !t.IsConst() {
					return false
				}
			}
		}
		return true
	}
	e.intrinsics["strings.Index"] = func(x *Exec, fn *ssa.Function, a []Value) (Value, bool) {
		if concrete(a...) {
			return nil, false
		}
		s, sub := x.pickAlt(a[0].(*StrVal)), x.pickAlt(a[1].(*StrVal))
		return mkBV(64, uint64(int64(x.symIndex(s, sub, 0)))), true
	}
	e.intrinsics["strings.Contains"] = func(x *Exec, fn *ssa.Function, a []Value) (Value, bool) {
		if concrete(a...) {
			return nil, false
		}
		s, sub := x.pickAlt(a[0].(*StrVal)), x.pickAlt(a[1].(*StrVal))
		r := TFalse
		for i := 0; i+sub.Len() <= s.Len(); i++ {
			r = tOr(r, x.matchAt(s, sub, i))
		}
		if sub.Len() == 0 {
			r = TTrue
		}
		return r, true
	}
	e.intrinsics["strings.IndexByte"] = func(x *Exec, fn *ssa.Function, a []Value) (Value, bool) {
		if concrete(a...) {
			return nil, false
		}
		s := x.pickAlt(a[0].(*StrVal))
		c := a[1].(*Term)
		for i := 0; i < s.Len(); i++ {
			if x.decide(tEq(s.Byte(i), c)) {
				return mkBV(64, uint64(i)), true
			}
		}
		return mkBV(64, ^uint64(0)), true
	}
	e.intrinsics["strings.LastIndex"] = func(x *Exec, fn *ssa.Function, a []Value) (Value, bool) {
		if concrete(a...) {
			return nil, false
		}
		s, sub := x.pickAlt(a[0].(*StrVal)), x.pickAlt(a[1].(*StrVal))
		for i := s.Len() - sub.Len(); i >= 0; i-- {
			if x.decide(x.matchAt(s, sub, i)) {
				return mkBV(64, uint64(i)), true
			}
		}
		return mkBV(64, ^uint64(0)), true
	}
	e.intrinsics["strings.Count"] = func(x *Exec, fn *ssa.Function, a []Value) (Value, bool) {
		if concrete(a...) {
			return nil, false
		}
		s, sub := x.pickAlt(a[0].(*StrVal)), x.pickAlt(a[1].(*StrVal))
		if sub.Len() == 0 {
			panic(unsupported("strings.Count with empty separator on symbolic string"))
		}
		n := 0
		for i := 0; ; {
			j := x.symIndex(s, sub, i)
			if j < 0 {
				break
			}
			n++
			i = j + sub.Len()
		}
		return mkBV(64, uint64(n)), true
	}
	e.intrinsics["strings.HasPrefix"] = func(x *Exec, fn *ssa.Function, a []Value) (Value, bool) {
		if concrete(a...) {
			return nil, false
		}
		s, p := a[0].(*StrVal), a[1].(*StrVal)
		if s.Opaque || p.Opaque {
			panic(unsupported("HasPrefix on opaque string"))
		}
		r := TFalse
		for _, sa := range s.Alts {
			for _, pa := range p.Alts {
				r = tOr(r, tAndN(sa.G, pa.G, x.matchAt(sa, pa, 0)))
			}
		}
		return r, true
	}
	e.intrinsics["strings.HasSuffix"] = func(x *Exec, fn *ssa.Function, a []Value) (Value, bool) {
		if concrete(a...) {
			return nil, false
		}
		s, p := a[0].(*StrVal), a[1].(*StrVal)
		if s.Opaque || p.Opaque {
			panic(unsupported("HasSuffix on opaque string"))
		}
		r := TFalse
		for _, sa := range s.Alts {
			for _, pa := range p.Alts {
				if pa.Len() <= sa.Len() {
					r = tOr(r, tAndN(sa.G, pa.G, x.matchAt(sa, pa, sa.Len()-pa.Len())))
				}
			}
		}
		return r, true
	}
	e.intrinsics["strings.EqualFold"] = func(x *Exec, fn *ssa.Function, a []Value) (Value, bool) {
		if concrete(a...) {
			return nil, false
		}
		s, t := a[0].(*StrVal), a[1].(*StrVal)
		fold := func(b *Term) *Term {
			isUp := tAnd(bvCmp(OpULe, mkBV(8, 'A'), b), bvCmp(OpULe, b, mkBV(8, 'Z')))
			return tIte(isUp, bvBin(OpAdd, b, mkBV(8, 32)), b)
		}
		r := TFalse
		for _, sa := range s.Alts {
			for _, ta := range t.Alts {
				if sa.Len() != ta.Len() {
					continue
				}
				eq := tAnd(sa.G, ta.G)
				for i := 0; i < sa.Len(); i++ {
					eq = tAnd(eq, tEq(fold(sa.Byte(i)), fold(ta.Byte(i))))
				}
				r = tOr(r, eq)
			}
		}
		return r, true
	}
	e.intrinsics["strings.ToLower"] = func(x *Exec, fn *ssa.Function, a []Value) (Value, bool) {
		if concrete(a...) {
			return nil, false
		}
		s := a[0].(*StrVal)
		out := &StrVal{}
		for _, al := range s.Alts {
			if al.Sym == nil {
				out.Alts = append(out.Alts, StrAlt{G: al.G, S: strings.ToLower(al.S)})
				continue
			}
			bs := make([]*Term, len(al.Sym))
			for i, b := range al.Sym {
				isUp := tAnd(bvCmp(OpULe, mkBV(8, 'A'), b), bvCmp(OpULe, b, mkBV(8, 'Z')))
				bs[i] = tIte(isUp, bvBin(OpAdd, b, mkBV(8, 32)), b)
			}
			out.Alts = append(out.Alts, StrAlt{G: al.G, Sym: bs})
		}
		return out, true
	}
}

func registerStrconvModels(e *Engine) {
	allConc := func(vs ...Value) bool {
		for _, v := range vs {
			if sv, ok := v.(*StrVal); ok && !sv.IsConcrete() {
				return false
			}
		}
		return true
	}
	e.intrinsics["strconv.CanBackquote"] = func(x *Exec, fn *ssa.Function, a []Value) (Value, bool) {
		if allConc(a...) {
			return nil, false
		}
		s := a[0].(*StrVal)
		r := TFalse
		for _, al := range s.Alts {
			ok := TTrue
			for i := 0; i < al.Len(); i++ {
				b := al.Byte(i)
				bad := tOrN(tEq(b, mkBV(8, '`')), tEq(b, mkBV(8, 0x7f)), tAnd(bvCmp(OpULt, b, mkBV(8, 0x20)), tNot(tEq(b, mkBV(8, '\t')))))
				ok = tAnd(ok, tNot(bad))
			}
			r = tOr(r, tAnd(al.G, ok))
		}
		return r, true
	}
	e.intrinsics["strconv.Quote"] = func(x *Exec, fn *ssa.Function, a []Value) (Value, bool) {
		if allConc(a...) {
			return nil, false
		}
		al := x.pickAlt(a[0].(*StrVal))
		out := []*Term{mkBV(8, '"')}
		esc := func(c byte) { out = append(out, mkBV(8, '\\'), mkBV(8, uint64(c))) }
		for i := 0; i < al.Len(); i++ {
			b := al.Byte(i)
			switch {
			case x.decide(tEq(b, mkBV(8, '"'))):
				esc('"')
			case x.decide(tEq(b, mkBV(8, '\\'))):
				esc('\\')
			case x.decide(tEq(b, mkBV(8, '\n'))):
				esc('n')
			case x.decide(tEq(b, mkBV(8, '\t'))):
				esc('t')
			case x.decide(tEq(b, mkBV(8, '\r'))):
				esc('r')
			case x.decide(tAnd(bvCmp(OpULe, mkBV(8, 0x20), b), bvCmp(OpULt, b, mkBV(8, 0x7f)))):
				out = append(out, b)
			default:
				panic(unsupported("strconv.Quote of a symbolic control or non-ASCII byte"))
			}
		}
		out = append(out, mkBV(8, '"'))
		return mkStrBytes(out), true
	}
	e.intrinsics["unicode/utf8.DecodeRuneInString"] = func(x *Exec, fn *ssa.Function, a []Value) (Value, bool) {
		if allConc(a...) {
			return nil, false
		}
		al := x.pickAlt(a[0].(*StrVal))
		if al.Len() == 0 {
			return TupleVal{mkBV(32, 0xFFFD), mkBV(64, 0)}, true
		}
		r, n := x.decodeRune(al, 0)
		return TupleVal{r, mkBV(64, uint64(n))}, true
	}
}

func isSpaceTerm(b *Term) *Term {
	return tOrN(tEq(b, mkBV(8, ' ')), tEq(b, mkBV(8, '\t')), tEq(b, mkBV(8, '\n')), tEq(b, mkBV(8, '\r')), tEq(b, mkBV(8, '\v')), tEq(b, mkBV(8, '\f')))
}

func registerTrimModels(e *Engine) {
	e.intrinsics["strings.TrimSpace"] = func(x *Exec, fn *ssa.Function, a []Value) (Value, bool) {
		s := a[0].(*StrVal)
		if s.IsConcrete() {
			return nil, false
		}
		al := x.pickAlt(s)
		lo, hi := 0, al.Len()
		for lo < hi && x.decide(isSpaceTerm(al.Byte(lo))) {
			lo++
		}
		for hi > lo && x.decide(isSpaceTerm(al.Byte(hi-1))) {
			hi--
		}
		if al.Sym == nil {
			return mkStr(al.S[lo:hi]), true
		}
		return mkStrBytes(al.Sym[lo:hi]), true
	}
	// strconv.Atoi on symbolic ASCII text: valid iff [+-]?digits+ ; the value is the decimal reading
	e.intrinsics["strconv.Atoi"] = func(x *Exec, fn *ssa.Function, a []Value) (Value, bool) {
		s := a[0].(*StrVal)
		if s.IsConcrete() {
			return nil, false
		}
		al := x.pickAlt(s)
		bad := func() (Value, bool) {
			return TupleVal{mkBV(64, 0), x.errorValue("strconv.Atoi: parsing: invalid syntax")}, true
		}
		i, neg := 0, false
		if al.Len() > 0 {
			if x.decide(tEq(al.Byte(0), mkBV(8, '-'))) {
				neg, i = true, 1
			} else if x.decide(tEq(al.Byte(0), mkBV(8, '+'))) {
				i = 1
			}
		}
		if i >= al.Len() || al.Len()-i > 18 {
			return bad()
		}
		v := mkBV(64, 0)
		for ; i < al.Len(); i++ {
			b := al.Byte(i)
			if !x.decide(tAnd(bvCmp(OpULe, mkBV(8, '0'), b), bvCmp(OpULe, b, mkBV(8, '9')))) {
				return bad()
			}
			v = bvBin(OpAdd, bvBin(OpMul, v, mkBV(64, 10)), tZExt(bvBin(OpSub, b, mkBV(8, '0')), 64))
		}
		if neg {
			v = bvUn(OpNeg, v)
		}
		return TupleVal{v, nilIface}, true
	}
}

// strconv.ParseInt / ParseUint (base 10) on symbolic ASCII text of at most 18 characters: valid iff
// [+-]?digits+ (no sign for ParseUint); out of the bitSize range -> range error
func registerParseIntModels(e *Engine) {
	for _, name := range []string{"strconv.ParseInt", "strconv.ParseUint"} {
		signed := name == "strconv.ParseInt"
		fname := name
		e.intrinsics[name] = func(x *Exec, fn *ssa.Function, a []Value) (Value, bool) {
			s := a[0].(*StrVal)
			if s.IsConcrete() {
				return nil, false
			}
			base, bits := a[1].(*Term), a[2].(*Term)
			if !base.IsConst() || !bits.IsConst() || (base.Val != 10) {
				panic(unsupported(fname + " with symbolic text and base != 10"))
			}
			bs := int(bits.Val)
			if bs == 0 {
				bs = 64
			}
			al := x.pickAlt(s)
			bad := func(msg string) (Value, bool) {
				return TupleVal{mkBV(64, 0), x.errorValue(fname + ": parsing: " + msg)}, true
			}
			i, neg := 0, false
			if al.Len() > 0 && signed {
				if x.decide(tEq(al.Byte(0), mkBV(8, '-'))) {
					neg, i = true, 1
				} else if x.decide(tEq(al.Byte(0), mkBV(8, '+'))) {
					i = 1
				}
			}
			if i >= al.Len() {
				return bad("invalid syntax")
			}
			if al.Len()-i > 18 {
				panic(unsupported(fname + " of symbolic text longer than 18 digits"))
			}
			v := mkBV(64, 0)
			for ; i < al.Len(); i++ {
				b := al.Byte(i)
				if !x.decide(tAnd(bvCmp(OpULe, mkBV(8, '0'), b), bvCmp(OpULe, b, mkBV(8, '9')))) {
					return bad("invalid syntax")
				}
				v = bvBin(OpAdd, bvBin(OpMul, v, mkBV(64, 10)), tZExt(bvBin(OpSub, b, mkBV(8, '0')), 64))
			}
			if neg {
				v = bvUn(OpNeg, v)
			}
			if bs < 64 {
				var in *Term
				if signed {
					lo, hi := uint64(-(int64(1) << (bs - 1))), uint64(int64(1)<<(bs-1)-1)
					in = tAnd(bvCmp(OpSLe, mkBV(64, lo), v), bvCmp(OpSLe, v, mkBV(64, hi)))
				} else {
					in = bvCmp(OpULe, v, mkBV(64, uint64(1)<<bs-1))
				}
				if !x.decide(in) {
					return bad("value out of range")
				}
			}
			return TupleVal{v, nilIface}, true
		}
	}
}

func asciiLower(s string) string {
	b := []byte(s)
	for i, c := range b {
		if c >= 'A' && c <= 'Z' {
			b[i] = c + 32
		}
	}
	return string(b)
}

func bytesOfSlice(v Value) StrAlt {
	s := v.(*SliceVal)
	bs := make([]*Term, s.Len)
	for i := range bs {
		bs[i] = s.At(i).(*Term)
	}
	sv := mkStrBytes(bs)
	return sv.Alts[0]
}

// leaf assembly routines of internal/bytealg, usable on concrete and symbolic bytes
func registerBytealg(e *Engine) {
	idx := func(x *Exec, s StrAlt, c *Term, last bool) Value {
		if last {
			for i := s.Len() - 1; i >= 0; i-- {
				if x.decide(tEq(s.Byte(i), c)) {
					return mkBV(64, uint64(i))
				}
			}
		} else {
			for i := 0; i < s.Len(); i++ {
				if x.decide(tEq(s.Byte(i), c)) {
					return mkBV(64, uint64(i))
				}
			}
		}
		return mkBV(64, ^uint64(0))
	}
	reg := func(name string, f func(x *Exec, a []Value) Value) {
		e.intrinsics["internal/bytealg."+name] = func(x *Exec, fn *ssa.Function, a []Value) (Value, bool) { return f(x, a), true }
	}
	reg("IndexByteString", func(x *Exec, a []Value) Value { return idx(x, x.pickAlt(a[0].(*StrVal)), a[1].(*Term), false) })
	reg("LastIndexByteString", func(x *Exec, a []Value) Value { return idx(x, x.pickAlt(a[0].(*StrVal)), a[1].(*Term), true) })
	reg("IndexByte", func(x *Exec, a []Value) Value { return idx(x, bytesOfSlice(a[0]), a[1].(*Term), false) })
	reg("LastIndexByte", func(x *Exec, a []Value) Value { return idx(x, bytesOfSlice(a[0]), a[1].(*Term), true) })
	reg("IndexString", func(x *Exec, a []Value) Value {
		return mkBV(64, uint64(int64(x.symIndex(x.pickAlt(a[0].(*StrVal)), x.pickAlt(a[1].(*StrVal)), 0))))
	})
	reg("Index", func(x *Exec, a []Value) Value {
		return mkBV(64, uint64(int64(x.symIndex(bytesOfSlice(a[0]), bytesOfSlice(a[1]), 0))))
	})
	cnt := func(x *Exec, s StrAlt, c *Term) Value {
		n := 0
		for i := 0; i < s.Len(); i++ {
			if x.decide(tEq(s.Byte(i), c)) {
				n++
			}
		}
		return mkBV(64, uint64(n))
	}
	reg("CountString", func(x *Exec, a []Value) Value { return cnt(x, x.pickAlt(a[0].(*StrVal)), a[1].(*Term)) })
	reg("Count", func(x *Exec, a []Value) Value { return cnt(x, bytesOfSlice(a[0]), a[1].(*Term)) })
	reg("Equal", func(x *Exec, a []Value) Value { return altEq(bytesOfSlice(a[0]), bytesOfSlice(a[1])) })
	reg("Compare", func(x *Exec, a []Value) Value {
		l, r := bytesOfSlice(a[0]), bytesOfSlice(a[1])
		if x.decide(altLess(l, r)) {
			return mkBV(64, ^uint64(0))
		}
		if x.decide(altLess(r, l)) {
			return mkBV(64, 1)
		}
		return mkBV(64, 0)
	})
	e.intrinsics["strings.Compare"] = func(x *Exec, fn *ssa.Function, a []Value) (Value, bool) {
		l, r := x.pickAlt(a[0].(*StrVal)), x.pickAlt(a[1].(*StrVal))
		if x.decide(altLess(l, r)) {
			return mkBV(64, ^uint64(0)), true
		}
		if x.decide(altLess(r, l)) {
			return mkBV(64, 1), true
		}
		return mkBV(64, 0), true
	}
}
