package main

// Runtime values of the symbolic interpreter.

import (
	"fmt"
	"go/types"
	"strings"
	"sync/atomic"

	"golang.org/x/tools/go/ssa"
)

type Value interface{}

// ---- strings: guarded alternatives of concrete-length byte vectors ---------

type StrAlt struct {
	G   *Term   // guard (alternatives are mutually exclusive, exactly one holds)
	S   string  // concrete content when Sym == nil
	Sym []*Term // BV8 terms otherwise
}

func (a StrAlt) Len() int {
	if a.Sym != nil {
		return len(a.Sym)
	}
	return len(a.S)
}

func (a StrAlt) Byte(i int) *Term {
	if a.Sym != nil {
		return a.Sym[i]
	}
	return mkBV(8, uint64(a.S[i]))
}

func (a StrAlt) Bytes() []*Term {
	if a.Sym != nil {
		return a.Sym
	}
	r := make([]*Term, len(a.S))
	for i := range r {
		r[i] = mkBV(8, uint64(a.S[i]))
	}
	return r
}

func (a StrAlt) Concrete() bool {
	return a.Sym == nil
}

type StrVal struct {
	Alts     []StrAlt
	Opaque   bool    // content unknown (message text); inspecting it is unsupported
	MinLen   int     // lower bound on the length of an opaque string
	OpPrefix *StrVal // known leading text of an opaque string (may be nil)
	OpFmt    string  // opaque strings produced by Sprintf: the format ...
	OpArgs   []Value // ... and its operands (equal format and operands => equal text)
}

func mkStr(s string) *StrVal { return &StrVal{Alts: []StrAlt{{G: TTrue, S: s}}} }

func mkStrBytes(bs []*Term) *StrVal {
	conc := true
	for _, b := range bs {
		if !b.IsConst() {
			conc = false
			break
		}
	}
	if conc {
		buf := make([]byte, len(bs))
		for i, b := range bs {
			buf[i] = byte(b.Val)
		}
		return mkStr(string(buf))
	}
	if bs == nil {
		bs = []*Term{}
	}
	return &StrVal{Alts: []StrAlt{{G: TTrue, Sym: bs}}}
}

func (s *StrVal) IsConcrete() bool {
	return !s.Opaque && len(s.Alts) == 1 && s.Alts[0].Sym == nil
}

func (s *StrVal) Single() bool { return !s.Opaque && len(s.Alts) == 1 }

func (s *StrVal) Conc() string { return s.Alts[0].S }

func altEq(a, b StrAlt) *Term {
	if a.Len() != b.Len() {
		return TFalse
	}
	if a.Sym == nil && b.Sym == nil {
		return mkBool(a.S == b.S)
	}
	r := TTrue
	for i := 0; i < a.Len(); i++ {
		r = tAnd(r, tEq(a.Byte(i), b.Byte(i)))
		if r.IsFalse() {
			return r
		}
	}
	return r
}

func strEq(a, b *StrVal) *Term {
	r := TFalse
	for _, x := range a.Alts {
		for _, y := range b.Alts {
			g := tAnd(x.G, y.G)
			if g.IsFalse() {
				continue
			}
			r = tOr(r, tAnd(g, altEq(x, y)))
		}
	}
	return r
}

// lexicographic a < b for single alternatives
func altLess(a, b StrAlt) *Term {
	if a.Sym == nil && b.Sym == nil {
		return mkBool(a.S < b.S)
	}
	n := a.Len()
	if b.Len() < n {
		n = b.Len()
	}
	// build from the end
	var r *Term
	if a.Len() < b.Len() {
		r = TTrue
	} else {
		r = TFalse
	}
	for i := n - 1; i >= 0; i-- {
		x, y := a.Byte(i), b.Byte(i)
		r = tOr(bvCmp(OpULt, x, y), tAnd(tEq(x, y), r))
	}
	return r
}

// ---- pointers ---------------------------------------------------------------

type Ref interface {
	Load() Value
	Store(Value)
}

type Cell struct {
	V      Value
	Frozen bool
	Name   string
}

func (c *Cell) Load() Value { return c.V }

// initWrites > 0 while a package initialiser runs: initialisers may write other packages' globals
var initWrites int32

func (c *Cell) Store(v Value) {
	if c.Frozen && atomic.LoadInt32(&initWrites) == 0 {
		panic(unsupported("store to frozen (init-time) cell " + c.Name))
	}
	c.V = v
}

type fieldRef struct {
	Base Ref
	Idx  int
}

func (r fieldRef) Load() Value { return r.Base.Load().(*StructVal).F[r.Idx] }
func (r fieldRef) Store(v Value) {
	s := r.Base.Load().(*StructVal)
	n := &StructVal{F: make([]Value, len(s.F))}
	copy(n.F, s.F)
	n.F[r.Idx] = v
	r.Base.Store(n)
}

type ArrayObj struct {
	E      []Value
	Frozen bool
}

type elemRef struct {
	A   *ArrayObj
	Idx int
}

func (r elemRef) Load() Value { return r.A.E[r.Idx] }
func (r elemRef) Store(v Value) {
	if r.A.Frozen {
		panic(unsupported("store to frozen array"))
	}
	r.A.E[r.Idx] = v
}

// element of an array *value* held behind another ref
type arrElemRef struct {
	Base Ref
	Idx  int
}

func (r arrElemRef) Load() Value { return r.Base.Load().(*ArrayVal).E[r.Idx] }
func (r arrElemRef) Store(v Value) {
	a := r.Base.Load().(*ArrayVal)
	n := &ArrayVal{E: make([]Value, len(a.E))}
	copy(n.E, a.E)
	n.E[r.Idx] = v
	r.Base.Store(n)
}

func sameRef(a, b Ref) bool {
	switch x := a.(type) {
	case *Cell:
		y, ok := b.(*Cell)
		return ok && x == y
	case fieldRef:
		y, ok := b.(fieldRef)
		return ok && x.Idx == y.Idx && sameRef(x.Base, y.Base)
	case elemRef:
		y, ok := b.(elemRef)
		return ok && x.A == y.A && x.Idx == y.Idx
	case arrElemRef:
		y, ok := b.(arrElemRef)
		return ok && x.Idx == y.Idx && sameRef(x.Base, y.Base)
	}
	return false
}

type PtrVal struct {
	Nil *Term // Bool: pointer is nil
	R   Ref   // nil when definitely nil
}

var nilPtr = &PtrVal{Nil: TTrue}

func mkPtr(r Ref) *PtrVal { return &PtrVal{Nil: TFalse, R: r} }

// ---- aggregates -------------------------------------------------------------

type StructVal struct{ F []Value } // immutable by convention
type ArrayVal struct{ E []Value }  // immutable by convention
type TupleVal []Value

type SliceVal struct {
	A        *ArrayObj
	Off      int
	Len, Cap int
	Nil      bool
}

func (s *SliceVal) At(i int) Value { return s.A.E[s.Off+i] }

type MapEntry struct {
	K, V Value
}

type MapObj struct {
	E      []MapEntry
	Frozen bool
	KeyT   types.Type
}

type MapVal struct{ M *MapObj } // M == nil: nil map

type IfaceVal struct {
	T types.Type // nil => nil interface
	V Value
}

var nilIface = &IfaceVal{}

type FuncVal struct {
	Fn      *ssa.Function
	Bind    []Value
	Builtin *ssa.Builtin
	Native  string // name of an engine intrinsic
}

type ChanVal struct{}

// ---- zero values --------------------------------------------------------------

func intWidth(b *types.Basic) (int, bool) {
	switch b.Kind() {
	case types.Int8:
		return 8, true
	case types.Int16:
		return 16, true
	case types.Int32, types.UntypedRune:
		return 32, true
	case types.Int, types.Int64, types.UntypedInt:
		return 64, true
	case types.Uint8:
		return 8, false
	case types.Uint16:
		return 16, false
	case types.Uint32:
		return 32, false
	case types.Uint, types.Uint64, types.Uintptr:
		return 64, false
	}
	return 0, false
}

func isInt(b *types.Basic) bool { return b.Info()&types.IsInteger != 0 }

func sortOf(t types.Type) (Sort, bool) {
	b, ok := t.Underlying().(*types.Basic)
	if !ok {
		return Sort{}, false
	}
	switch {
	case b.Info()&types.IsBoolean != 0:
		return SBool, true
	case isInt(b):
		w, _ := intWidth(b)
		return BV(w), true
	case b.Kind() == types.Float32:
		return SF32, true
	case b.Kind() == types.Float64 || b.Kind() == types.UntypedFloat:
		return SF64, true
	}
	return Sort{}, false
}

func isSigned(t types.Type) bool {
	b, ok := t.Underlying().(*types.Basic)
	if !ok {
		return false
	}
	_, s := intWidth(b)
	return s
}

func zeroOfSort(s Sort) *Term {
	switch s.K {
	case KBool:
		return TFalse
	case KBV:
		return mkBV(s.W, 0)
	default:
		return mkFP(s, 0)
	}
}

func zeroValue(t types.Type) Value {
	switch u := t.Underlying().(type) {
	case *types.Basic:
		if u.Info()&types.IsString != 0 {
			return mkStr("")
		}
		if u.Kind() == types.UnsafePointer {
			return nilPtr
		}
		if u.Kind() == types.UntypedNil {
			return nilIface
		}
		if s, ok := sortOf(t); ok {
			return zeroOfSort(s)
		}
		if u.Info()&types.IsComplex != 0 {
			return &StructVal{F: []Value{mkF64(0), mkF64(0)}}
		}
		panic(unsupported("zero of basic " + u.String()))
	case *types.Pointer:
		return nilPtr
	case *types.Struct:
		s := &StructVal{F: make([]Value, u.NumFields())}
		for i := range s.F {
			s.F[i] = zeroValue(u.Field(i).Type())
		}
		return s
	case *types.Array:
		a := &ArrayVal{E: make([]Value, u.Len())}
		if u.Len() > 0 {
			z := zeroValue(u.Elem())
			for i := range a.E {
				a.E[i] = z
			}
		}
		return a
	case *types.Slice:
		return &SliceVal{Nil: true}
	case *types.Map:
		return &MapVal{}
	case *types.Interface:
		return nilIface
	case *types.Signature:
		return &FuncVal{}
	case *types.Chan:
		return &ChanVal{}
	case *types.Tuple:
		tv := make(TupleVal, u.Len())
		for i := range tv {
			tv[i] = zeroValue(u.At(i).Type())
		}
		return tv
	}
	panic(unsupported("zero of " + t.String()))
}

// ---- control-flow panics used by the interpreter -----------------------------

type unsupportedErr struct{ msg string }

func unsupported(msg string) *unsupportedErr { return &unsupportedErr{msg} }

type goPanic struct {
	val  Value
	desc string
}

type pathEnd struct{ reason string } // assume false / infeasible / explicit stop

func describe(v Value) string {
	switch x := v.(type) {
	case nil:
		return "<nil>"
	case *Term:
		if x.IsConst() {
			switch x.S.K {
			case KBool:
				return fmt.Sprint(x.Val == 1)
			case KBV:
				return fmt.Sprint(x.Val)
			default:
				return fmt.Sprint(x.fval())
			}
		}
		return "<sym " + x.S.smt() + ">"
	case *StrVal:
		if x.IsConcrete() {
			return fmt.Sprintf("%q", x.Conc())
		}
		if x.Opaque {
			return "<opaque string>"
		}
		var parts []string
		for _, a := range x.Alts {
			if a.Sym == nil {
				parts = append(parts, fmt.Sprintf("%q", a.S))
			} else {
				parts = append(parts, fmt.Sprintf("<sym[%d]>", len(a.Sym)))
			}
		}
		return "<str " + strings.Join(parts, "|") + ">"
	case *IfaceVal:
		if x.T == nil {
			return "nil"
		}
		return x.T.String() + "(" + describe(x.V) + ")"
	case *PtrVal:
		if x.R == nil {
			return "nil-ptr"
		}
		return "ptr"
	case *StructVal:
		return fmt.Sprintf("struct{%d}", len(x.F))
	case *SliceVal:
		return fmt.Sprintf("slice[%d]", x.Len)
	}
	return fmt.Sprintf("%T", v)
}

// NativeVal wraps a Go value that lives outside the interpreter (e.g. *regexp.Regexp)
type NativeVal struct{ V interface{} }

// typeHint returns the named type pkg.name (used to look up methods on struct values)
func (s *StructVal) typeHint(x *Exec, pkg, name string) types.Type {
	return x.eng.findType(pkg, name)
}
