package main

// Symbolic interpreter over go/ssa. One Exec = one path (re-executed from the
// harness entry following a recorded decision prefix).

import (
	"fmt"
	"go/constant"
	"go/token"
	"go/types"
	"math"
	"sort"
	"strings"
	"sync"

	"golang.org/x/tools/go/ssa"
)

var qprof map[string]int
var qprofMu sync.Mutex

type InputRec struct {
	Name string
	Kind string // bool, int, i64, f64, byte, bytes, oneof, choice
	Term *Term  // scalar inputs
	Str  *StrVal
	Conc string // for concrete forks: the chosen value rendered
	W    int
	Sgn  bool
}

type Observation struct {
	Label string
	V     Value
}

type AssertFail struct {
	Msg   string
	Cond  *Term // negation is satisfiable with pc
	Model Model
	Obs   []Observation
}

type Exec struct {
	mapPkg string
	vfsTemp int
	marshalled []Value
	syncMaps map[Ref]*syncMapModel // this path's versions of sync.Map tables that were made at init time
	gshadow map[*ssa.Global]*Cell
	eng          *Engine
	h            *HarnessRun
	pc           []*Term
	decisions    []int
	dpos         int
	trace        []int
	inputs       []InputRec
	nsym         int
	steps        int
	depth        int
	model        Model // satisfies pc (when non-nil)
	solver       *Solver
	covers       map[string]bool
	observes     []Observation
	fails        []AssertFail
	asserts      int // obligations reached
	discharged   int
	inconclusive int
	mapFree      bool
	funcsSeen    map[*ssa.Function]bool
	stubsHit     map[string]bool
	calllog      []string
	knownHit     map[string]bool
	panicking    *goPanic
	recovered    bool
	stack        []*ssa.Function
	lastPos      token.Pos
	queries      int
	tweaks       int
	mapSites     int
	stubRet      map[string][]Value
	stubSeq      map[string]map[int][]Value // per-call canned results (vStubReturnN)
	stubCalls    map[string]int
	vfs          map[string]*vfsNode
	mapSite      int
	rotations    []string
	initPkg      *ssa.Package
	canonMemo    map[*Term]*Term
	eqConst      map[*Term]uint64
	canonTab     map[canonKey]*Term
	lits         map[*Term]bool
}

type deferred struct {
	fn   Value
	args []Value
	call *ssa.CallCommon
}

type frame struct {
	fn     *ssa.Function
	env    map[ssa.Value]Value
	defers []deferred
	result Value
}

func (x *Exec) fresh(prefix string, s Sort) *Term {
	x.nsym++
	return mkSym(fmt.Sprintf("%s!%d", prefix, x.nsym), s)
}

// ---------------------------------------------------------------------------
// decisions

type canonKey struct {
	op         Op
	s          Sort
	aux        int
	a0, a1, a2 *Term
	val        uint64
	name       string
}

// canon returns a structurally unique representative of t within this path
func (x *Exec) canon(t *Term) *Term {
	if x.canonMemo == nil {
		x.canonMemo = map[*Term]*Term{}
		x.canonTab = map[canonKey]*Term{}
		x.lits = map[*Term]bool{}
	}
	if r, ok := x.canonMemo[t]; ok {
		return r
	}
	k := canonKey{op: t.Op, s: t.S, aux: t.Aux, val: t.Val, name: t.Name}
	if len(t.Args) > 3 {
		x.canonMemo[t] = t
		return t
	}
	for i, a := range t.Args {
		c := x.canon(a)
		switch i {
		case 0:
			k.a0 = c
		case 1:
			k.a1 = c
		default:
			k.a2 = c
		}
	}
	r, ok := x.canonTab[k]
	if !ok {
		r = t
		x.canonTab[k] = t
	}
	x.canonMemo[t] = r
	return r
}

func (x *Exec) literal(c *Term) (*Term, bool) {
	pol := true
	for c.Op == OpNot {
		c = c.Args[0]
		pol = !pol
	}
	return x.canon(c), pol
}

// known reports whether pc syntactically fixes the truth value of c (three-valued evaluation
// of the boolean structure over the literals asserted so far)
func (x *Exec) knownLit(c *Term) (bool, bool) {
	if x.lits == nil {
		x.canon(c)
	}
	return x.eval3(c, 0)
}

func (x *Exec) eval3(c *Term, depth int) (bool, bool) {
	if c.Op == OpConst {
		return c.Val != 0, true
	}
	l, pol := x.literal(c)
	if v, ok := x.lits[l]; ok {
		return v == pol, true
	}
	if depth > 12 {
		return false, false
	}
	switch l.Op {
	case OpAnd:
		all := true
		for _, a := range l.Args {
			v, ok := x.eval3(a, depth+1)
			if ok && !v {
				return !pol, true // conjunction false
			}
			if !ok {
				all = false
			}
		}
		if all {
			return pol, true
		}
	case OpOr:
		all := true
		for _, a := range l.Args {
			v, ok := x.eval3(a, depth+1)
			if ok && v {
				return pol, true
			}
			if !ok {
				all = false
			}
		}
		if all {
			return !pol, true
		}
	case OpEq:
		// sel == k1 known true  =>  sel == k2 false for another constant
		a, b := l.Args[0], l.Args[1]
		if b.Op == OpConst && a.Op != OpConst {
			if kv, ok := x.eqConst[x.canon(a)]; ok {
				return (kv == b.Val) == pol, true
			}
		}
	}
	return false, false
}

func (x *Exec) assumeTerm(c *Term) {
	if c.IsTrue() {
		return
	}
	if v, ok := x.knownLit(c); ok && v {
		return
	}
	x.pc = append(x.pc, c)
	x.noteLits(c, true)
}

func (x *Exec) noteLits(c *Term, pol bool) {
	l, p := x.literal(c)
	x.lits[l] = p == pol
	if l.Op == OpEq && (p == pol) && l.Args[1].Op == OpConst && l.Args[0].Op != OpConst {
		if x.eqConst == nil {
			x.eqConst = map[*Term]uint64{}
		}
		x.eqConst[x.canon(l.Args[0])] = l.Args[1].Val
	}
	// conjunctions asserted positively (or disjunctions negatively) fix their parts
	cc := c
	inner := pol
	for cc.Op == OpNot {
		cc = cc.Args[0]
		inner = !inner
	}
	if (cc.Op == OpAnd && inner) || (cc.Op == OpOr && !inner) {
		for _, a := range cc.Args {
			x.noteLits(a, inner)
		}
	}
}

// modelSays evaluates c under the cached model (if any)
func (x *Exec) modelSays(c *Term) (bool, bool) {
	if x.model == nil {
		return false, false
	}
	return evalTerm(c, x.model, map[*Term]uint64{}) == 1, true
}

func (x *Exec) feasible(c *Term) (bool, Model) {
	if c.IsFalse() {
		return false, nil
	}
	if m := x.tweakModel(c); m != nil {
		x.tweaks++
		return true, m
	}
	x.queries++
	if qprof != nil {
		site := "?"
		if len(x.stack) > 0 {
			site = x.stack[len(x.stack)-1].String()
		}
		site += " @" + x.eng.prog.Fset.Position(x.lastPos).String()
		qprofMu.Lock()
		qprof[site]++
		qprofMu.Unlock()
	}
	r, m := x.solver.Check(x.pc, c, true)
	if r == Unknown {
		r = fallbackCheck(x.pc, c, x.eng.timeout, x.eng.solverKind)
		m = nil
	}
	switch r {
	case Unsat:
		return false, nil
	case Sat:
		return true, m
	default:
		x.inconclusive++
		return true, nil
	}
}

// tweakModel looks for a model of pc ∧ c among small perturbations of the cached model.
// A concrete satisfying assignment is a sound witness of feasibility; failure means nothing.
func (x *Exec) tweakModel(c *Term) Model {
	if x.model == nil {
		return nil
	}
	syms := map[string]Sort{}
	collectSyms(c, map[*Term]bool{}, syms)
	if len(syms) == 0 || len(syms) > 4 {
		return nil
	}
	var names []string
	for n := range syms {
		names = append(names, n)
	}
	sort.Strings(names)
	var cands []Model
	with := func(kv ...interface{}) {
		m := make(Model, len(x.model)+2)
		for k, v := range x.model {
			m[k] = v
		}
		for i := 0; i < len(kv); i += 2 {
			m[kv[i].(string)] = kv[i+1].(uint64)
		}
		cands = append(cands, m)
	}
	consts := map[Sort][]uint64{}
	var walk func(t *Term)
	seen := map[*Term]bool{}
	walk = func(t *Term) {
		if seen[t] {
			return
		}
		seen[t] = true
		if t.Op == OpConst && t.S.K != KBool {
			consts[t.S] = append(consts[t.S], t.Val)
		}
		for _, a := range t.Args {
			walk(a)
		}
	}
	walk(c)
	for _, n := range names {
		so := syms[n]
		cur := x.model[n]
		switch so.K {
		case KBool:
			with(n, 1-cur)
		case KBV:
			with(n, (cur+1)&mask(so.W))
			with(n, (cur-1)&mask(so.W))
			with(n, uint64(0))
			for _, k := range consts[so] {
				with(n, k)
				with(n, (k+1)&mask(so.W))
				with(n, (k-1)&mask(so.W))
			}
			// constants of other widths (e.g. compared after extension)
			for cs, ks := range consts {
				if cs.K == KBV && cs != so {
					for _, k := range ks {
						with(n, k&mask(so.W))
					}
				}
			}
		case KFP:
			if so.W == 64 {
				f := math.Float64frombits(cur)
				with(n, math.Float64bits(math.Nextafter(f, math.Inf(1))))
				with(n, math.Float64bits(math.Nextafter(f, math.Inf(-1))))
				with(n, math.Float64bits(f+1))
				with(n, math.Float64bits(f-1))
				for _, k := range consts[so] {
					kf := math.Float64frombits(k)
					with(n, k)
					with(n, math.Float64bits(math.Nextafter(kf, math.Inf(1))))
					with(n, math.Float64bits(math.Nextafter(kf, math.Inf(-1))))
				}
			}
		}
		for _, o := range names {
			if o != n && syms[o] == so {
				with(n, x.model[o])
				if so.K == KFP && so.W == 64 {
					of := math.Float64frombits(x.model[o])
					with(n, math.Float64bits(math.Nextafter(of, math.Inf(1))))
					with(n, math.Float64bits(math.Nextafter(of, math.Inf(-1))))
				}
				if so.K == KBV {
					with(n, (x.model[o]+1)&mask(so.W))
					with(n, (x.model[o]-1)&mask(so.W))
				}
			}
		}
	}
	if len(names) == 2 && syms[names[0]] == syms[names[1]] {
		with(names[0], x.model[names[1]], names[1], x.model[names[0]])
	}
	for _, m := range cands {
		memo := map[*Term]uint64{}
		if evalTerm(c, m, memo) != 1 {
			continue
		}
		ok := true
		for _, p := range x.pc {
			if evalTerm(p, m, memo) != 1 {
				ok = false
				break
			}
		}
		if ok {
			return m
		}
	}
	return nil
}

func (x *Exec) decide(c *Term) bool {
	if c.IsConst() {
		return c.Val != 0
	}
	if v, ok := x.knownLit(c); ok {
		return v // implied by the path condition: not a decision point
	}
	if x.dpos < len(x.decisions) {
		d := x.decisions[x.dpos]
		x.dpos++
		x.trace = append(x.trace, d)
		if d == 1 {
			x.assumeTerm(c)
		} else {
			x.assumeTerm(tNot(c))
		}
		// cached model may no longer fit
		if x.model != nil {
			if v, _ := x.modelSays(c); v != (d == 1) {
				x.model = nil
			}
		}
		return d == 1
	}
	// frontier
	var feasT, feasF bool
	var mT, mF Model
	if v, ok := x.modelSays(c); ok {
		if v {
			feasT, mT = true, x.model
			feasF, mF = x.feasible(tNot(c))
		} else {
			feasF, mF = true, x.model
			feasT, mT = x.feasible(c)
		}
	} else {
		feasT, mT = x.feasible(c)
		if feasT {
			feasF, mF = x.feasible(tNot(c))
		} else {
			feasF = true // pc is satisfiable by invariant
		}
	}
	x.dpos++
	switch {
	case feasT && feasF:
		alt := append(append([]int{}, x.trace...), 0)
		x.h.push(alt, mF)
		x.trace = append(x.trace, 1)
		x.assumeTerm(c)
		x.model = mT
		return true
	case feasT:
		x.trace = append(x.trace, 1)
		x.assumeTerm(c)
		x.model = mT
		return true
	case feasF:
		x.trace = append(x.trace, 0)
		x.assumeTerm(tNot(c))
		x.model = mF
		return false
	}
	panic(&pathEnd{"infeasible"})
}

// choose forks over n alternatives. guards may be nil (unconstrained fork).
func (x *Exec) choose(n int, guards []*Term) int {
	if n == 1 && guards == nil {
		return 0
	}
	if x.dpos < len(x.decisions) {
		d := x.decisions[x.dpos]
		x.dpos++
		x.trace = append(x.trace, d)
		if guards != nil {
			x.assumeTerm(guards[d])
			if x.model != nil {
				if v, _ := x.modelSays(guards[d]); !v {
					x.model = nil
				}
			}
		}
		return d
	}
	x.dpos++
	first := -1
	var firstModel Model
	for i := 0; i < n; i++ {
		ok := true
		var m Model
		if guards != nil {
			if guards[i].IsFalse() {
				ok = false
			} else if guards[i].IsTrue() {
				m = x.model
			} else if kv, known := x.knownLit(guards[i]); known {
				ok = kv
				m = x.model
				if ok {
					if mv, has := x.modelSays(guards[i]); !has || !mv {
						m = nil
					}
				}
			} else if v, has := x.modelSays(guards[i]); has && v {
				m = x.model
			} else {
				ok, m = x.feasible(guards[i])
			}
		} else {
			m = x.model
		}
		if !ok {
			continue
		}
		if first < 0 {
			first = i
			firstModel = m
		} else {
			alt := append(append([]int{}, x.trace...), i)
			x.h.push(alt, m)
		}
	}
	if first < 0 {
		panic(&pathEnd{"infeasible"})
	}
	x.trace = append(x.trace, first)
	if guards != nil {
		x.assumeTerm(guards[first])
	}
	x.model = firstModel
	return first
}

// pickAlt reduces a string to a single alternative (forking on the guards).
func (x *Exec) pickAlt(s *StrVal) StrAlt {
	if s.Opaque {
		panic(unsupported("inspecting opaque string"))
	}
	if len(s.Alts) == 1 {
		return s.Alts[0]
	}
	gs := make([]*Term, len(s.Alts))
	for i, a := range s.Alts {
		gs[i] = a.G
	}
	i := x.choose(len(gs), gs)
	a := s.Alts[i]
	a.G = TTrue
	return a
}

func (x *Exec) single(s *StrVal) *StrVal {
	if s.Single() {
		return s
	}
	a := x.pickAlt(s)
	return &StrVal{Alts: []StrAlt{a}}
}

// concretize a bit-vector term to a concrete uint64 by forking over [lo,hi]
func (x *Exec) concretizeInt(t *Term, lo, hi int64, signed bool) int64 {
	if t.IsConst() {
		if signed {
			return signExt(t.Val, t.S.W)
		}
		return int64(t.Val)
	}
	if hi-lo > 64 {
		panic(unsupported("symbolic integer with wide range needs concretisation"))
	}
	n := int(hi - lo + 1)
	gs := make([]*Term, n)
	for i := 0; i < n; i++ {
		gs[i] = tEq(t, mkBV(t.S.W, uint64(lo+int64(i))))
	}
	return lo + int64(x.choose(n, gs))
}

// ---------------------------------------------------------------------------
// panics

func (x *Exec) goPanicf(format string, a ...interface{}) {
	msg := fmt.Sprintf(format, a...)
	panic(&goPanic{val: &IfaceVal{T: types.Typ[types.String], V: mkStr(msg)}, desc: msg + x.where()})
}

func (x *Exec) where() string {
	var sb strings.Builder
	for i := len(x.stack) - 1; i >= 0 && i >= len(x.stack)-6; i-- {
		sb.WriteString(" <- " + x.stack[i].String())
	}
	if x.lastPos.IsValid() {
		sb.WriteString(" @" + x.eng.prog.Fset.Position(x.lastPos).String())
	}
	return sb.String()
}

// ---------------------------------------------------------------------------
// calls

func (x *Exec) call(fv *FuncVal, args []Value, site *ssa.CallCommon) Value {
	if fv.Builtin != nil {
		return x.callBuiltin(fv.Builtin.Name(), args, site)
	}
	if fv.Native != "" {
		return x.eng.natives[fv.Native](x, args)
	}
	if fv.Fn == nil {
		x.goPanicf("call of nil function")
	}
	if len(fv.Bind) > 0 {
		return x.callFunction(fv.Fn, args, fv.Bind)
	}
	return x.callFunction(fv.Fn, args, nil)
}

var linknameTwins = map[string][2]string{
	"mime/multipart.readMIMEHeader": {"net/textproto", "readMIMEHeader"},
}

func (x *Exec) callFunction(fn *ssa.Function, args []Value, bind []Value) (ret Value) {
	name := fn.String()
	if fn.Origin() != nil {
		name = fn.Origin().String()
	}
	if fn.Synthetic == "package initializer" && (x.initPkg == nil || fn.Pkg != x.initPkg) {
		return nil // other packages are initialised lazily on first access to their globals
	}
	if seq, ok := x.stubSeq[name]; ok {
		n := x.stubCalls[name]
		x.stubCalls[name] = n + 1
		if canned, ok := seq[n]; ok {
			if name == "encoding/json.MarshalIndent" && len(args) > 0 {
				for len(x.marshalled) < n {
					x.marshalled = append(x.marshalled, nilIface)
				}
				x.marshalled = append(x.marshalled, args[0]) // vMarshalled also answers for canned calls
			}
			x.calllog = append(x.calllog, name+"("+x.renderArgs(args)+")")
			x.stubsHit["stub:"+name] = true
			return x.cannedResult(fn, canned)
		}
	}
	if canned, ok := x.stubRet[name]; ok {
		x.calllog = append(x.calllog, name+"("+x.renderArgs(args)+")")
		x.stubsHit["stub:"+name] = true
		return x.cannedResult(fn, canned)
	}
	if in, ok := x.eng.intrinsics[name]; ok {
		r, handled := in(x, fn, args)
		if handled {
			x.stubsHit[name] = true
			return r
		}
	}
	if fn.Blocks == nil {
		if r, ok := x.tryNative(name, fn, args); ok {
			return r
		}
		// math/big: the assembly kernels have pure Go twins (arith.go: addVV_g, shlVU_g, ...)
		if fn.Pkg != nil && fn.Pkg.Pkg.Path() == "math/big" {
			if g := fn.Pkg.Func(fn.Name() + "_g"); g != nil && g.Blocks != nil {
				return x.callFunction(g, args, nil)
			}
		}
		// go:linkname pairs of the standard library: the declaration without a body stands for a Go function elsewhere
		if tgt, ok := linknameTwins[name]; ok {
			if g := x.eng.findFunc(tgt[0], tgt[1]); g != nil && g.Blocks != nil {
				if p := g.Pkg; p != nil {
					p.Build()
				}
				return x.callFunction(g, args, nil)
			}
		}
		panic(unsupported("no body: " + name))
	}
	if x.eng.denied(fn) {
		if r, ok := x.tryNative(name, fn, args); ok {
			return r
		}
		panic(unsupported("call outside allow-list: " + name))
	}
	// concrete fast path for registered pure functions
	if _, ok := x.eng.nativeFns[name]; ok {
		if r, ok := x.tryNative(name, fn, args); ok {
			return r
		}
	}
	x.depth++
	if x.depth > x.eng.maxDepth {
		panic(&pathEnd{"bound-hit: recursion depth " + name})
	}
	x.stack = append(x.stack, fn)
	x.funcsSeen[fn] = true
	fr := &frame{fn: fn, env: make(map[ssa.Value]Value, 32)}
	for i, p := range fn.Params {
		fr.env[p] = args[i]
	}
	for i, fvar := range fn.FreeVars {
		fr.env[fvar] = bind[i]
	}
	defer func() {
		x.depth--
		x.stack = x.stack[:len(x.stack)-1]
		if r := recover(); r != nil {
			gp, isGo := r.(*goPanic)
			if !isGo || len(fr.defers) == 0 {
				panic(r)
			}
			// run deferred calls while panicking
			saved := x.panicking
			x.panicking = gp
			x.recovered = false
			x.runDefers(fr)
			rec := x.recovered
			x.panicking = saved
			x.recovered = false
			if !rec {
				panic(gp)
			}
			// recovered: results are the named results (fn.Recover block) or zero
			if fn.Recover != nil {
				ret = x.runBlocks(fr, fn.Recover)
			} else {
				ret = x.zeroResults(fn)
			}
		}
	}()
	return x.runBlocks(fr, fn.Blocks[0])
}

func (x *Exec) zeroResults(fn *ssa.Function) Value {
	res := fn.Signature.Results()
	switch res.Len() {
	case 0:
		return nil
	case 1:
		return zeroValue(res.At(0).Type())
	}
	return zeroValue(res)
}

func (x *Exec) runDefers(fr *frame) {
	for len(fr.defers) > 0 {
		d := fr.defers[len(fr.defers)-1]
		fr.defers = fr.defers[:len(fr.defers)-1]
		x.invoke(d.fn, d.args, d.call)
	}
}

func (x *Exec) invoke(fn Value, args []Value, site *ssa.CallCommon) Value {
	switch f := fn.(type) {
	case *FuncVal:
		return x.call(f, args, site)
	}
	panic(unsupported(fmt.Sprintf("invoke of %T", fn)))
}

func (x *Exec) runBlocks(fr *frame, b *ssa.BasicBlock) Value {
	var prev *ssa.BasicBlock
	for {
		next, done := x.runBlock(fr, b, prev)
		if done {
			return fr.result
		}
		prev, b = b, next
	}
}

func (x *Exec) get(fr *frame, v ssa.Value) Value {
	switch c := v.(type) {
	case *ssa.Const:
		return x.constValue(c)
	case *ssa.Global:
		return mkPtr(x.eng.global(x, c))
	case *ssa.Function:
		return &FuncVal{Fn: c}
	case *ssa.Builtin:
		return &FuncVal{Builtin: c}
	}
	r, ok := fr.env[v]
	if !ok {
		panic(fmt.Sprintf("engine bug: no value for %s (%T) in %s", v.Name(), v, fr.fn))
	}
	return r
}

func (x *Exec) constValue(c *ssa.Const) Value {
	t := c.Type()
	if c.Value == nil {
		return zeroValue(t)
	}
	switch u := t.Underlying().(type) {
	case *types.Basic:
		switch {
		case u.Info()&types.IsString != 0:
			return mkStr(constant.StringVal(c.Value))
		case u.Info()&types.IsBoolean != 0:
			return mkBool(constant.BoolVal(c.Value))
		case isInt(u):
			w, sg := intWidth(u)
			if sg {
				return mkBV(w, uint64(c.Int64()))
			}
			return mkBV(w, c.Uint64())
		case u.Info()&types.IsFloat != 0:
			f := c.Float64()
			if u.Kind() == types.Float32 {
				return mkF32(float32(f))
			}
			return mkF64(f)
		case u.Info()&types.IsComplex != 0:
			cv := c.Complex128()
			return &StructVal{F: []Value{mkF64(real(cv)), mkF64(imag(cv))}}
		}
	case *types.TypeParam:
		panic(unsupported("const of type parameter"))
	}
	panic(unsupported("constant of type " + t.String()))
}

func (x *Exec) runBlock(fr *frame, b *ssa.BasicBlock, prev *ssa.BasicBlock) (*ssa.BasicBlock, bool) {
	// phis first (parallel assignment)
	idx := 0
	if prev != nil {
		pi := -1
		for i, p := range b.Preds {
			if p == prev {
				pi = i
				break
			}
		}
		var phiVals []Value
		var phis []*ssa.Phi
		for _, ins := range b.Instrs {
			phi, ok := ins.(*ssa.Phi)
			if !ok {
				break
			}
			phis = append(phis, phi)
			phiVals = append(phiVals, x.get(fr, phi.Edges[pi]))
			idx++
		}
		for i, phi := range phis {
			fr.env[phi] = phiVals[i]
		}
	}
	for _, ins := range b.Instrs[idx:] {
		x.steps++
		if x.steps > x.eng.maxSteps {
			panic(&pathEnd{"bound-hit: step limit"})
		}
		if p := ins.Pos(); p.IsValid() {
			x.lastPos = p
		}
		switch i := ins.(type) {
		case *ssa.If:
			c := x.get(fr, i.Cond).(*Term)
			if x.decide(c) {
				return b.Succs[0], false
			}
			return b.Succs[1], false
		case *ssa.Jump:
			return b.Succs[0], false
		case *ssa.Return:
			switch len(i.Results) {
			case 0:
				fr.result = nil
			case 1:
				fr.result = x.get(fr, i.Results[0])
			default:
				tv := make(TupleVal, len(i.Results))
				for k, r := range i.Results {
					tv[k] = x.get(fr, r)
				}
				fr.result = tv
			}
			return nil, true
		case *ssa.Panic:
			v := x.get(fr, i.X)
			panic(&goPanic{val: v, desc: "explicit panic: " + describe(v) + x.where()})
		case *ssa.RunDefers:
			x.runDefers(fr)
		case *ssa.Defer:
			fn, args := x.prepareCall(fr, &i.Call)
			fr.defers = append(fr.defers, deferred{fn: fn, args: args, call: &i.Call})
		case *ssa.Go:
			panic(unsupported("go statement"))
		case *ssa.Store:
			p := x.get(fr, i.Addr).(*PtrVal)
			x.deref(p).Store(x.get(fr, i.Val))
		case *ssa.MapUpdate:
			x.mapUpdate(x.get(fr, i.Map).(*MapVal), x.get(fr, i.Key), x.get(fr, i.Value))
		case *ssa.DebugRef:
		case *ssa.Send:
			panic(unsupported("channel send"))
		case ssa.Value:
			fr.env[i] = x.evalValue(fr, i)
		default:
			panic(unsupported(fmt.Sprintf("instruction %T", ins)))
		}
	}
	panic("engine bug: block without terminator")
}

func (x *Exec) deref(p *PtrVal) Ref {
	if p.Nil.IsTrue() || p.R == nil {
		x.goPanicf("nil pointer dereference")
	}
	if !p.Nil.IsFalse() {
		if x.decide(p.Nil) {
			x.goPanicf("nil pointer dereference")
		}
	}
	return p.R
}

func (x *Exec) prepareCall(fr *frame, c *ssa.CallCommon) (Value, []Value) {
	var args []Value
	if c.IsInvoke() {
		recv := x.get(fr, c.Value).(*IfaceVal)
		if recv.T == nil {
			x.goPanicf("nil interface method call %s", c.Method.Name())
		}
		fn := x.eng.lookupMethod(recv.T, c.Method)
		if fn == nil {
			panic(unsupported("method lookup failed: " + recv.T.String() + "." + c.Method.Name()))
		}
		args = append(args, recv.V)
		for _, a := range c.Args {
			args = append(args, x.get(fr, a))
		}
		return &FuncVal{Fn: fn}, args
	}
	fn := x.get(fr, c.Value)
	for _, a := range c.Args {
		args = append(args, x.get(fr, a))
	}
	return fn, args
}

func (x *Exec) evalValue(fr *frame, v ssa.Value) Value {
	switch i := v.(type) {
	case *ssa.Alloc:
		t := i.Type().Underlying().(*types.Pointer).Elem()
		return mkPtr(&Cell{V: zeroValue(t)})
	case *ssa.BinOp:
		return x.binop(i.Op, x.get(fr, i.X), x.get(fr, i.Y), i.X.Type(), i.Y.Type())
	case *ssa.UnOp:
		return x.unop(fr, i)
	case *ssa.Call:
		fn, args := x.prepareCall(fr, &i.Call)
		return x.invoke(fn, args, &i.Call)
	case *ssa.ChangeInterface:
		return x.get(fr, i.X)
	case *ssa.ChangeType:
		return x.get(fr, i.X)
	case *ssa.Convert:
		return x.convert(x.get(fr, i.X), i.X.Type(), i.Type())
	case *ssa.MultiConvert:
		return x.convert(x.get(fr, i.X), i.X.Type(), i.Type())
	case *ssa.MakeInterface:
		return &IfaceVal{T: i.X.Type(), V: x.get(fr, i.X)}
	case *ssa.Extract:
		return x.get(fr, i.Tuple).(TupleVal)[i.Index]
	case *ssa.Field:
		return x.get(fr, i.X).(*StructVal).F[i.Field]
	case *ssa.FieldAddr:
		p := x.get(fr, i.X).(*PtrVal)
		return mkPtr(fieldRef{Base: x.deref(p), Idx: i.Field})
	case *ssa.Index:
		return x.index(x.get(fr, i.X), x.get(fr, i.Index).(*Term), i.Index.Type())
	case *ssa.IndexAddr:
		return x.indexAddr(x.get(fr, i.X), x.get(fr, i.Index).(*Term), i.Index.Type())
	case *ssa.Lookup:
		return x.lookup(x.get(fr, i.X), x.get(fr, i.Index), i)
	case *ssa.MakeClosure:
		bind := make([]Value, len(i.Bindings))
		for k, b := range i.Bindings {
			bind[k] = x.get(fr, b)
		}
		return &FuncVal{Fn: i.Fn.(*ssa.Function), Bind: bind}
	case *ssa.MakeMap:
		return &MapVal{M: &MapObj{KeyT: i.Type().Underlying().(*types.Map).Key()}}
	case *ssa.MakeSlice:
		n := int(x.concretizeInt(x.get(fr, i.Len).(*Term), 0, 16, true))
		c := int(x.concretizeInt(x.get(fr, i.Cap).(*Term), 0, 16, true))
		if n < 0 || c < n {
			x.goPanicf("makeslice: len out of range")
		}
		et := i.Type().Underlying().(*types.Slice).Elem()
		arr := &ArrayObj{E: make([]Value, c)}
		if c > 0 {
			z := zeroValue(et)
			for k := range arr.E {
				arr.E[k] = z
			}
		}
		return &SliceVal{A: arr, Len: n, Cap: c}
	case *ssa.MakeChan:
		return &ChanVal{}
	case *ssa.Next:
		return x.next(x.get(fr, i.Iter).(*iterVal), i)
	case *ssa.Range:
		return x.rangeOver(x.get(fr, i.X))
	case *ssa.Phi:
		panic("engine bug: phi in body")
	case *ssa.Slice:
		return x.sliceOp(fr, i)
	case *ssa.TypeAssert:
		return x.typeAssert(x.get(fr, i.X).(*IfaceVal), i)
	case *ssa.SliceToArrayPointer:
		panic(unsupported("SliceToArrayPointer"))
	}
	panic(unsupported(fmt.Sprintf("value instruction %T", v)))
}

func (x *Exec) unop(fr *frame, i *ssa.UnOp) Value {
	v := x.get(fr, i.X)
	switch i.Op {
	case token.MUL:
		p := v.(*PtrVal)
		r := x.deref(p).Load()
		return r
	case token.NOT:
		return tNot(v.(*Term))
	case token.SUB:
		t := v.(*Term)
		if t.S.K == KFP {
			return tFNeg(t)
		}
		return bvUn(OpNeg, t)
	case token.XOR:
		return bvUn(OpBNot, v.(*Term))
	case token.ARROW:
		panic(unsupported("channel receive"))
	}
	panic(unsupported("unop " + i.Op.String()))
}

// ---------------------------------------------------------------------------
// indexing

func (x *Exec) boundsCheck(idx *Term, signed bool, n int, what string) int {
	if idx.IsConst() {
		var k int64
		if signed {
			k = signExt(idx.Val, idx.S.W)
		} else {
			k = int64(idx.Val)
			if idx.Val > math.MaxInt64 {
				k = -1
			}
		}
		if k < 0 || k >= int64(n) {
			x.goPanicf("index out of range [%d] with length %d (%s)", k, n, what)
		}
		return int(k)
	}
	// symbolic index: fork on in-range values plus the out-of-range panic
	w := idx.S.W
	var inRange *Term
	if signed {
		inRange = tAnd(bvCmp(OpSLe, mkBV(w, 0), idx), bvCmp(OpSLt, idx, mkBV(w, uint64(n))))
	} else {
		inRange = bvCmp(OpULt, idx, mkBV(w, uint64(n)))
	}
	if !x.decide(inRange) {
		x.goPanicf("index out of range [symbolic] with length %d (%s)", n, what)
	}
	return int(x.concretizeInt(idx, 0, int64(n-1), signed))
}

func (x *Exec) index(c Value, idx *Term, it types.Type) Value {
	sg := isSigned(it)
	switch a := c.(type) {
	case *ArrayVal:
		k := x.boundsCheck(idx, sg, len(a.E), "array")
		return a.E[k]
	case *StrVal:
		alt := x.pickAlt(a)
		k := x.boundsCheck(idx, sg, alt.Len(), "string")
		return alt.Byte(k)
	}
	panic(unsupported(fmt.Sprintf("index of %T", c)))
}

func (x *Exec) indexAddr(c Value, idx *Term, it types.Type) Value {
	sg := isSigned(it)
	switch a := c.(type) {
	case *SliceVal:
		k := x.boundsCheck(idx, sg, a.Len, "slice")
		return mkPtr(elemRef{A: a.A, Idx: a.Off + k})
	case *PtrVal:
		r := x.deref(a)
		av := r.Load().(*ArrayVal)
		k := x.boundsCheck(idx, sg, len(av.E), "array")
		return mkPtr(arrElemRef{Base: r, Idx: k})
	}
	panic(unsupported(fmt.Sprintf("indexaddr of %T", c)))
}

func (x *Exec) sliceOp(fr *frame, i *ssa.Slice) Value {
	v := x.get(fr, i.X)
	geti := func(sv ssa.Value, def int) int {
		if sv == nil {
			return def
		}
		return int(x.concretizeInt(x.get(fr, sv).(*Term), 0, 64, true))
	}
	switch a := v.(type) {
	case *StrVal:
		alt := x.pickAlt(a)
		n := alt.Len()
		lo := geti(i.Low, 0)
		hi := geti(i.High, n)
		if lo < 0 || hi < lo || hi > n {
			x.goPanicf("slice bounds out of range [%d:%d] with length %d", lo, hi, n)
		}
		if alt.Sym == nil {
			return mkStr(alt.S[lo:hi])
		}
		return mkStrBytes(alt.Sym[lo:hi])
	case *SliceVal:
		lo := geti(i.Low, 0)
		hi := geti(i.High, a.Len)
		mx := geti(i.Max, a.Cap)
		if lo < 0 || hi < lo || hi > a.Cap || mx > a.Cap || mx < hi {
			x.goPanicf("slice bounds out of range [%d:%d:%d] with capacity %d", lo, hi, mx, a.Cap)
		}
		if a.Nil && lo == 0 && hi == 0 {
			return &SliceVal{Nil: true}
		}
		return &SliceVal{A: a.A, Off: a.Off + lo, Len: hi - lo, Cap: mx - lo}
	case *PtrVal:
		r := x.deref(a)
		av := r.Load().(*ArrayVal)
		// share storage: replace the cell content by an array whose element slice is the
		// backing store of the new slice; later element writes through arrElemRef copy,
		// so this is only faithful for the (dominant) variadic-call pattern where the
		// array is not written again through the pointer.
		n := len(av.E)
		lo := geti(i.Low, 0)
		hi := geti(i.High, n)
		mx := geti(i.Max, n)
		if lo < 0 || hi < lo || hi > n || mx > n || mx < hi {
			x.goPanicf("slice bounds out of range [%d:%d] with length %d", lo, hi, n)
		}
		// the slice shares its storage with a fresh copy of the array that replaces the old
		// value behind the pointer: writes through the slice (copy(e.buf[:], src), append into
		// spare capacity) are seen through the pointer; other holders of the old array value
		// are not affected. A later element write through the pointer copies again.
		nav := &ArrayVal{E: make([]Value, n)}
		copy(nav.E, av.E)
		stored := true
		func() {
			defer func() {
				if recover() != nil {
					stored = false // frozen (init-time) storage: fall back to a private copy
				}
			}()
			r.Store(nav)
		}()
		obj := &ArrayObj{E: nav.E}
		if !stored {
			obj = &ArrayObj{E: make([]Value, n)}
			copy(obj.E, av.E)
		}
		return &SliceVal{A: obj, Off: lo, Len: hi - lo, Cap: mx - lo}
	}
	panic(unsupported(fmt.Sprintf("slice of %T", v)))
}

// ---------------------------------------------------------------------------
// maps

func (x *Exec) keyEqual(a, b Value, kt types.Type) *Term {
	return x.equalValues(a, b, kt)
}

func (x *Exec) mapFind(m *MapObj, k Value) int {
	for i, e := range m.E {
		if x.decide(x.keyEqual(e.K, k, m.KeyT)) {
			return i
		}
	}
	return -1
}

func (x *Exec) mapUpdate(m *MapVal, k, v Value) {
	if m.M == nil {
		x.goPanicf("assignment to entry in nil map")
	}
	if m.M.Frozen {
		panic(unsupported("store to frozen (init-time) map"))
	}
	if i := x.mapFind(m.M, k); i >= 0 {
		m.M.E[i].V = v
		return
	}
	m.M.E = append(m.M.E, MapEntry{K: k, V: v})
}

func (x *Exec) lookup(c Value, k Value, i *ssa.Lookup) Value {
	switch m := c.(type) {
	case *MapVal:
		vt := i.X.Type().Underlying().(*types.Map).Elem()
		if m.M != nil {
			if r, ok := x.mergedLookup(m.M, k, vt, i.CommaOk); ok {
				return r
			}
		}
		var val Value
		found := false
		if m.M != nil {
			if j := x.mapFind(m.M, k); j >= 0 {
				val, found = m.M.E[j].V, true
			}
		}
		if !found {
			val = zeroValue(vt)
		}
		if i.CommaOk {
			return TupleVal{val, mkBool(found)}
		}
		return val
	case *StrVal:
		return x.index(m, k.(*Term), i.Index.Type())
	}
	panic(unsupported(fmt.Sprintf("lookup in %T", c)))
}

// mergedLookup answers a lookup with a symbolic key without forking when the map
// values are scalars or strings: the result is an ite-chain over the entries.
func (x *Exec) mergedLookup(m *MapObj, k Value, vt types.Type, commaOk bool) (Value, bool) {
	if len(m.E) == 0 {
		return nil, false
	}
	eqs := make([]*Term, len(m.E))
	anySym := false
	for i, e := range m.E {
		eqs[i] = x.keyEqual(e.K, k, m.KeyT)
		if eqs[i].IsTrue() {
			return nil, false // definite hit: ordinary path is cheap
		}
		if !eqs[i].IsConst() {
			anySym = true
		}
	}
	if !anySym {
		return nil, false
	}
	found := TFalse
	for _, q := range eqs {
		found = tOr(found, q)
	}
	zero := zeroValue(vt)
	switch zt := zero.(type) {
	case *Term:
		r := zt
		for i := len(m.E) - 1; i >= 0; i-- {
			if eqs[i].IsFalse() {
				continue
			}
			r = tIte(eqs[i], m.E[i].V.(*Term), r)
		}
		if commaOk {
			return TupleVal{r, found}, true
		}
		return r, true
	case *StrVal:
		r := &StrVal{}
		none := tNot(found)
		for i, e := range m.E {
			if eqs[i].IsFalse() {
				continue
			}
			sv := e.V.(*StrVal)
			if sv.Opaque {
				return nil, false
			}
			// keys are pairwise distinct, so the eqs are mutually exclusive
			for _, a := range sv.Alts {
				r.Alts = append(r.Alts, StrAlt{G: tAnd(eqs[i], a.G), S: a.S, Sym: a.Sym})
			}
		}
		r.Alts = append(r.Alts, StrAlt{G: none, S: ""})
		if len(r.Alts) > 64 {
			return nil, false
		}
		if commaOk {
			return TupleVal{r, found}, true
		}
		return r, true
	}
	return nil, false
}

type iterVal struct {
	isStr   bool
	entries []MapEntry
	str     StrAlt
	pos     int
}

// mapSiteCounts: with vMapOrderSiteIn only the range statements of functions of one package
// (prefix) are numbered as sites
func (x *Exec) mapSiteCounts() bool {
	if x.mapPkg == "" {
		return true
	}
	if len(x.stack) == 0 {
		return false
	}
	fn := x.stack[len(x.stack)-1]
	for fn.Parent() != nil {
		fn = fn.Parent()
	}
	if fn.Pkg == nil {
		if o := fn.Origin(); o != nil && o.Pkg != nil {
			return strings.HasPrefix(o.Pkg.Pkg.Path(), x.mapPkg)
		}
		return false
	}
	return strings.HasPrefix(fn.Pkg.Pkg.Path(), x.mapPkg)
}

func (x *Exec) rangeOver(c Value) Value {
	switch m := c.(type) {
	case *MapVal:
		it := &iterVal{}
		if m.M != nil {
			n := len(m.M.E)
			it.entries = make([]MapEntry, n)
			copy(it.entries, m.M.E)
			site := -1
			if n > 1 && x.mapSiteCounts() {
				site = x.mapSites
				x.mapSites++
			}
			if n > 1 && (x.mapFree || site == x.mapSite) {
				r := x.choose(n, nil)
				x.rotations = append(x.rotations, fmt.Sprintf("site%d:rot%d/%d", site, r, n))
				rot := make([]MapEntry, 0, n)
				rot = append(rot, it.entries[r:]...)
				rot = append(rot, it.entries[:r]...)
				it.entries = rot
			}
		}
		return it
	case *StrVal:
		return &iterVal{isStr: true, str: x.pickAlt(m)}
	}
	panic(unsupported(fmt.Sprintf("range over %T", c)))
}

func (x *Exec) next(it *iterVal, i *ssa.Next) Value {
	if it.isStr {
		n := it.str.Len()
		if it.pos >= n {
			return TupleVal{TFalse, mkBV(64, 0), mkBV(32, 0)}
		}
		start := it.pos
		r, size := x.decodeRune(it.str, it.pos)
		it.pos += size
		return TupleVal{TTrue, mkBV(64, uint64(start)), r}
	}
	if it.pos >= len(it.entries) {
		return TupleVal{TFalse, nil, nil}
	}
	e := it.entries[it.pos]
	it.pos++
	return TupleVal{TTrue, e.K, e.V}
}

// decodeRune decodes one UTF-8 sequence at position p. Symbolic bytes must be ASCII
// (decided through the path condition); anything else is unsupported.
func (x *Exec) decodeRune(a StrAlt, p int) (*Term, int) {
	b := a.Byte(p)
	if !b.IsConst() {
		if x.decide(bvCmp(OpULt, b, mkBV(8, 0x80))) {
			return tZExt(b, 32), 1
		}
		panic(unsupported("symbolic non-ASCII byte in rune decoding"))
	}
	if b.Val < 0x80 {
		return mkBV(32, b.Val), 1
	}
	// concrete multi-byte: need following bytes concrete
	buf := []byte{byte(b.Val)}
	for k := p + 1; k < a.Len() && k < p+4; k++ {
		nb := a.Byte(k)
		if !nb.IsConst() {
			break
		}
		buf = append(buf, byte(nb.Val))
	}
	r, size := decodeRuneBytes(buf)
	return mkBV(32, uint64(uint32(r))), size
}

// ---------------------------------------------------------------------------
// type assertions

func (x *Exec) typeAssert(v *IfaceVal, i *ssa.TypeAssert) Value {
	ok := false
	var res Value
	if v.T != nil {
		if types.IsInterface(i.AssertedType) {
			it := i.AssertedType.Underlying().(*types.Interface)
			if x.eng.implements(v.T, it) {
				ok = true
				res = v
			}
		} else if types.Identical(v.T, i.AssertedType) {
			ok = true
			res = v.V
		}
	}
	if i.CommaOk {
		if !ok {
			res = zeroValue(i.AssertedType)
		}
		return TupleVal{res, mkBool(ok)}
	}
	if !ok {
		tn := "nil"
		if v.T != nil {
			tn = v.T.String()
		}
		x.goPanicf("interface conversion: interface is %s, not %s", tn, i.AssertedType.String())
	}
	return res
}

func (x *Exec) renderArgs(args []Value) string {
	var parts []string
	for _, a := range args {
		switch t := a.(type) {
		case *StrVal:
			if t.IsConcrete() {
				parts = append(parts, t.Conc())
			} else {
				parts = append(parts, "<str>")
			}
		case *Term:
			parts = append(parts, describe(t))
		case *SliceVal:
			// byte slices: render concrete content, else identity
			conc := t.Len > 0
			buf := make([]byte, 0, t.Len)
			for i := 0; i < t.Len && conc; i++ {
				b, ok := t.At(i).(*Term)
				if !ok || !b.IsConst() || b.S.W != 8 {
					conc = false
					break
				}
				buf = append(buf, byte(b.Val))
			}
			if conc {
				parts = append(parts, string(buf))
			} else {
				parts = append(parts, fmt.Sprintf("<slice len=%d>", t.Len))
			}
		default:
			parts = append(parts, "_")
		}
	}
	return strings.Join(parts, "|")
}

// cannedResult converts harness-supplied interface{} values into the callee's result shape
func (x *Exec) cannedResult(fn *ssa.Function, canned []Value) Value {
	res := fn.Signature.Results()
	conv := func(i int) Value {
		rt := res.At(i).Type()
		if i >= len(canned) {
			return zeroValue(rt)
		}
		iv, ok := canned[i].(*IfaceVal)
		if !ok {
			return canned[i]
		}
		if iv.T == nil {
			return zeroValue(rt)
		}
		if types.IsInterface(rt) {
			return iv
		}
		return iv.V
	}
	switch res.Len() {
	case 0:
		return nil
	case 1:
		return conv(0)
	}
	tv := make(TupleVal, res.Len())
	for i := range tv {
		tv[i] = conv(i)
	}
	return tv
}
