package main

// Concrete fast path: call the real (linked) function when all arguments are concrete.

import (
	"fmt"
	"go/types"
	"net/url"
	"path"
	"path/filepath"
	"reflect"
	"strconv"
	"strings"
	"unicode"
	"unicode/utf8"
	"unsafe"

	"github.com/go-openapi/jsonreference"
	"github.com/go-openapi/spec"
	"github.com/go-openapi/swag"
	"golang.org/x/tools/go/ssa"
)

func registerNatives(e *Engine) {
	r := func(name string, f interface{}) { e.nativeFns[name] = reflect.ValueOf(f) }
	r("strings.Split", strings.Split)
	r("strings.SplitN", strings.SplitN)
	r("strings.SplitAfter", strings.SplitAfter)
	r("strings.SplitAfterN", strings.SplitAfterN)
	r("strings.Fields", strings.Fields)
	r("strings.Join", strings.Join)
	r("strings.ReplaceAll", strings.ReplaceAll)
	r("strings.Replace", strings.Replace)
	r("strings.TrimSpace", strings.TrimSpace)
	r("strings.TrimPrefix", strings.TrimPrefix)
	r("strings.TrimSuffix", strings.TrimSuffix)
	r("strings.Trim", strings.Trim)
	r("strings.TrimLeft", strings.TrimLeft)
	r("strings.TrimRight", strings.TrimRight)
	r("strings.HasPrefix", strings.HasPrefix)
	r("strings.HasSuffix", strings.HasSuffix)
	r("strings.Contains", strings.Contains)
	r("strings.ContainsAny", strings.ContainsAny)
	r("strings.ContainsRune", strings.ContainsRune)
	r("strings.Index", strings.Index)
	r("strings.IndexByte", strings.IndexByte)
	r("strings.IndexAny", strings.IndexAny)
	r("strings.IndexRune", strings.IndexRune)
	r("strings.LastIndex", strings.LastIndex)
	r("strings.LastIndexByte", strings.LastIndexByte)
	r("strings.ToLower", strings.ToLower)
	r("strings.ToUpper", strings.ToUpper)
	r("strings.Title", strings.Title)
	r("strings.EqualFold", strings.EqualFold)
	r("strings.Repeat", strings.Repeat)
	r("strings.Count", strings.Count)
	r("strings.Compare", strings.Compare)
	r("strconv.Itoa", strconv.Itoa)
	r("strconv.Quote", strconv.Quote)
	r("strconv.CanBackquote", strconv.CanBackquote)
	r("strconv.FormatInt", strconv.FormatInt)
	r("strconv.FormatUint", strconv.FormatUint)
	r("strconv.FormatFloat", strconv.FormatFloat)
	r("strconv.FormatBool", strconv.FormatBool)
	r("path.Base", path.Base)
	r("path.Ext", path.Ext)
	r("path.Join", path.Join)
	r("path.Clean", path.Clean)
	r("path.Dir", path.Dir)
	r("path/filepath.Base", filepath.Base)
	r("path/filepath.Ext", filepath.Ext)
	r("path/filepath.Join", filepath.Join)
	r("path/filepath.Clean", filepath.Clean)
	r("path/filepath.Dir", filepath.Dir)
	r("path/filepath.ToSlash", filepath.ToSlash)
	r("path/filepath.FromSlash", filepath.FromSlash)
	r("unicode.IsLetter", unicode.IsLetter)
	r("unicode.IsDigit", unicode.IsDigit)
	r("unicode.IsUpper", unicode.IsUpper)
	r("unicode.IsLower", unicode.IsLower)
	r("unicode.IsSpace", unicode.IsSpace)
	r("unicode.IsNumber", unicode.IsNumber)
	r("unicode.IsPunct", unicode.IsPunct)
	r("unicode.ToUpper", unicode.ToUpper)
	r("unicode.ToLower", unicode.ToLower)
	r("unicode.ToTitle", unicode.ToTitle)
	r("unicode/utf8.ValidString", utf8.ValidString)
	r("unicode/utf8.RuneLen", utf8.RuneLen)
	registerExtraNatives(e, r)
}

func toNative(v Value, rt reflect.Type) (reflect.Value, bool) {
	switch rt.Kind() {
	case reflect.String:
		s, ok := v.(*StrVal)
		if !ok || !s.IsConcrete() {
			return reflect.Value{}, false
		}
		return reflect.ValueOf(s.Conc()).Convert(rt), true
	case reflect.Bool:
		t, ok := v.(*Term)
		if !ok || !t.IsConst() {
			return reflect.Value{}, false
		}
		return reflect.ValueOf(t.Val == 1).Convert(rt), true
	case reflect.Int, reflect.Int8, reflect.Int16, reflect.Int32, reflect.Int64:
		t, ok := v.(*Term)
		if !ok || !t.IsConst() {
			return reflect.Value{}, false
		}
		return reflect.ValueOf(signExt(t.Val, t.S.W)).Convert(rt), true
	case reflect.Uint, reflect.Uint8, reflect.Uint16, reflect.Uint32, reflect.Uint64:
		t, ok := v.(*Term)
		if !ok || !t.IsConst() {
			return reflect.Value{}, false
		}
		return reflect.ValueOf(t.Val).Convert(rt), true
	case reflect.Float64, reflect.Float32:
		t, ok := v.(*Term)
		if !ok || !t.IsConst() {
			return reflect.Value{}, false
		}
		return reflect.ValueOf(t.fval()).Convert(rt), true
	case reflect.Struct:
		sv, ok := v.(*StructVal)
		if !ok || len(sv.F) != rt.NumField() {
			return reflect.Value{}, false
		}
		out := reflect.New(rt).Elem()
		for i := range sv.F {
			fv, ok := toNative(sv.F[i], rt.Field(i).Type)
			if !ok {
				return reflect.Value{}, false
			}
			f := out.Field(i)
			reflect.NewAt(f.Type(), unsafe.Pointer(f.UnsafeAddr())).Elem().Set(fv)
		}
		return out, true
	case reflect.Ptr:
		pv, ok := v.(*PtrVal)
		if !ok || (!pv.Nil.IsTrue() && !pv.Nil.IsFalse()) {
			return reflect.Value{}, false
		}
		if pv.R == nil || pv.Nil.IsTrue() {
			return reflect.Zero(rt), true
		}
		ev, ok := toNative(pv.R.Load(), rt.Elem())
		if !ok {
			return reflect.Value{}, false
		}
		out := reflect.New(rt.Elem())
		out.Elem().Set(ev)
		return out, true
	case reflect.Slice:
		s, ok := v.(*SliceVal)
		if !ok {
			return reflect.Value{}, false
		}
		if s.Nil {
			return reflect.Zero(rt), true
		}
		out := reflect.MakeSlice(rt, s.Len, s.Len)
		for i := 0; i < s.Len; i++ {
			ev, ok := toNative(s.At(i), rt.Elem())
			if !ok {
				return reflect.Value{}, false
			}
			out.Index(i).Set(ev)
		}
		return out, true
	}
	return reflect.Value{}, false
}

func (x *Exec) fromNative(rv reflect.Value, t types.Type) Value {
	switch u := t.Underlying().(type) {
	case *types.Basic:
		switch {
		case u.Info()&types.IsString != 0:
			return mkStr(rv.String())
		case u.Info()&types.IsBoolean != 0:
			return mkBool(rv.Bool())
		case isInt(u):
			w, sg := intWidth(u)
			if sg {
				return mkBV(w, uint64(rv.Int()))
			}
			return mkBV(w, rv.Uint())
		case u.Kind() == types.Float32:
			return mkF32(float32(rv.Float()))
		case u.Kind() == types.Float64:
			return mkF64(rv.Float())
		}
	case *types.Slice:
		if rv.IsNil() {
			return &SliceVal{Nil: true}
		}
		vs := make([]Value, rv.Len())
		for i := range vs {
			vs[i] = x.fromNative(rv.Index(i), u.Elem())
		}
		return &SliceVal{A: &ArrayObj{E: vs}, Len: len(vs), Cap: len(vs)}
	case *types.Array:
		vs := make([]Value, rv.Len())
		for i := range vs {
			vs[i] = x.fromNative(rv.Index(i), u.Elem())
		}
		return &ArrayVal{E: vs}
	case *types.Struct:
		s := &StructVal{F: make([]Value, u.NumFields())}
		for i := range s.F {
			s.F[i] = x.fromNative(rv.Field(i), u.Field(i).Type())
		}
		return s
	case *types.Pointer:
		if rv.IsNil() {
			return nilPtr
		}
		return mkPtr(&Cell{V: x.fromNative(rv.Elem(), u.Elem())})
	case *types.Map:
		if rv.IsNil() {
			return &MapVal{}
		}
		m := &MapObj{KeyT: u.Key()}
		it := rv.MapRange()
		for it.Next() {
			m.E = append(m.E, MapEntry{K: x.fromNative(it.Key(), u.Key()), V: x.fromNative(it.Value(), u.Elem())})
		}
		return &MapVal{M: m}
	case *types.Interface:
		if rv.IsNil() {
			return nilIface
		}
		if rv.Type().Implements(reflect.TypeOf((*error)(nil)).Elem()) || rv.Elem().Type().Implements(reflect.TypeOf((*error)(nil)).Elem()) {
			if rv.CanInterface() {
				if er, ok := rv.Interface().(error); ok {
					return x.errorValue(er.Error())
				}
			}
			return x.opaqueError()
		}
		el := rv.Elem()
		switch el.Kind() {
		case reflect.String:
			return &IfaceVal{T: types.Typ[types.String], V: mkStr(el.String())}
		case reflect.Bool:
			return &IfaceVal{T: types.Typ[types.Bool], V: mkBool(el.Bool())}
		case reflect.Int:
			return &IfaceVal{T: types.Typ[types.Int], V: mkBV(64, uint64(el.Int()))}
		case reflect.Int64:
			return &IfaceVal{T: types.Typ[types.Int64], V: mkBV(64, uint64(el.Int()))}
		case reflect.Float64:
			return &IfaceVal{T: types.Typ[types.Float64], V: mkF64(el.Float())}
		}
	case *types.Signature:
		if rv.IsNil() {
			return &FuncVal{}
		}
	}
	panic(unsupported(fmt.Sprintf("cannot import native %s as %s", rv.Type(), t)))
}

func (x *Exec) tryNative(name string, fn *ssa.Function, args []Value) (Value, bool) {
	nf, ok := x.eng.nativeFns[name]
	if !ok {
		return nil, false
	}
	ft := nf.Type()
	if ft.NumIn() != len(args) {
		return nil, false
	}
	in := make([]reflect.Value, len(args))
	for i, a := range args {
		v, ok := toNative(a, ft.In(i))
		if !ok {
			return nil, false
		}
		in[i] = v
	}
	var out []reflect.Value
	if ft.IsVariadic() {
		out = nf.CallSlice(in)
	} else {
		out = nf.Call(in)
	}
	x.stubsHit["native:"+name] = true
	res := fn.Signature.Results()
	switch res.Len() {
	case 0:
		return nil, true
	case 1:
		return x.fromNative(out[0], res.At(0).Type()), true
	}
	tv := make(TupleVal, res.Len())
	for i := range tv {
		tv[i] = x.fromNative(out[i], res.At(i).Type())
	}
	return tv, true
}

func registerExtraNatives(e *Engine, r func(string, interface{})) {
	r("github.com/go-openapi/spec.MustCreateRef", spec.MustCreateRef)
	r("github.com/go-openapi/jsonreference.MustCreateRef", jsonreference.MustCreateRef)
	r("github.com/go-openapi/jsonreference.New", jsonreference.New)
	r("(*net/url.URL).String", (*url.URL).String)
	r("net/url.Parse", url.Parse)
	r("github.com/go-openapi/swag.ToGoName", swag.ToGoName)
	r("github.com/go-openapi/swag.ToVarName", swag.ToVarName)
	r("github.com/go-openapi/swag.ToFileName", swag.ToFileName)
	r("github.com/go-openapi/swag.ToJSONName", swag.ToJSONName)
	r("github.com/go-openapi/swag.ToHumanNameLower", swag.ToHumanNameLower)
	r("github.com/go-openapi/swag.ToHumanNameTitle", swag.ToHumanNameTitle)
	r("github.com/go-openapi/swag.ToCommandName", swag.ToCommandName)
	r("github.com/go-openapi/swag.Camelize", swag.Camelize)
	r("github.com/go-openapi/swag.ContainsStrings", swag.ContainsStrings)
	r("github.com/go-openapi/swag.ContainsStringsCI", swag.ContainsStringsCI)
	r("github.com/go-openapi/swag.ConvertBool", swag.ConvertBool)
	r("github.com/go-openapi/swag.ConvertInt64", swag.ConvertInt64)
	r("github.com/go-openapi/swag.ConvertFloat64", swag.ConvertFloat64)
	r("strconv.Unquote", strconv.Unquote)
	r("strconv.Atoi", strconv.Atoi)
	r("strconv.ParseInt", strconv.ParseInt)
	r("strconv.ParseUint", strconv.ParseUint)
	r("strconv.ParseFloat", strconv.ParseFloat)
	r("strconv.ParseBool", strconv.ParseBool)
	r("(reflect.StructTag).Get", func(t string, key string) string { return reflect.StructTag(t).Get(key) })
}
