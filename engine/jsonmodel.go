package main

// A model of encoding/json good enough to run GENERATED (un)marshallers symbolically.
//
// JSON texts are real byte slices: every structural byte (braces, brackets, quotes, colons,
// commas, digits of numbers, literals) is concrete, only the CONTENT bytes of strings may be
// symbolic - and then they are assumed (decided through the path condition) to be bytes that
// encoding/json writes and reads verbatim. Numbers and booleans must be concrete when written
// (booleans fork). With that restriction a text has one concrete structure per path, so it can be
// parsed by an ordinary parser, and code that looks at the text itself (swag.ConcatJSON, len(b) < 3)
// just works. The Go value <-> text mapping follows go/types (struct tags, embedded fields,
// omitempty, ,string, Marshaler / Unmarshaler / TextMarshaler methods, which are interpreted).
//
// Not modelled: HTML escaping of symbolic bytes (they are assumed plain), floats that need the
// exponent form, map keys other than strings, cyclic values, anonymous-field conflict rules,
// reuse of slice elements by Unmarshal (every element starts from its zero value).

import (
	"encoding/json"
	"fmt"
	"go/types"
	"reflect"
	"sort"
	"strconv"
	"strings"

	"golang.org/x/tools/go/ssa"
)

func bytesOfStr(s string) []*Term {
	out := make([]*Term, len(s))
	for i := 0; i < len(s); i++ {
		out[i] = mkBV(8, uint64(s[i]))
	}
	return out
}

func sliceOfBytes(bs []*Term) *SliceVal {
	vs := make([]Value, len(bs))
	for i, b := range bs {
		vs[i] = b
	}
	return mkSlice(vs)
}

// a byte json writes and reads back verbatim inside a string
func plainJSONByte(b *Term) *Term {
	c := func(ch byte) *Term { return mkBV(8, uint64(ch)) }
	return tAnd(tAnd(bvCmp(OpULe, c(0x20), b), bvCmp(OpULe, b, c(0x7e))),
		tAnd(tAnd(tNot(tEq(b, c('"'))), tNot(tEq(b, c('\\')))), tAnd(tAnd(tNot(tEq(b, c('<'))), tNot(tEq(b, c('>')))), tNot(tEq(b, c('&'))))))
}

type jsonTagInfo struct {
	name                   string
	omitempty, str, ignore bool
}

func parseJSONTagOf(tag string, fieldName string) jsonTagInfo {
	t := reflect.StructTag(tag).Get("json")
	if t == "-" {
		return jsonTagInfo{ignore: true}
	}
	parts := strings.Split(t, ",")
	ti := jsonTagInfo{name: parts[0]}
	if ti.name == "" {
		ti.name = fieldName
	}
	for _, o := range parts[1:] {
		switch o {
		case "omitempty":
			ti.omitempty = true
		case "string":
			ti.str = true
		}
	}
	return ti
}

type jsonField struct {
	path []int // field index path (through embedded structs)
	t    types.Type
	tag  jsonTagInfo
}

// the JSON members of a struct type: exported tagged fields, embedded structs flattened
func jsonFieldsOf(st *types.Struct, prefix []int, out []jsonField) []jsonField {
	for i := 0; i < st.NumFields(); i++ {
		f := st.Field(i)
		tag := st.Tag(i)
		path := append(append([]int{}, prefix...), i)
		if f.Embedded() && reflect.StructTag(tag).Get("json") == "" {
			ft := f.Type()
			if p, ok := ft.Underlying().(*types.Pointer); ok {
				ft = p.Elem()
			}
			if est, ok := ft.Underlying().(*types.Struct); ok {
				if _, isPtr := f.Type().Underlying().(*types.Pointer); isPtr {
					panic(unsupported("json model: embedded pointer to struct"))
				}
				out = jsonFieldsOf(est, path, out)
				continue
			}
		}
		if !f.Exported() {
			continue
		}
		ti := parseJSONTagOf(tag, f.Name())
		if ti.ignore {
			continue
		}
		out = append(out, jsonField{path: path, t: f.Type(), tag: ti})
	}
	return out
}

func fieldAt(v Value, path []int) Value {
	for _, i := range path {
		v = v.(*StructVal).F[i]
	}
	return v
}

// ---- Marshal ------------------------------------------------------------------------------------

func (x *Exec) hasMethod(t types.Type, name string) *ssa.Function {
	return x.eng.methodByName(t, name)
}

// jsonMarshal returns the text of v (of static type t), or a Go error value
func (x *Exec) jsonMarshal(v Value, t types.Type) ([]*Term, Value) {
	if iv, ok := v.(*IfaceVal); ok {
		if iv.T == nil {
			return bytesOfStr("null"), nil
		}
		return x.jsonMarshal(iv.V, iv.T)
	}
	// Marshaler / TextMarshaler on the value type (value receivers and, for pointers, pointer receivers)
	if _, isPtr := t.Underlying().(*types.Pointer); !isPtr || true {
		if pv, ok := v.(*PtrVal); ok {
			if x.decide(pv.Nil) {
				return bytesOfStr("null"), nil
			}
		}
		if fn := x.hasMethod(t, "MarshalJSON"); fn != nil && fn.Signature.Params().Len() == 0 {
			res := x.callFunction(fn, []Value{v}, nil).(TupleVal)
			if e := res[1].(*IfaceVal); e.T != nil {
				return nil, e
			}
			sl := res[0].(*SliceVal)
			out := make([]*Term, sl.Len)
			for i := range out {
				out[i] = sl.At(i).(*Term)
			}
			return out, nil
		}
		if fn := x.hasMethod(t, "MarshalText"); fn != nil && fn.Signature.Params().Len() == 0 {
			res := x.callFunction(fn, []Value{v}, nil).(TupleVal)
			if e := res[1].(*IfaceVal); e.T != nil {
				return nil, e
			}
			sl := res[0].(*SliceVal)
			bs := make([]*Term, sl.Len)
			for i := range bs {
				bs[i] = sl.At(i).(*Term)
			}
			return x.jsonQuote(bs), nil
		}
	}
	switch u := t.Underlying().(type) {
	case *types.Basic:
		switch {
		case u.Info()&types.IsBoolean != 0:
			if x.decide(v.(*Term)) {
				return bytesOfStr("true"), nil
			}
			return bytesOfStr("false"), nil
		case u.Info()&types.IsInteger != 0:
			tv := v.(*Term)
			if !tv.IsConst() {
				panic(unsupported("json model: marshalling a symbolic integer"))
			}
			if isSigned(t) {
				return bytesOfStr(strconv.FormatInt(int64(signExt(tv.Val, tv.S.W)), 10)), nil
			}
			return bytesOfStr(strconv.FormatUint(tv.Val, 10)), nil
		case u.Info()&types.IsFloat != 0:
			tv := v.(*Term)
			if !tv.IsConst() {
				panic(unsupported("json model: marshalling a symbolic float"))
			}
			var b []byte
			if u.Kind() == types.Float32 {
				b, _ = json.Marshal(float32(tv.fval()))
			} else {
				b, _ = json.Marshal(tv.fval())
			}
			return bytesOfStr(string(b)), nil
		case u.Info()&types.IsString != 0:
			sv := v.(*StrVal)
			if sv.Opaque {
				// formatted message texts (error bodies): their content is not modelled
				return bytesOfStr(`"(formatted text)"`), nil
			}
			if sv.IsConcrete() {
				b, _ := json.Marshal(sv.Conc())
				return bytesOfStr(string(b)), nil
			}
			al := x.pickAlt(sv)
			return x.jsonQuote(al.Bytes()), nil
		}
	case *types.Pointer:
		pv := v.(*PtrVal)
		if x.decide(pv.Nil) {
			return bytesOfStr("null"), nil
		}
		return x.jsonMarshal(x.deref(pv).Load(), u.Elem())
	case *types.Struct:
		fields := jsonFieldsOf(u, nil, nil)
		out := bytesOfStr("{")
		first := true
		for _, f := range fields {
			fv := fieldAt(v, f.path)
			if f.tag.omitempty && x.decide(x.jsonEmpty(fv, f.t)) {
				continue
			}
			b, err := x.jsonMarshal(fv, f.t)
			if err != nil {
				return nil, err
			}
			if f.tag.str {
				if _, isBasic := f.t.Underlying().(*types.Basic); isBasic {
					b = x.jsonQuote(b)
				}
			}
			if !first {
				out = append(out, bytesOfStr(",")...)
			}
			first = false
			kb, _ := json.Marshal(f.tag.name)
			out = append(out, bytesOfStr(string(kb)+":")...)
			out = append(out, b...)
		}
		return append(out, bytesOfStr("}")...), nil
	case *types.Slice:
		sv := v.(*SliceVal)
		if sv.Nil {
			return bytesOfStr("null"), nil
		}
		if eb, ok := u.Elem().Underlying().(*types.Basic); ok && eb.Kind() == types.Uint8 {
			panic(unsupported("json model: marshalling []byte"))
		}
		out := bytesOfStr("[")
		for i := 0; i < sv.Len; i++ {
			b, err := x.jsonMarshal(sv.At(i), u.Elem())
			if err != nil {
				return nil, err
			}
			if i > 0 {
				out = append(out, bytesOfStr(",")...)
			}
			out = append(out, b...)
		}
		return append(out, bytesOfStr("]")...), nil
	case *types.Array:
		av := v.(*ArrayVal)
		out := bytesOfStr("[")
		for i, e := range av.E {
			b, err := x.jsonMarshal(e, u.Elem())
			if err != nil {
				return nil, err
			}
			if i > 0 {
				out = append(out, bytesOfStr(",")...)
			}
			out = append(out, b...)
		}
		return append(out, bytesOfStr("]")...), nil
	case *types.Map:
		mv := v.(*MapVal)
		if mv.M == nil {
			return bytesOfStr("null"), nil
		}
		type kv struct {
			k string
			v Value
		}
		var es []kv
		for _, e := range mv.M.E {
			ks, ok := e.K.(*StrVal)
			if !ok || !ks.IsConcrete() {
				panic(unsupported("json model: marshalling a map with symbolic or non-string keys"))
			}
			es = append(es, kv{ks.Conc(), e.V})
		}
		sort.Slice(es, func(i, j int) bool { return es[i].k < es[j].k })
		out := bytesOfStr("{")
		for i, e := range es {
			b, err := x.jsonMarshal(e.v, u.Elem())
			if err != nil {
				return nil, err
			}
			if i > 0 {
				out = append(out, bytesOfStr(",")...)
			}
			kb, _ := json.Marshal(e.k)
			out = append(out, bytesOfStr(string(kb)+":")...)
			out = append(out, b...)
		}
		return append(out, bytesOfStr("}")...), nil
	case *types.Interface:
		iv := v.(*IfaceVal)
		if iv.T == nil {
			return bytesOfStr("null"), nil
		}
		return x.jsonMarshal(iv.V, iv.T)
	}
	panic(unsupported("json model: marshalling " + t.String()))
}

// jsonQuote: "..." around content bytes; symbolic bytes are constrained to plain ones
func (x *Exec) jsonQuote(bs []*Term) []*Term {
	allConst := true
	for _, b := range bs {
		if !b.IsConst() {
			allConst = false
		}
	}
	if allConst {
		raw := make([]byte, len(bs))
		for i, b := range bs {
			raw[i] = byte(b.Val)
		}
		q, _ := json.Marshal(string(raw))
		return bytesOfStr(string(q))
	}
	out := bytesOfStr("\"")
	for _, b := range bs {
		if !x.decide(plainJSONByte(b)) {
			panic(unsupported("json model: a symbolic byte that JSON would escape"))
		}
		out = append(out, b)
	}
	return append(out, bytesOfStr("\"")...)
}

// omitempty: false, 0, nil pointer/interface, empty array, slice, map, string
func (x *Exec) jsonEmpty(v Value, t types.Type) *Term {
	switch tv := v.(type) {
	case *Term:
		if tv.S.K == KFP {
			return tFCmp(OpFEq, tv, zeroOfSort(tv.S))
		}
		return tEq(tv, zeroOfSort(tv.S))
	case *StrVal:
		return strEq(tv, mkStr(""))
	case *PtrVal:
		return tv.Nil
	case *SliceVal:
		return mkBool(tv.Len == 0)
	case *MapVal:
		return mkBool(tv.M == nil || len(tv.M.E) == 0)
	case *IfaceVal:
		return mkBool(tv.T == nil)
	case *ArrayVal:
		return mkBool(len(tv.E) == 0)
	}
	return TFalse
}

// ---- parsing -------------------------------------------------------------------------------------------

type jnode struct {
	kind       byte // 'o' 'a' 's' 'n' 't' 'f' 'z'(null)
	start, end int  // byte range of the whole value
	keys       []string
	vals       []*jnode
	str        []*Term // decoded content of a string
	num        string
}

type jparser struct {
	x   *Exec
	b   []*Term
	pos int
}

func (p *jparser) fail(msg string) { panic(&jsonSyntax{msg}) }

type jsonSyntax struct{ msg string }

func (p *jparser) peek() (byte, bool) {
	if p.pos >= len(p.b) {
		return 0, false
	}
	t := p.b[p.pos]
	if !t.IsConst() {
		panic(unsupported("json model: a symbolic byte where the structure of the text is decided"))
	}
	return byte(t.Val), true
}

func (p *jparser) ws() {
	for {
		c, ok := p.peek()
		if !ok || !(c == ' ' || c == '\t' || c == '\n' || c == '\r') {
			return
		}
		p.pos++
	}
}

func (p *jparser) expect(c byte) {
	g, ok := p.peek()
	if !ok || g != c {
		p.fail(fmt.Sprintf("expected %q", c))
	}
	p.pos++
}

func (p *jparser) value() *jnode {
	p.ws()
	c, ok := p.peek()
	if !ok {
		p.fail("unexpected end of JSON input")
	}
	n := &jnode{start: p.pos}
	switch {
	case c == '{':
		n.kind = 'o'
		p.pos++
		p.ws()
		if c2, _ := p.peek(); c2 == '}' {
			p.pos++
			break
		}
		for {
			p.ws()
			k := p.str()
			ks := make([]byte, len(k))
			for i, t := range k {
				if !t.IsConst() {
					panic(unsupported("json model: symbolic object key"))
				}
				ks[i] = byte(t.Val)
			}
			p.ws()
			p.expect(':')
			v := p.value()
			n.keys = append(n.keys, string(ks))
			n.vals = append(n.vals, v)
			p.ws()
			c3, _ := p.peek()
			if c3 == ',' {
				p.pos++
				continue
			}
			p.expect('}')
			break
		}
	case c == '[':
		n.kind = 'a'
		p.pos++
		p.ws()
		if c2, _ := p.peek(); c2 == ']' {
			p.pos++
			break
		}
		for {
			n.vals = append(n.vals, p.value())
			p.ws()
			c3, _ := p.peek()
			if c3 == ',' {
				p.pos++
				continue
			}
			p.expect(']')
			break
		}
	case c == '"':
		n.kind = 's'
		n.str = p.str()
	case c == 't':
		n.kind = 't'
		p.lit("true")
	case c == 'f':
		n.kind = 'f'
		p.lit("false")
	case c == 'n':
		n.kind = 'z'
		p.lit("null")
	case c == '-' || (c >= '0' && c <= '9'):
		n.kind = 'n'
		s := p.pos
		for {
			d, ok := p.peek()
			if !ok || !(d == '-' || d == '+' || d == '.' || d == 'e' || d == 'E' || (d >= '0' && d <= '9')) {
				break
			}
			p.pos++
		}
		raw := make([]byte, p.pos-s)
		for i := range raw {
			raw[i] = byte(p.b[s+i].Val)
		}
		n.num = string(raw)
	default:
		p.fail(fmt.Sprintf("invalid character %q looking for beginning of value", c))
	}
	n.end = p.pos
	return n
}

func (p *jparser) lit(w string) {
	for i := 0; i < len(w); i++ {
		p.expect(w[i])
	}
}

// str parses a string literal; concrete content is unescaped with the real decoder, symbolic
// content bytes are required to be plain
func (p *jparser) str() []*Term {
	p.expect('"')
	start := p.pos
	allConst := true
	for {
		if p.pos >= len(p.b) {
			p.fail("unexpected end of JSON input")
		}
		t := p.b[p.pos]
		if t.IsConst() {
			if byte(t.Val) == '"' {
				break
			}
			if byte(t.Val) == '\\' {
				p.pos++ // skip the escaped byte
			}
		} else {
			allConst = false
			if !p.x.decide(plainJSONByte(t)) {
				panic(unsupported("json model: a symbolic byte that ends or escapes a JSON string"))
			}
		}
		p.pos++
	}
	content := p.b[start:p.pos]
	p.pos++ // closing quote
	if allConst {
		raw := make([]byte, 0, len(content)+2)
		raw = append(raw, '"')
		for _, t := range content {
			raw = append(raw, byte(t.Val))
		}
		raw = append(raw, '"')
		var s string
		if err := json.Unmarshal(raw, &s); err != nil {
			p.fail(err.Error())
		}
		return bytesOfStr(s)
	}
	for _, t := range content {
		if t.IsConst() && byte(t.Val) == '\\' {
			panic(unsupported("json model: escapes next to symbolic bytes"))
		}
	}
	return append([]*Term{}, content...)
}

func (x *Exec) jsonParse(b []*Term) (n *jnode, errMsg string) {
	defer func() {
		if r := recover(); r != nil {
			if js, ok := r.(*jsonSyntax); ok {
				n, errMsg = nil, js.msg
				return
			}
			panic(r)
		}
	}()
	p := &jparser{x: x, b: b}
	n = p.value()
	p.ws()
	if p.pos != len(b) {
		p.fail("invalid character after top-level value")
	}
	return n, ""
}

// ---- Unmarshal ---------------------------------------------------------------------------------------

type jsonDecodeOpts struct{ useNumber bool }

// jsonAssign stores the value described by n into ref (of type t). Returns a Go error value or nil.
func (x *Exec) jsonAssign(b []*Term, n *jnode, ref Ref, t types.Type, opts jsonDecodeOpts) Value {
	// Unmarshaler on *T
	pt := types.NewPointer(t)
	if fn := x.hasMethod(pt, "UnmarshalJSON"); fn != nil {
		if n.kind == 'z' {
			if _, isPtr := t.Underlying().(*types.Pointer); isPtr {
				ref.Store(zeroValue(t))
				return nil
			}
		}
		res := x.callFunction(fn, []Value{mkPtr(ref), sliceOfBytes(append([]*Term{}, b[n.start:n.end]...))}, nil)
		if e := res.(*IfaceVal); e.T != nil {
			return e
		}
		return nil
	}
	if p, isPtr := t.Underlying().(*types.Pointer); isPtr {
		if n.kind == 'z' {
			ref.Store(zeroValue(t))
			return nil
		}
		cur := ref.Load().(*PtrVal)
		var target Ref
		if cur.R != nil && cur.Nil.IsFalse() {
			target = x.deref(cur)
		} else {
			c := &Cell{V: zeroValue(p.Elem())}
			target = c
			ref.Store(mkPtr(c))
		}
		return x.jsonAssign(b, n, target, p.Elem(), opts)
	}
	if n.kind == 's' {
		if fn := x.hasMethod(pt, "UnmarshalText"); fn != nil {
			res := x.callFunction(fn, []Value{mkPtr(ref), sliceOfBytes(append([]*Term{}, n.str...))}, nil)
			if e := res.(*IfaceVal); e.T != nil {
				return e
			}
			return nil
		}
	}
	mismatch := func() Value {
		return x.errorValue("json: cannot unmarshal into Go value of type " + t.String())
	}
	switch u := t.Underlying().(type) {
	case *types.Basic:
		if n.kind == 'z' {
			return nil
		}
		switch {
		case u.Info()&types.IsBoolean != 0:
			if n.kind != 't' && n.kind != 'f' {
				return mismatch()
			}
			ref.Store(mkBool(n.kind == 't'))
		case u.Info()&types.IsInteger != 0:
			if n.kind != 'n' {
				return mismatch()
			}
			w, signed := intWidth(u)
			if signed {
				i, err := strconv.ParseInt(n.num, 10, w)
				if err != nil {
					return mismatch()
				}
				ref.Store(mkBV(w, uint64(i)))
			} else {
				i, err := strconv.ParseUint(n.num, 10, w)
				if err != nil {
					return mismatch()
				}
				ref.Store(mkBV(w, i))
			}
		case u.Info()&types.IsFloat != 0:
			if n.kind != 'n' {
				return mismatch()
			}
			f, err := strconv.ParseFloat(n.num, 64)
			if err != nil {
				return mismatch()
			}
			if u.Kind() == types.Float32 {
				ref.Store(mkFP(SF32, float64(float32(f))))
			} else {
				ref.Store(mkFP(SF64, f))
			}
		case u.Info()&types.IsString != 0:
			if t.String() == "encoding/json.Number" && n.kind == 'n' {
				ref.Store(mkStr(n.num))
				return nil
			}
			if n.kind != 's' {
				return mismatch()
			}
			ref.Store(mkStrBytes(append([]*Term{}, n.str...)))
		default:
			return mismatch()
		}
		return nil
	case *types.Struct:
		if n.kind == 'z' {
			return nil
		}
		if n.kind != 'o' {
			return mismatch()
		}
		fields := jsonFieldsOf(u, nil, nil)
		for i, k := range n.keys {
			var hit *jsonField
			for j := range fields {
				if fields[j].tag.name == k {
					hit = &fields[j]
					break
				}
			}
			if hit == nil {
				for j := range fields {
					if strings.EqualFold(fields[j].tag.name, k) {
						hit = &fields[j]
						break
					}
				}
			}
			if hit == nil {
				continue
			}
			var fr Ref = ref
			for _, idx := range hit.path {
				fr = fieldRef{Base: fr, Idx: idx}
			}
			val := n.vals[i]
			if hit.tag.str && val.kind == 's' {
				if _, isBasic := hit.t.Underlying().(*types.Basic); isBasic {
					inner, msg := x.jsonParse(val.str)
					if inner == nil {
						return x.errorValue("json: invalid use of ,string struct tag: " + msg)
					}
					if err := x.jsonAssign(val.str, inner, fr, hit.t, opts); err != nil {
						return err
					}
					continue
				}
			}
			if err := x.jsonAssign(b, val, fr, hit.t, opts); err != nil {
				return err
			}
		}
		return nil
	case *types.Slice:
		if n.kind == 'z' {
			ref.Store(zeroValue(t))
			return nil
		}
		if n.kind != 'a' {
			return mismatch()
		}
		cells := make([]Value, len(n.vals))
		arr := &ArrayObj{E: cells}
		for i := range n.vals {
			cells[i] = zeroValue(u.Elem())
		}
		for i, ev := range n.vals {
			if err := x.jsonAssign(b, ev, elemRef{A: arr, Idx: i}, u.Elem(), opts); err != nil {
				return err
			}
		}
		ref.Store(&SliceVal{A: arr, Len: len(cells), Cap: len(cells)})
		return nil
	case *types.Map:
		if n.kind == 'z' {
			ref.Store(zeroValue(t))
			return nil
		}
		if n.kind != 'o' {
			return mismatch()
		}
		kb, ok := u.Key().Underlying().(*types.Basic)
		if !ok || kb.Info()&types.IsString == 0 {
			panic(unsupported("json model: unmarshalling a map with non-string keys"))
		}
		mv := ref.Load().(*MapVal)
		var entries []MapEntry
		if mv.M != nil {
			entries = append(entries, mv.M.E...)
		}
		for i, k := range n.keys {
			c := &Cell{V: zeroValue(u.Elem())}
			if err := x.jsonAssign(b, n.vals[i], c, u.Elem(), opts); err != nil {
				return err
			}
			replaced := false
			for j := range entries {
				if ks, ok := entries[j].K.(*StrVal); ok && ks.IsConcrete() && ks.Conc() == k {
					entries[j].V = c.V
					replaced = true
				}
			}
			if !replaced {
				entries = append(entries, MapEntry{K: mkStr(k), V: c.V})
			}
		}
		ref.Store(&MapVal{M: &MapObj{E: entries, KeyT: u.Key()}})
		return nil
	case *types.Interface:
		if u.NumMethods() != 0 {
			return mismatch()
		}
		ref.Store(x.jsonGeneric(n, opts))
		return nil
	}
	panic(unsupported("json model: unmarshalling into " + t.String()))
}

// the value encoding/json stores into an interface{}
func (x *Exec) jsonGeneric(n *jnode, opts jsonDecodeOpts) Value {
	strT := types.Typ[types.String]
	anyT := types.NewInterfaceType(nil, nil)
	switch n.kind {
	case 'z':
		return nilIface
	case 't', 'f':
		return &IfaceVal{T: types.Typ[types.Bool], V: mkBool(n.kind == 't')}
	case 's':
		return &IfaceVal{T: strT, V: mkStrBytes(append([]*Term{}, n.str...))}
	case 'n':
		if opts.useNumber {
			if nt := x.eng.findType("encoding/json", "Number"); nt != nil {
				return &IfaceVal{T: nt, V: mkStr(n.num)}
			}
		}
		f, _ := strconv.ParseFloat(n.num, 64)
		return &IfaceVal{T: types.Typ[types.Float64], V: mkFP(SF64, f)}
	case 'a':
		vs := make([]Value, len(n.vals))
		for i, e := range n.vals {
			vs[i] = x.jsonGeneric(e, opts)
		}
		return &IfaceVal{T: types.NewSlice(anyT), V: mkSlice(vs)}
	default:
		var es []MapEntry
		for i, k := range n.keys {
			es = append(es, MapEntry{K: mkStr(k), V: x.jsonGeneric(n.vals[i], opts)})
		}
		return &IfaceVal{T: types.NewMap(strT, anyT), V: &MapVal{M: &MapObj{E: es, KeyT: strT}}}
	}
}

func termsOfSlice(v Value) []*Term {
	sl := v.(*SliceVal)
	out := make([]*Term, sl.Len)
	for i := range out {
		out[i] = sl.At(i).(*Term)
	}
	return out
}

func (x *Exec) jsonUnmarshal(data []*Term, target Value, opts jsonDecodeOpts) Value {
	iv := target.(*IfaceVal)
	if iv.T == nil {
		return x.errorValue("json: Unmarshal(nil)")
	}
	pt, ok := iv.T.Underlying().(*types.Pointer)
	if !ok {
		return x.errorValue("json: Unmarshal(non-pointer " + iv.T.String() + ")")
	}
	pv := iv.V.(*PtrVal)
	if x.decide(pv.Nil) {
		return x.errorValue("json: Unmarshal(nil " + iv.T.String() + ")")
	}
	n, msg := x.jsonParse(data)
	if n == nil {
		return x.errorValue(msg)
	}
	if err := x.jsonAssign(data, n, x.deref(pv), pt.Elem(), opts); err != nil {
		return err
	}
	return nilIface
}

// registerJSONModel installs the model for the engine (only for checks that ask for it: the
// planner checks keep the cheaper special cases)
func registerJSONModel(e *Engine) {
	// checks that run whole request paths also need package time's pure functions (strfmt's init
	// builds time values); clock and timers have no Go bodies and stay unsupported
	delete(e.denyPkgs, "time")
	e.intrinsics["time.runtimeNano"] = func(x *Exec, fn *ssa.Function, a []Value) (Value, bool) { return mkBV(64, 1), true }
	e.intrinsics["time.now"] = func(x *Exec, fn *ssa.Function, a []Value) (Value, bool) {
		return TupleVal{mkBV(64, 1700000000), mkBV(32, 0), mkBV(64, 1)}, true
	}
	e.intrinsics["encoding/json.Marshal"] = func(x *Exec, fn *ssa.Function, a []Value) (Value, bool) {
		iv := a[0].(*IfaceVal)
		if iv.T == nil {
			return TupleVal{sliceOfBytes(bytesOfStr("null")), nilIface}, true
		}
		b, err := x.jsonMarshal(iv.V, iv.T)
		if err != nil {
			return TupleVal{&SliceVal{Nil: true}, err}, true
		}
		return TupleVal{sliceOfBytes(b), nilIface}, true
	}
	e.intrinsics["encoding/json.Unmarshal"] = func(x *Exec, fn *ssa.Function, a []Value) (Value, bool) {
		return x.jsonUnmarshal(termsOfSlice(a[0]), a[1], jsonDecodeOpts{}), true
	}
	// Decoder: a handle on the reader; Decode reads everything and takes one value
	e.intrinsics["encoding/json.NewDecoder"] = func(x *Exec, fn *ssa.Function, a []Value) (Value, bool) {
		return mkPtr(&Cell{V: &NativeVal{V: &jsonDecoderState{reader: a[0]}}}), true
	}
	dec := func(x *Exec, v Value) *jsonDecoderState {
		nv, ok := x.deref(v.(*PtrVal)).Load().(*NativeVal)
		if !ok {
			panic(unsupported("json.Decoder is not a modelled handle"))
		}
		return nv.V.(*jsonDecoderState)
	}
	e.intrinsics["(*encoding/json.Decoder).UseNumber"] = func(x *Exec, fn *ssa.Function, a []Value) (Value, bool) {
		dec(x, a[0]).useNumber = true
		return nil, true
	}
	e.intrinsics["(*encoding/json.Decoder).Decode"] = func(x *Exec, fn *ssa.Function, a []Value) (Value, bool) {
		d := dec(x, a[0])
		ra := x.eng.findFunc("io", "ReadAll")
		if ra == nil {
			panic(unsupported("io.ReadAll not found"))
		}
		res := x.callFunction(ra, []Value{d.reader}, nil).(TupleVal)
		if e := res[1].(*IfaceVal); e.T != nil {
			return e, true
		}
		data := termsOfSlice(res[0])
		if len(data) == 0 {
			return x.ioEOF(), true
		}
		return x.jsonUnmarshal(data, a[1], jsonDecodeOpts{useNumber: d.useNumber}), true
	}
	// Encoder: Encode = Marshal + newline, written through the writer's own Write method
	e.intrinsics["encoding/json.NewEncoder"] = func(x *Exec, fn *ssa.Function, a []Value) (Value, bool) {
		return mkPtr(&Cell{V: &NativeVal{V: &jsonEncoderState{writer: a[0]}}}), true
	}
	e.intrinsics["(*encoding/json.Encoder).SetEscapeHTML"] = func(x *Exec, fn *ssa.Function, a []Value) (Value, bool) { return nil, true }
	e.intrinsics["(*encoding/json.Encoder).SetIndent"] = func(x *Exec, fn *ssa.Function, a []Value) (Value, bool) { return nil, true }
	e.intrinsics["(*encoding/json.Encoder).Encode"] = func(x *Exec, fn *ssa.Function, a []Value) (Value, bool) {
		nv, ok := x.deref(a[0].(*PtrVal)).Load().(*NativeVal)
		if !ok {
			panic(unsupported("json.Encoder is not a modelled handle"))
		}
		st := nv.V.(*jsonEncoderState)
		iv := a[1].(*IfaceVal)
		var b []*Term
		if iv.T == nil {
			b = bytesOfStr("null")
		} else {
			var err Value
			b, err = x.jsonMarshal(iv.V, iv.T)
			if err != nil {
				return err, true
			}
		}
		b = append(b, mkBV(8, '\n'))
		w := st.writer.(*IfaceVal)
		if w.T == nil {
			x.goPanicf("invalid memory address or nil pointer dereference (json.Encoder on a nil writer)")
		}
		wf := x.eng.methodByName(w.T, "Write")
		if wf == nil {
			panic(unsupported("json model: writer without Write method"))
		}
		res := x.callFunction(wf, []Value{w.V, sliceOfBytes(b)}, nil).(TupleVal)
		return res[1], true
	}
	// swag's name provider (reflection over struct tags): the JSON member names of the subject's struct type
	e.intrinsics["(*github.com/go-openapi/swag.NameProvider).GetJSONNames"] = func(x *Exec, fn *ssa.Function, a []Value) (Value, bool) {
		iv := a[1].(*IfaceVal)
		if iv.T == nil {
			return &SliceVal{Nil: true}, true
		}
		t := iv.T
		if p, ok := t.Underlying().(*types.Pointer); ok {
			t = p.Elem()
		}
		st, ok := t.Underlying().(*types.Struct)
		if !ok {
			return &SliceVal{Nil: true}, true
		}
		var names []string
		for _, f := range jsonFieldsOf(st, nil, nil) {
			names = append(names, f.tag.name)
		}
		return mkStrSlice(names), true
	}
	// Indent: a scan over the text; structural bytes are concrete, symbolic bytes are string content
	e.intrinsics["encoding/json.Indent"] = func(x *Exec, fn *ssa.Function, a []Value) (Value, bool) {
		out, msg := jsonIndentTerms(termsOfSlice(a[1]), cstr(x, a[2]), cstr(x, a[3]))
		if msg != "" {
			return x.errorValue(msg), true
		}
		wf := x.eng.methodByName(fn.Params[0].Type(), "Write")
		if wf == nil {
			panic(unsupported("json.Indent: destination without Write method"))
		}
		res := x.callFunction(wf, []Value{a[0], sliceOfBytes(out)}, nil).(TupleVal)
		return res[1], true
	}
	e.intrinsics["encoding/json.MarshalIndent"] = func(x *Exec, fn *ssa.Function, a []Value) (Value, bool) {
		iv := a[0].(*IfaceVal)
		b := bytesOfStr("null")
		if iv.T != nil {
			var err Value
			b, err = x.jsonMarshal(iv.V, iv.T)
			if err != nil {
				return TupleVal{&SliceVal{Nil: true}, err}, true
			}
		}
		out, msg := jsonIndentTerms(b, cstr(x, a[1]), cstr(x, a[2]))
		if msg != "" {
			return TupleVal{&SliceVal{Nil: true}, x.errorValue(msg)}, true
		}
		return TupleVal{sliceOfBytes(out), nilIface}, true
	}
	e.allowFns["(*github.com/go-openapi/swag.File).Read"] = true
	e.allowFns["(*github.com/go-openapi/swag.File).Close"] = true
	e.allowFns["(*encoding/json.RawMessage).UnmarshalJSON"] = true
	e.allowFns["(encoding/json.RawMessage).MarshalJSON"] = true
	for _, n := range []string{"WriteJSON", "ReadJSON", "ConcatJSON"} {
		e.allowFns["github.com/go-openapi/swag."+n] = true
	}
}

// jsonIndentTerms follows encoding/json's appendIndent on a text of the model (concrete structure,
// possibly symbolic string content)
func jsonIndentTerms(src []*Term, prefix, indent string) ([]*Term, string) {
	var out []*Term
	newline := func(depth int) {
		out = append(out, mkBV(8, '\n'))
		out = append(out, bytesOfStr(prefix)...)
		for i := 0; i < depth; i++ {
			out = append(out, bytesOfStr(indent)...)
		}
	}
	needIndent, depth, inStr, esc := false, 0, false, false
	for _, t := range src {
		conc := t.IsConst()
		c := byte(0)
		if conc {
			c = byte(t.Val)
		}
		if inStr {
			out = append(out, t)
			if !conc {
				continue // symbolic content byte: plain by the model's assumption
			}
			switch {
			case esc:
				esc = false
			case c == '\\':
				esc = true
			case c == '"':
				inStr = false
			}
			continue
		}
		if !conc {
			return nil, "json.Indent: symbolic byte outside a string"
		}
		if c == ' ' || c == '\t' || c == '\r' || c == '\n' {
			continue
		}
		if needIndent && c != ']' && c != '}' {
			needIndent = false
			depth++
			newline(depth)
		}
		switch c {
		case '"':
			inStr = true
			out = append(out, t)
		case '{', '[':
			needIndent = true
			out = append(out, t)
		case ',':
			out = append(out, t)
			newline(depth)
		case ':':
			out = append(out, t, mkBV(8, ' '))
		case '}', ']':
			if needIndent {
				needIndent = false
			} else {
				depth--
				newline(depth)
			}
			out = append(out, t)
		default:
			out = append(out, t)
		}
	}
	return out, ""
}

type jsonEncoderState struct{ writer Value }

type jsonDecoderState struct {
	reader    Value
	useNumber bool
}


// the io.EOF sentinel itself (callers compare with ==)
func (x *Exec) ioEOF() Value {
	for _, p := range x.eng.prog.AllPackages() {
		if p.Pkg.Path() == "io" {
			if g, ok := p.Members["EOF"].(*ssa.Global); ok {
				return x.eng.global(x, g).Load()
			}
		}
	}
	return x.errorValue("EOF")
}
