package main

// A small in-memory model of the file system behind package os, used by harnesses that reason
// about one step of the generator against an arbitrary state of the target directory. The harness
// seeds it with vFSFile / vFSDir / vFSSymlink; natively the same scenario is built in a real
// temporary directory, so counterexamples replay against the real os.

import (
	"go/types"
	"strconv"
	"io/fs"
	"path/filepath"
	"sort"
	"strings"

	"golang.org/x/tools/go/ssa"
)

type vfsNode struct {
	kind   byte // 'f' file, 'd' dir, 'l' symlink
	data   []*Term
	target string
}

type vfsHandle struct {
	path   string
	pos    int
	append bool
	closed bool
}

const vfsNotExist = "file does not exist"

func (x *Exec) vfsResolve(p string, follow bool) (string, *vfsNode) {
	p = filepath.Clean(p)
	for i := 0; i < 8; i++ {
		n, ok := x.vfs[p]
		if !ok {
			return p, nil
		}
		if n.kind != 'l' || !follow {
			return p, n
		}
		t := n.target
		if !filepath.IsAbs(t) {
			t = filepath.Join(filepath.Dir(p), t)
		}
		p = filepath.Clean(t)
	}
	return p, nil
}

func (x *Exec) vfsParentOK(p string) bool {
	d := filepath.Dir(p)
	if d == "." || d == "/" || d == "" {
		return true
	}
	_, n := x.vfsResolve(d, true)
	return n != nil && n.kind == 'd'
}

func bytesOf(v Value) []*Term {
	s := v.(*SliceVal)
	out := make([]*Term, s.Len)
	for i := range out {
		out[i] = s.At(i).(*Term)
	}
	return out
}

func (x *Exec) vfsFileInfo(name string, n *vfsNode) Value {
	t := x.eng.findType("os", "fileStat")
	st := t.Underlying().(*types.Struct)
	sv := zeroValue(t).(*StructVal)
	nf := &StructVal{F: append([]Value{}, sv.F...)}
	mode := uint32(0o644)
	switch n.kind {
	case 'd':
		mode = uint32(fs.ModeDir) | 0o755
	case 'l':
		mode = uint32(fs.ModeSymlink) | 0o777
	}
	for i := 0; i < st.NumFields(); i++ {
		switch st.Field(i).Name() {
		case "name":
			nf.F[i] = mkStr(filepath.Base(name))
		case "size":
			nf.F[i] = mkBV(64, uint64(len(n.data)))
		case "mode":
			nf.F[i] = mkBV(32, uint64(mode))
		}
	}
	return &IfaceVal{T: types.NewPointer(t), V: mkPtr(&Cell{V: nf})}
}

func (x *Exec) vfsLog(s string) { x.calllog = append(x.calllog, s) }

func registerVFS(e *Engine) {
	tp := e.target.Pkg.Path() + "."
	prim := func(name string, f func(x *Exec, a []Value) Value) {
		e.intrinsics[tp+name] = func(x *Exec, fn *ssa.Function, a []Value) (Value, bool) { return f(x, a), true }
	}
	ensure := func(x *Exec) {
		if x.vfs == nil {
			x.vfs = map[string]*vfsNode{}
		}
	}
	prim("vFSInit", func(x *Exec, a []Value) Value { ensure(x); return nil })
	prim("vFSFile", func(x *Exec, a []Value) Value {
		ensure(x)
		x.vfs[filepath.Clean(cstr(x, a[0]))] = &vfsNode{kind: 'f', data: x.pickAlt(a[1].(*StrVal)).Bytes()}
		return nil
	})
	prim("vFSDir", func(x *Exec, a []Value) Value {
		ensure(x)
		x.vfs[filepath.Clean(cstr(x, a[0]))] = &vfsNode{kind: 'd'}
		return nil
	})
	prim("vFSSymlink", func(x *Exec, a []Value) Value {
		ensure(x)
		x.vfs[filepath.Clean(cstr(x, a[0]))] = &vfsNode{kind: 'l', target: cstr(x, a[1])}
		return nil
	})
	prim("vFSRead", func(x *Exec, a []Value) Value {
		ensure(x)
		_, n := x.vfsResolve(cstr(x, a[0]), true)
		if n == nil || n.kind != 'f' {
			return TupleVal{mkStr(""), TFalse}
		}
		return TupleVal{mkStrBytes(n.data), TTrue}
	})
	prim("vFSList", func(x *Exec, a []Value) Value {
		ensure(x)
		var names []string
		for k, n := range x.vfs {
			names = append(names, string(n.kind)+":"+k)
		}
		sort.Strings(names)
		return mkStrSlice(names)
	})

	osf := func(name string, f func(x *Exec, a []Value) Value) {
		e.intrinsics[name] = func(x *Exec, fn *ssa.Function, a []Value) (Value, bool) {
			if x.vfs == nil {
				return nil, false
			}
			return f(x, a), true
		}
	}
	notExist := func(x *Exec) Value { return x.errorValue(vfsNotExist) }
	stat := func(follow bool) func(x *Exec, a []Value) Value {
		return func(x *Exec, a []Value) Value {
			p := cstr(x, a[0])
			rp, n := x.vfsResolve(p, follow)
			if n == nil {
				return TupleVal{nilIface, notExist(x)}
			}
			_ = rp
			return TupleVal{x.vfsFileInfo(p, n), nilIface}
		}
	}
	osf("os.Stat", stat(true))
	osf("os.Lstat", stat(false))
	osf("os.IsNotExist", func(x *Exec, a []Value) Value {
		iv := a[0].(*IfaceVal)
		if iv.T == nil {
			return TFalse
		}
		m := x.eng.methodByName(iv.T, "Error")
		if m == nil {
			return TFalse
		}
		s := x.callFunction(m, []Value{iv.V}, nil).(*StrVal)
		return mkBool(s.IsConcrete() && strings.Contains(s.Conc(), vfsNotExist))
	})
	osf("os.MkdirAll", func(x *Exec, a []Value) Value {
		p := filepath.Clean(cstr(x, a[0]))
		x.vfsLog("os.MkdirAll(" + p + ")")
		parts := strings.Split(p, string(filepath.Separator))
		cur := ""
		for i, part := range parts {
			if i == 0 && part == "" {
				cur = "/"
				continue
			}
			cur = filepath.Join(cur, part)
			_, n := x.vfsResolve(cur, true)
			if n == nil {
				x.vfs[cur] = &vfsNode{kind: 'd'}
			} else if n.kind != 'd' {
				return x.errorValue("mkdir " + cur + ": not a directory")
			}
		}
		return nilIface
	})
	osf("os.TempDir", func(x *Exec, a []Value) Value {
		if _, n := x.vfsResolve("/tmp", true); n == nil && x.vfs != nil {
			x.vfs["/tmp"] = &vfsNode{kind: 'd'}
		}
		return mkStr("/tmp")
	})
	// os.MkdirTemp(dir, pattern): a fresh directory nobody else knows (names are numbered per path)
	osf("os.MkdirTemp", func(x *Exec, a []Value) Value {
		dir, pat := cstr(x, a[0]), cstr(x, a[1])
		if dir == "" {
			dir = "/tmp"
		}
		if _, n := x.vfsResolve(dir, true); n == nil {
			x.vfs[filepath.Clean(dir)] = &vfsNode{kind: 'd'}
		}
		x.vfsTemp++
		name := strings.Replace(pat, "*", "", 1) + "v" + strconv.Itoa(x.vfsTemp)
		p := filepath.Join(dir, name)
		x.vfsLog("os.MkdirTemp(" + p + ")")
		x.vfs[p] = &vfsNode{kind: 'd'}
		return TupleVal{mkStr(p), nilIface}
	})
	write := func(x *Exec, name string, data []*Term, trunc, create, app bool, pos int) (int, Value) {
		rp, n := x.vfsResolve(name, true)
		if n == nil {
			if !create {
				return 0, notExist(x)
			}
			if !x.vfsParentOK(rp) {
				return 0, notExist(x)
			}
			n = &vfsNode{kind: 'f'}
			x.vfs[rp] = n
		}
		if n.kind == 'd' {
			return 0, x.errorValue("open " + rp + ": is a directory")
		}
		if trunc {
			n.data = nil
		}
		if app {
			pos = len(n.data)
		}
		nd := append([]*Term{}, n.data...)
		for len(nd) < pos {
			nd = append(nd, mkBV(8, 0))
		}
		for i, b := range data {
			if pos+i < len(nd) {
				nd[pos+i] = b
			} else {
				nd = append(nd, b)
			}
		}
		n.data = nd
		return pos + len(data), nilIface
	}
	osf("os.WriteFile", func(x *Exec, a []Value) Value {
		p := cstr(x, a[0])
		x.vfsLog("os.WriteFile(" + filepath.Clean(p) + ")")
		_, err := write(x, p, bytesOf(a[1]), true, true, false, 0)
		return err
	})
	osf("os.ReadFile", func(x *Exec, a []Value) Value {
		_, n := x.vfsResolve(cstr(x, a[0]), true)
		if n == nil || n.kind != 'f' {
			return TupleVal{&SliceVal{Nil: true}, notExist(x)}
		}
		vs := make([]Value, len(n.data))
		for i, b := range n.data {
			vs[i] = b
		}
		return TupleVal{mkSlice(vs), nilIface}
	})
	osf("os.Remove", func(x *Exec, a []Value) Value {
		p := filepath.Clean(cstr(x, a[0]))
		x.vfsLog("os.Remove(" + p + ")")
		if _, ok := x.vfs[p]; !ok {
			return notExist(x)
		}
		delete(x.vfs, p)
		return nilIface
	})
	osf("os.RemoveAll", func(x *Exec, a []Value) Value {
		p := filepath.Clean(cstr(x, a[0]))
		x.vfsLog("os.RemoveAll(" + p + ")")
		for k := range x.vfs {
			if k == p || strings.HasPrefix(k, p+"/") {
				delete(x.vfs, k)
			}
		}
		return nilIface
	})
	osf("os.Rename", func(x *Exec, a []Value) Value {
		from, to := filepath.Clean(cstr(x, a[0])), filepath.Clean(cstr(x, a[1]))
		x.vfsLog("os.Rename(" + from + "," + to + ")")
		n, ok := x.vfs[from]
		if !ok {
			return notExist(x)
		}
		if !x.vfsParentOK(to) {
			return notExist(x)
		}
		moved := map[string]*vfsNode{to: n}
		for k, v := range x.vfs {
			if strings.HasPrefix(k, from+"/") {
				moved[to+k[len(from):]] = v
			}
		}
		for k := range x.vfs {
			if k == from || strings.HasPrefix(k, from+"/") {
				delete(x.vfs, k)
			}
		}
		for k, v := range moved {
			x.vfs[k] = v
		}
		return nilIface
	})
	open := func(x *Exec, name string, flag int64) Value {
		const oCreate, oTrunc, oAppend, oExcl = 0x40, 0x200, 0x400, 0x80
		x.vfsLog("os.OpenFile(" + filepath.Clean(name) + ")")
		rp, n := x.vfsResolve(name, true)
		if n == nil {
			if flag&oCreate == 0 || !x.vfsParentOK(rp) {
				return TupleVal{nilPtr, notExist(x)}
			}
			x.vfs[rp] = &vfsNode{kind: 'f'}
		} else if flag&oExcl != 0 && flag&oCreate != 0 {
			return TupleVal{nilPtr, x.errorValue("open " + rp + ": file exists")}
		} else if n.kind == 'd' && flag&3 != 0 {
			return TupleVal{nilPtr, x.errorValue("open " + rp + ": is a directory")}
		}
		if flag&oTrunc != 0 {
			x.vfs[rp].data = nil
		}
		h := &vfsHandle{path: rp, append: flag&oAppend != 0}
		return TupleVal{mkPtr(&Cell{V: &NativeVal{V: h}}), nilIface}
	}
	osf("os.OpenFile", func(x *Exec, a []Value) Value { return open(x, cstr(x, a[0]), int64(cint(x, a[1]))) })
	osf("os.Create", func(x *Exec, a []Value) Value { return open(x, cstr(x, a[0]), 0x2|0x40|0x200) })
	osf("os.Open", func(x *Exec, a []Value) Value { return open(x, cstr(x, a[0]), 0) })
	osf("os.CreateTemp", func(x *Exec, a []Value) Value {
		dir, pat := cstr(x, a[0]), cstr(x, a[1])
		if dir == "" {
			dir = "/tmp"
		}
		if _, n := x.vfsResolve(dir, true); n == nil {
			x.vfs[filepath.Clean(dir)] = &vfsNode{kind: 'd'}
		}
		x.vfsTemp++
		name := strings.Replace(pat, "*", "", 1) + "v" + strconv.Itoa(x.vfsTemp)
		return open(x, filepath.Join(dir, name), 0x2|0x40|0x80)
	})
	handle := func(x *Exec, v Value) *vfsHandle {
		nv, ok := x.deref(v.(*PtrVal)).Load().(*NativeVal)
		if !ok {
			panic(unsupported("os.File is not a modelled handle"))
		}
		return nv.V.(*vfsHandle)
	}
	closedErr := func(x *Exec) Value { return x.errorValue("file already closed") }
	osf("(*os.File).Name", func(x *Exec, a []Value) Value { return mkStr(handle(x, a[0]).path) })
	wr := func(x *Exec, a []Value, data []*Term) Value {
		h := handle(x, a[0])
		if h.closed {
			return TupleVal{mkBV(64, 0), closedErr(x)}
		}
		np, err := write(x, h.path, data, false, false, h.append, h.pos)
		h.pos = np
		if iv := err.(*IfaceVal); iv.T != nil {
			return TupleVal{mkBV(64, 0), err}
		}
		return TupleVal{mkBV(64, uint64(len(data))), nilIface}
	}
	osf("(*os.File).Write", func(x *Exec, a []Value) Value { return wr(x, a, bytesOf(a[1])) })
	osf("(*os.File).WriteString", func(x *Exec, a []Value) Value { return wr(x, a, x.pickAlt(a[1].(*StrVal)).Bytes()) })
	// io.Copy(file, reader): the reader is drained by the real io.ReadAll; the text may contain
	// opaque (formatted) parts, so only the fact that the file was written is recorded
	osf("(*os.File).ReadFrom", func(x *Exec, a []Value) Value {
		h := handle(x, a[0])
		if iv, ok := a[1].(*IfaceVal); ok && iv.T == nil {
			x.goPanicf("invalid memory address or nil pointer dereference (io.Copy from a nil reader)")
		}
		ra := x.eng.findFunc("io", "ReadAll")
		if ra == nil {
			panic(unsupported("io.ReadAll not found"))
		}
		res := x.callFunction(ra, []Value{a[1]}, nil).(TupleVal)
		if h.closed {
			return TupleVal{mkBV(64, 0), closedErr(x)}
		}
		// the content is kept when it is plain bytes (texts with opaque, formatted parts are not)
		var data []*Term
		if sl, ok := res[0].(*SliceVal); ok && !sl.Nil {
			plain := true
			for i := 0; i < sl.Len; i++ {
				if _, isTerm := sl.At(i).(*Term); !isTerm {
					plain = false
				}
			}
			if plain {
				data = bytesOf(sl)
			}
		}
		np, err := write(x, h.path, data, false, false, h.append, h.pos)
		h.pos = np
		if iv := err.(*IfaceVal); iv.T != nil {
			return TupleVal{mkBV(64, 0), err}
		}
		n := 0
		if sl, ok := res[0].(*SliceVal); ok {
			n = sl.Len
		}
		return TupleVal{mkBV(64, uint64(n)), res[1]}
	})
	// Read: the bytes of the file from the handle's position into the caller's buffer; io.EOF at the end
	osf("(*os.File).Read", func(x *Exec, a []Value) Value {
		h := handle(x, a[0])
		if h.closed {
			return TupleVal{mkBV(64, 0), closedErr(x)}
		}
		n, ok := x.vfs[h.path]
		if !ok || n.kind != 'f' {
			return TupleVal{mkBV(64, 0), notExist(x)}
		}
		buf := a[1].(*SliceVal)
		if buf.Len == 0 {
			return TupleVal{mkBV(64, 0), nilIface}
		}
		if h.pos >= len(n.data) {
			return TupleVal{mkBV(64, 0), x.ioEOF()}
		}
		k := 0
		for k < buf.Len && h.pos < len(n.data) {
			buf.A.E[buf.Off+k] = n.data[h.pos]
			k++
			h.pos++
		}
		return TupleVal{mkBV(64, uint64(k)), nilIface}
	})
	osf("(*os.File).Close", func(x *Exec, a []Value) Value {
		h := handle(x, a[0])
		if h.closed {
			return closedErr(x)
		}
		h.closed = true
		return nilIface
	})
	osf("(*os.File).Sync", func(x *Exec, a []Value) Value { return nilIface })
	// the FileInfo value returned by the model is a real *os.fileStat: its accessors may be interpreted
	for _, n := range []string{"(*os.fileStat).Mode", "(*os.fileStat).IsDir", "(*os.fileStat).Name", "(*os.fileStat).Size"} {
		e.allowFns[n] = true
	}
}
