package main

// SMT term layer: booleans, bit-vectors, IEEE floats. Smart constructors fold
// constants so that concrete execution never reaches the solver.

import (
	"fmt"
	"math"
	"math/bits"
	"strings"
)

type Kind uint8

const (
	KBool Kind = iota
	KBV
	KFP
)

type Sort struct {
	K Kind
	W int // BV width, or 32/64 for FP
}

var (
	SBool = Sort{KBool, 1}
	SBV8  = Sort{KBV, 8}
	SBV32 = Sort{KBV, 32}
	SBV64 = Sort{KBV, 64}
	SF64  = Sort{KFP, 64}
	SF32  = Sort{KFP, 32}
)

func BV(w int) Sort { return Sort{KBV, w} }

func (s Sort) smt() string {
	switch s.K {
	case KBool:
		return "Bool"
	case KBV:
		return fmt.Sprintf("(_ BitVec %d)", s.W)
	default:
		if s.W == 32 {
			return "(_ FloatingPoint 8 24)"
		}
		return "(_ FloatingPoint 11 53)"
	}
}

type Op uint8

const (
	OpConst Op = iota
	OpSym
	OpNot
	OpAnd
	OpOr
	OpIte
	OpEq
	OpAdd
	OpSub
	OpMul
	OpUDiv
	OpSDiv
	OpURem
	OpSRem
	OpBAnd
	OpBOr
	OpBXor
	OpShl
	OpLShr
	OpAShr
	OpBNot
	OpNeg
	OpULt
	OpULe
	OpSLt
	OpSLe
	OpZExt
	OpSExt
	OpExtract // aux = low bit; width from sort
	OpFLt
	OpFLe
	OpFEq
	OpFAdd
	OpFSub
	OpFMul
	OpFDiv
	OpFNeg
	OpSIToFP
	OpUIToFP
	OpFPToSI
	OpFPToUI
	OpFPToFP
	OpFIsNaN
	OpFIsInf
	OpFTrunc
)

var opNames = map[Op]string{
	OpNot: "not", OpAnd: "and", OpOr: "or", OpIte: "ite", OpEq: "=",
	OpAdd: "bvadd", OpSub: "bvsub", OpMul: "bvmul", OpUDiv: "bvudiv", OpSDiv: "bvsdiv",
	OpURem: "bvurem", OpSRem: "bvsrem", OpBAnd: "bvand", OpBOr: "bvor", OpBXor: "bvxor",
	OpShl: "bvshl", OpLShr: "bvlshr", OpAShr: "bvashr", OpBNot: "bvnot", OpNeg: "bvneg",
	OpULt: "bvult", OpULe: "bvule", OpSLt: "bvslt", OpSLe: "bvsle",
	OpFLt: "fp.lt", OpFLe: "fp.leq", OpFEq: "fp.eq", OpFAdd: "fp.add RNE", OpFSub: "fp.sub RNE",
	OpFMul: "fp.mul RNE", OpFDiv: "fp.div RNE", OpFNeg: "fp.neg", OpFIsNaN: "fp.isNaN", OpFIsInf: "fp.isInfinite", OpFTrunc: "fp.roundToIntegral RTZ",
}

type Term struct {
	Op   Op
	S    Sort
	Args []*Term
	Val  uint64 // constants: bool 0/1, bv value (masked), fp bits
	Name string // symbols
	Aux  int
}

var (
	TTrue  = &Term{Op: OpConst, S: SBool, Val: 1}
	TFalse = &Term{Op: OpConst, S: SBool, Val: 0}
)

func (t *Term) IsConst() bool { return t.Op == OpConst }
func (t *Term) IsTrue() bool  { return t.Op == OpConst && t.S.K == KBool && t.Val == 1 }
func (t *Term) IsFalse() bool { return t.Op == OpConst && t.S.K == KBool && t.Val == 0 }

func mask(w int) uint64 {
	if w >= 64 {
		return ^uint64(0)
	}
	return (uint64(1) << uint(w)) - 1
}

func signExt(v uint64, w int) int64 {
	if w >= 64 {
		return int64(v)
	}
	sh := uint(64 - w)
	return int64(v<<sh) >> sh
}

func mkBool(b bool) *Term {
	if b {
		return TTrue
	}
	return TFalse
}

func mkBV(w int, v uint64) *Term { return &Term{Op: OpConst, S: BV(w), Val: v & mask(w)} }

func mkF64(f float64) *Term { return &Term{Op: OpConst, S: SF64, Val: math.Float64bits(f)} }
func mkF32(f float32) *Term {
	return &Term{Op: OpConst, S: SF32, Val: uint64(math.Float32bits(f))}
}

func mkSym(name string, s Sort) *Term { return &Term{Op: OpSym, S: s, Name: name} }

func (t *Term) fval() float64 {
	if t.S.W == 32 {
		return float64(math.Float32frombits(uint32(t.Val)))
	}
	return math.Float64frombits(t.Val)
}

func mkFP(s Sort, f float64) *Term {
	if s.W == 32 {
		return mkF32(float32(f))
	}
	return mkF64(f)
}

func allConst(args ...*Term) bool {
	for _, a := range args {
		if a.Op != OpConst {
			return false
		}
	}
	return true
}

func tNot(a *Term) *Term {
	if a.Op == OpConst {
		return mkBool(a.Val == 0)
	}
	if a.Op == OpNot {
		return a.Args[0]
	}
	return &Term{Op: OpNot, S: SBool, Args: []*Term{a}}
}

func tAnd(a, b *Term) *Term {
	if a.IsFalse() || b.IsFalse() {
		return TFalse
	}
	if a.IsTrue() {
		return b
	}
	if b.IsTrue() {
		return a
	}
	if a == b {
		return a
	}
	return &Term{Op: OpAnd, S: SBool, Args: []*Term{a, b}}
}

func tOr(a, b *Term) *Term {
	if a.IsTrue() || b.IsTrue() {
		return TTrue
	}
	if a.IsFalse() {
		return b
	}
	if b.IsFalse() {
		return a
	}
	if a == b {
		return a
	}
	return &Term{Op: OpOr, S: SBool, Args: []*Term{a, b}}
}

func tAndN(ts ...*Term) *Term {
	r := TTrue
	for _, t := range ts {
		r = tAnd(r, t)
	}
	return r
}

func tOrN(ts ...*Term) *Term {
	r := TFalse
	for _, t := range ts {
		r = tOr(r, t)
	}
	return r
}

func tImplies(a, b *Term) *Term { return tOr(tNot(a), b) }

func tIte(c, a, b *Term) *Term {
	if c.IsTrue() {
		return a
	}
	if c.IsFalse() {
		return b
	}
	if a == b {
		return a
	}
	if a.S.K == KBool {
		if a.IsTrue() && b.IsFalse() {
			return c
		}
		if a.IsFalse() && b.IsTrue() {
			return tNot(c)
		}
	}
	if a.Op == OpConst && b.Op == OpConst && a.Val == b.Val && a.S == b.S {
		return a
	}
	return &Term{Op: OpIte, S: a.S, Args: []*Term{c, a, b}}
}

// tEq: structural equality on Bool/BV; on FP it is IEEE equality (Go ==).
func tEq(a, b *Term) *Term {
	if a.S != b.S {
		panic(fmt.Sprintf("tEq sort mismatch %v %v", a.S, b.S))
	}
	if a.S.K == KFP {
		return tFCmp(OpFEq, a, b)
	}
	if a == b {
		return TTrue
	}
	if a.Op == OpConst && b.Op == OpConst {
		return mkBool(a.Val == b.Val)
	}
	if a.S.K == KBool {
		if a.IsTrue() {
			return b
		}
		if b.IsTrue() {
			return a
		}
		if a.IsFalse() {
			return tNot(b)
		}
		if b.IsFalse() {
			return tNot(a)
		}
	}
	// zext(x) == const with const out of range -> false
	if a.Op == OpConst {
		a, b = b, a
	}
	if b.Op == OpConst && a.Op == OpZExt {
		iw := a.Args[0].S.W
		if b.Val > mask(iw) {
			return TFalse
		}
		return tEq(a.Args[0], mkBV(iw, b.Val))
	}
	if b.Op == OpConst && a.Op == OpIte && a.Args[1].Op == OpConst && a.Args[2].Op == OpConst {
		// ite(c, k1, k2) == k
		e1 := a.Args[1].Val == b.Val
		e2 := a.Args[2].Val == b.Val
		switch {
		case e1 && e2:
			return TTrue
		case e1:
			return a.Args[0]
		case e2:
			return tNot(a.Args[0])
		default:
			return TFalse
		}
	}
	return &Term{Op: OpEq, S: SBool, Args: []*Term{a, b}}
}

func tNe(a, b *Term) *Term { return tNot(tEq(a, b)) }

func bvBin(op Op, a, b *Term) *Term {
	if a.S != b.S {
		panic(fmt.Sprintf("bvBin sort mismatch %v %v op %v", a.S, b.S, opNames[op]))
	}
	w := a.S.W
	if a.Op == OpConst && b.Op == OpConst {
		x, y := a.Val, b.Val
		var r uint64
		switch op {
		case OpAdd:
			r = x + y
		case OpSub:
			r = x - y
		case OpMul:
			r = x * y
		case OpUDiv:
			if y == 0 {
				r = mask(w)
			} else {
				r = x / y
			}
		case OpURem:
			if y == 0 {
				r = x
			} else {
				r = x % y
			}
		case OpSDiv:
			sx, sy := signExt(x, w), signExt(y, w)
			if sy == 0 {
				if sx < 0 {
					r = 1
				} else {
					r = mask(w)
				}
			} else if sy == -1 {
				r = uint64(-sx)
			} else {
				r = uint64(sx / sy)
			}
		case OpSRem:
			sx, sy := signExt(x, w), signExt(y, w)
			if sy == 0 {
				r = x
			} else if sy == -1 {
				r = 0
			} else {
				r = uint64(sx % sy)
			}
		case OpBAnd:
			r = x & y
		case OpBOr:
			r = x | y
		case OpBXor:
			r = x ^ y
		case OpShl:
			if y >= uint64(w) {
				r = 0
			} else {
				r = x << y
			}
		case OpLShr:
			if y >= uint64(w) {
				r = 0
			} else {
				r = x >> y
			}
		case OpAShr:
			sx := signExt(x, w)
			if y >= uint64(w) {
				if sx < 0 {
					r = mask(w)
				} else {
					r = 0
				}
			} else {
				r = uint64(sx >> y)
			}
		}
		return mkBV(w, r)
	}
	// light identities
	switch op {
	case OpAdd:
		if a.Op == OpConst && a.Val == 0 {
			return b
		}
		if b.Op == OpConst && b.Val == 0 {
			return a
		}
	case OpSub:
		if b.Op == OpConst && b.Val == 0 {
			return a
		}
	case OpBOr, OpBXor:
		if a.Op == OpConst && a.Val == 0 {
			return b
		}
		if b.Op == OpConst && b.Val == 0 {
			return a
		}
	case OpBAnd:
		if (a.Op == OpConst && a.Val == 0) || (b.Op == OpConst && b.Val == 0) {
			return mkBV(w, 0)
		}
	case OpMul:
		if a.Op == OpConst && a.Val == 1 {
			return b
		}
		if b.Op == OpConst && b.Val == 1 {
			return a
		}
	}
	return &Term{Op: op, S: a.S, Args: []*Term{a, b}}
}

func bvUn(op Op, a *Term) *Term {
	if a.Op == OpConst {
		if op == OpBNot {
			return mkBV(a.S.W, ^a.Val)
		}
		return mkBV(a.S.W, -a.Val)
	}
	return &Term{Op: op, S: a.S, Args: []*Term{a}}
}

// upper bound on the unsigned value of t (cheap syntactic analysis)
func ubound(t *Term) uint64 {
	switch t.Op {
	case OpConst:
		return t.Val
	case OpZExt:
		return ubound(t.Args[0])
	case OpIte:
		a, b := ubound(t.Args[1]), ubound(t.Args[2])
		if a > b {
			return a
		}
		return b
	}
	return mask(t.S.W)
}

func bvCmp(op Op, a, b *Term) *Term {
	if a.S != b.S {
		panic(fmt.Sprintf("bvCmp sort mismatch %v %v", a.S, b.S))
	}
	w := a.S.W
	if a.Op == OpConst && b.Op == OpConst {
		x, y := a.Val, b.Val
		switch op {
		case OpULt:
			return mkBool(x < y)
		case OpULe:
			return mkBool(x <= y)
		case OpSLt:
			return mkBool(signExt(x, w) < signExt(y, w))
		default:
			return mkBool(signExt(x, w) <= signExt(y, w))
		}
	}
	if a == b {
		return mkBool(op == OpULe || op == OpSLe)
	}
	// range reasoning for zero-extended bytes etc.
	ua, ub := ubound(a), ubound(b)
	top := uint64(1) << uint(w-1)
	if w < 64 || true {
		switch op {
		case OpULt:
			if b.Op == OpConst && ua < b.Val {
				return TTrue
			}
			if a.Op == OpConst && a.Val >= ub && ub < mask(w) {
				return TFalse
			}
		case OpULe:
			if b.Op == OpConst && ua <= b.Val {
				return TTrue
			}
		case OpSLt:
			if b.Op == OpConst && ua < top && b.Val < top && ua < b.Val {
				return TTrue
			}
			if b.Op == OpConst && ua < top && b.Val >= top {
				return TFalse // b negative, a non-negative
			}
			if a.Op == OpConst && ub < top && a.Val >= top {
				return TTrue
			}
			if a.Op == OpConst && ub < top && a.Val < top && a.Val >= ub {
				return TFalse
			}
		case OpSLe:
			if b.Op == OpConst && ua < top && b.Val < top && ua <= b.Val {
				return TTrue
			}
			if b.Op == OpConst && ua < top && b.Val >= top {
				return TFalse
			}
			if a.Op == OpConst && ub < top && a.Val >= top {
				return TTrue
			}
			if a.Op == OpConst && a.Val == 0 && ub < top {
				return TTrue // 0 <= non-negative value
			}
		}
	}
	return &Term{Op: op, S: SBool, Args: []*Term{a, b}}
}

func tZExt(a *Term, w int) *Term {
	if a.S.W == w {
		return a
	}
	if a.S.W > w {
		return tExtract(a, 0, w)
	}
	if a.Op == OpConst {
		return mkBV(w, a.Val)
	}
	if a.Op == OpZExt {
		return tZExt(a.Args[0], w)
	}
	return &Term{Op: OpZExt, S: BV(w), Args: []*Term{a}}
}

func tSExt(a *Term, w int) *Term {
	if a.S.W == w {
		return a
	}
	if a.S.W > w {
		return tExtract(a, 0, w)
	}
	if a.Op == OpConst {
		return mkBV(w, uint64(signExt(a.Val, a.S.W)))
	}
	if a.Op == OpZExt { // zero-extended value is non-negative
		return tZExt(a.Args[0], w)
	}
	return &Term{Op: OpSExt, S: BV(w), Args: []*Term{a}}
}

func tExtract(a *Term, lo, w int) *Term {
	if lo == 0 && w == a.S.W {
		return a
	}
	if a.Op == OpConst {
		return mkBV(w, a.Val>>uint(lo))
	}
	if lo == 0 && (a.Op == OpZExt || a.Op == OpSExt) && a.Args[0].S.W == w {
		return a.Args[0]
	}
	if lo == 0 && a.Op == OpZExt && a.Args[0].S.W < w {
		return tZExt(a.Args[0], w)
	}
	return &Term{Op: OpExtract, S: BV(w), Args: []*Term{a}, Aux: lo}
}

func tFCmp(op Op, a, b *Term) *Term {
	if a.Op == OpConst && b.Op == OpConst {
		x, y := a.fval(), b.fval()
		switch op {
		case OpFLt:
			return mkBool(x < y)
		case OpFLe:
			return mkBool(x <= y)
		default:
			return mkBool(x == y)
		}
	}
	return &Term{Op: op, S: SBool, Args: []*Term{a, b}}
}

func tFBin(op Op, a, b *Term) *Term {
	if a.Op == OpConst && b.Op == OpConst {
		x, y := a.fval(), b.fval()
		var r float64
		switch op {
		case OpFAdd:
			r = x + y
		case OpFSub:
			r = x - y
		case OpFMul:
			r = x * y
		case OpFDiv:
			r = x / y
		}
		if a.S.W == 32 {
			// recompute in float32 precision
			x32, y32 := float32(x), float32(y)
			var r32 float32
			switch op {
			case OpFAdd:
				r32 = x32 + y32
			case OpFSub:
				r32 = x32 - y32
			case OpFMul:
				r32 = x32 * y32
			case OpFDiv:
				r32 = x32 / y32
			}
			return mkF32(r32)
		}
		return mkF64(r)
	}
	return &Term{Op: op, S: a.S, Args: []*Term{a, b}}
}

func tFNeg(a *Term) *Term {
	if a.Op == OpConst {
		return mkFP(a.S, -a.fval())
	}
	return &Term{Op: OpFNeg, S: a.S, Args: []*Term{a}}
}

func tFIsNaN(a *Term) *Term {
	if a.Op == OpConst {
		return mkBool(math.IsNaN(a.fval()))
	}
	return &Term{Op: OpFIsNaN, S: SBool, Args: []*Term{a}}
}

func tFIsInf(a *Term) *Term {
	if a.Op == OpConst {
		return mkBool(math.IsInf(a.fval(), 0))
	}
	return &Term{Op: OpFIsInf, S: SBool, Args: []*Term{a}}
}

func tFTrunc(a *Term) *Term {
	if a.Op == OpConst {
		return mkFP(a.S, math.Trunc(a.fval()))
	}
	return &Term{Op: OpFTrunc, S: a.S, Args: []*Term{a}}
}

// int -> float
func tIToFP(a *Term, signed bool, to Sort) *Term {
	if a.Op == OpConst {
		if signed {
			return mkFP(to, float64(signExt(a.Val, a.S.W)))
		}
		return mkFP(to, float64(a.Val))
	}
	op := OpUIToFP
	if signed {
		op = OpSIToFP
	}
	return &Term{Op: op, S: to, Args: []*Term{a}}
}

// float -> int (round toward zero)
func tFPToI(a *Term, signed bool, w int) *Term {
	if a.Op == OpConst {
		f := a.fval()
		if signed {
			return mkBV(w, uint64(int64(f)))
		}
		return mkBV(w, uint64(f))
	}
	op := OpFPToUI
	if signed {
		op = OpFPToSI
	}
	return &Term{Op: op, S: BV(w), Args: []*Term{a}}
}

func tFPToFP(a *Term, to Sort) *Term {
	if a.S == to {
		return a
	}
	if a.Op == OpConst {
		return mkFP(to, a.fval())
	}
	return &Term{Op: OpFPToFP, S: to, Args: []*Term{a}}
}

// ---------------------------------------------------------------------------
// evaluation under a model

type Model map[string]uint64

func evalTerm(t *Term, m Model, memo map[*Term]uint64) uint64 {
	if t.Op == OpConst {
		return t.Val
	}
	if v, ok := memo[t]; ok {
		return v
	}
	var r uint64
	ev := func(i int) uint64 { return evalTerm(t.Args[i], m, memo) }
	switch t.Op {
	case OpSym:
		r = m[t.Name]
		if t.S.K == KBV {
			r &= mask(t.S.W)
		}
	case OpNot:
		r = 1 - ev(0)
	case OpAnd:
		if ev(0) == 1 && ev(1) == 1 {
			r = 1
		}
	case OpOr:
		if ev(0) == 1 || ev(1) == 1 {
			r = 1
		}
	case OpIte:
		if ev(0) == 1 {
			r = ev(1)
		} else {
			r = ev(2)
		}
	case OpEq:
		if ev(0) == ev(1) {
			r = 1
		}
	case OpAdd, OpSub, OpMul, OpUDiv, OpSDiv, OpURem, OpSRem, OpBAnd, OpBOr, OpBXor, OpShl, OpLShr, OpAShr:
		w := t.S.W
		r = bvBin(t.Op, mkBV(w, ev(0)), mkBV(w, ev(1))).Val
	case OpBNot:
		r = ^ev(0) & mask(t.S.W)
	case OpNeg:
		r = (-ev(0)) & mask(t.S.W)
	case OpULt, OpULe, OpSLt, OpSLe:
		w := t.Args[0].S.W
		r = bvCmp(t.Op, mkBV(w, ev(0)), mkBV(w, ev(1))).Val
	case OpZExt:
		r = ev(0)
	case OpSExt:
		r = uint64(signExt(ev(0), t.Args[0].S.W)) & mask(t.S.W)
	case OpExtract:
		r = (ev(0) >> uint(t.Aux)) & mask(t.S.W)
	case OpFLt, OpFLe, OpFEq:
		s := t.Args[0].S
		r = tFCmp(t.Op, &Term{Op: OpConst, S: s, Val: ev(0)}, &Term{Op: OpConst, S: s, Val: ev(1)}).Val
	case OpFAdd, OpFSub, OpFMul, OpFDiv:
		s := t.S
		r = tFBin(t.Op, &Term{Op: OpConst, S: s, Val: ev(0)}, &Term{Op: OpConst, S: s, Val: ev(1)}).Val
	case OpFNeg:
		r = tFNeg(&Term{Op: OpConst, S: t.S, Val: ev(0)}).Val
	case OpFIsNaN:
		r = tFIsNaN(&Term{Op: OpConst, S: t.Args[0].S, Val: ev(0)}).Val
	case OpFIsInf:
		r = tFIsInf(&Term{Op: OpConst, S: t.Args[0].S, Val: ev(0)}).Val
	case OpFTrunc:
		r = tFTrunc(&Term{Op: OpConst, S: t.S, Val: ev(0)}).Val
	case OpSIToFP:
		r = tIToFP(mkBV(t.Args[0].S.W, ev(0)), true, t.S).Val
	case OpUIToFP:
		r = tIToFP(mkBV(t.Args[0].S.W, ev(0)), false, t.S).Val
	case OpFPToSI:
		r = tFPToI(&Term{Op: OpConst, S: t.Args[0].S, Val: ev(0)}, true, t.S.W).Val
	case OpFPToUI:
		r = tFPToI(&Term{Op: OpConst, S: t.Args[0].S, Val: ev(0)}, false, t.S.W).Val
	case OpFPToFP:
		r = tFPToFP(&Term{Op: OpConst, S: t.Args[0].S, Val: ev(0)}, t.S).Val
	default:
		panic("evalTerm: op")
	}
	memo[t] = r
	return r
}

func collectSyms(t *Term, seen map[*Term]bool, out map[string]Sort) {
	if t.Op == OpConst || seen[t] {
		return
	}
	seen[t] = true
	if t.Op == OpSym {
		out[t.Name] = t.S
		return
	}
	for _, a := range t.Args {
		collectSyms(a, seen, out)
	}
}

// ---------------------------------------------------------------------------
// SMT-LIB printing

func constSMT(t *Term) string {
	switch t.S.K {
	case KBool:
		if t.Val == 1 {
			return "true"
		}
		return "false"
	case KBV:
		if t.S.W%4 == 0 {
			return fmt.Sprintf("#x%0*x", t.S.W/4, t.Val)
		}
		return fmt.Sprintf("#b%0*b", t.S.W, t.Val)
	default:
		if t.S.W == 32 {
			b := uint32(t.Val)
			return fmt.Sprintf("(fp #b%b #b%08b #b%023b)", b>>31, (b>>23)&0xff, b&0x7fffff)
		}
		b := t.Val
		return fmt.Sprintf("(fp #b%b #b%011b #b%052b)", b>>63, (b>>52)&0x7ff, b&((1<<52)-1))
	}
}

// smtPrinter prints terms, naming shared non-leaf nodes through define-fun so
// that DAGs do not explode.
type smtPrinter struct {
	names map[*Term]string // nodes already defined in the solver (scoped by caller)
	next  *int
	out   *strings.Builder // definitions are appended here
	newly []*Term          // nodes defined by this printer call (for scope bookkeeping)
	decl  func(name string, s Sort)
}

func (p *smtPrinter) count(t *Term, rc map[*Term]int) {
	if t.Op == OpConst || t.Op == OpSym {
		if t.Op == OpSym {
			p.decl(t.Name, t.S)
		}
		return
	}
	if _, ok := p.names[t]; ok {
		return
	}
	rc[t]++
	if rc[t] > 1 {
		return
	}
	for _, a := range t.Args {
		p.count(a, rc)
	}
}

func (p *smtPrinter) expr(t *Term, rc map[*Term]int) string {
	if t.Op == OpConst {
		return constSMT(t)
	}
	if t.Op == OpSym {
		return t.Name
	}
	if n, ok := p.names[t]; ok {
		return n
	}
	var sb strings.Builder
	switch t.Op {
	case OpZExt:
		fmt.Fprintf(&sb, "((_ zero_extend %d) %s)", t.S.W-t.Args[0].S.W, p.expr(t.Args[0], rc))
	case OpSExt:
		fmt.Fprintf(&sb, "((_ sign_extend %d) %s)", t.S.W-t.Args[0].S.W, p.expr(t.Args[0], rc))
	case OpExtract:
		fmt.Fprintf(&sb, "((_ extract %d %d) %s)", t.Aux+t.S.W-1, t.Aux, p.expr(t.Args[0], rc))
	case OpSIToFP, OpUIToFP, OpFPToFP:
		eb, sbits := 11, 53
		if t.S.W == 32 {
			eb, sbits = 8, 24
		}
		u := ""
		if t.Op == OpUIToFP {
			u = "_unsigned"
		}
		fmt.Fprintf(&sb, "((_ to_fp%s %d %d) RNE %s)", u, eb, sbits, p.expr(t.Args[0], rc))
	case OpFPToSI:
		fmt.Fprintf(&sb, "((_ fp.to_sbv %d) RTZ %s)", t.S.W, p.expr(t.Args[0], rc))
	case OpFPToUI:
		fmt.Fprintf(&sb, "((_ fp.to_ubv %d) RTZ %s)", t.S.W, p.expr(t.Args[0], rc))
	default:
		sb.WriteString("(")
		sb.WriteString(opNames[t.Op])
		for _, a := range t.Args {
			sb.WriteString(" ")
			sb.WriteString(p.expr(a, rc))
		}
		sb.WriteString(")")
	}
	s := sb.String()
	if rc[t] > 1 {
		*p.next++
		n := fmt.Sprintf("t!%d", *p.next)
		fmt.Fprintf(p.out, "(define-fun %s () %s %s)\n", n, t.S.smt(), s)
		p.names[t] = n
		p.newly = append(p.newly, t)
		return n
	}
	return s
}

func (p *smtPrinter) print(t *Term) string {
	rc := map[*Term]int{}
	p.count(t, rc)
	return p.expr(t, rc)
}

func termString(t *Term) string {
	n := 0
	var sb strings.Builder
	p := &smtPrinter{names: map[*Term]string{}, next: &n, out: &sb, decl: func(string, Sort) {}}
	s := p.print(t)
	return sb.String() + s
}

var _ = bits.Len
