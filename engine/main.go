package main

import (
	"bufio"
	"bytes"
	"encoding/json"
	"flag"
	"fmt"
	"go/ast"
	"go/parser"
	"go/token"
	"golang.org/x/tools/go/ssa"
	"os"
	"os/exec"
	"path/filepath"
	"runtime"
	"sort"
	"strconv"
	"strings"
	"time"
)

type TierCfg struct {
	Params   map[string]int `json:"params"`
	MaxPaths int            `json:"max_paths"`
	Skip     bool           `json:"skip"`
}

type HarnessCfg struct {
	Name             string   `json:"name"`
	Covers           []string `json:"covers"`
	Quick            TierCfg  `json:"quick"`
	Thorough         TierCfg  `json:"thorough"`
	What             string   `json:"what"`
	MapFree          bool     `json:"map_free"`
	Repeat           int      `json:"replay_repeat"`
	BoundIsViolation bool     `json:"bound_is_violation"`
}

type CheckCfg struct {
	Property    string       `json:"property"`
	Package     string       `json:"package"`
	Level       string       `json:"level"`
	Harnesses   []HarnessCfg `json:"harnesses"`
	Assumptions []string     `json:"assumptions"`
	Outside     []string     `json:"outside_claim"`
	Extra       []string     `json:"extra_steps"`
	Parts       []string     `json:"parts"`
	ZeroStubs   []string     `json:"zero_stubs"` // functions replaced by stubs returning zero values (calls are logged)
	BuildOnly   []GenCfg     `json:"build_only"` // C01: generate from each spec and compile the output (no harness): a compile error is the violation
	JSONModel   bool         `json:"json_model"` // install the text-level model of encoding/json (jsonmodel.go)
	MaxSteps    int          `json:"max_steps"`  // interpreter step bound per path (default 400000)
	Interpret   []string     `json:"interpret_pkgs"` // packages whose functions are interpreted in this check (package state included) instead of being denied or run natively
	Gen         *GenCfg      `json:"gen"`        // the code under check is the OUTPUT of the generator built from the repository
}

// GenCfg: build cmd/swagger from the repository's working tree, run it on a spec and check the
// generated package (harnesses are overlaid into the generated package)
type GenCfg struct {
	Spec       string   `json:"spec"`        // relative to the verif root
	Args       []string `json:"args"`        // e.g. ["generate","model"]
	More       [][]string `json:"more"`      // further generator invocations into the same module (e.g. ["generate","client"])
	HarnessDir string   `json:"harness_dir"` // relative to the verif root; holds <package>/*.go
	Known      string   `json:"known"`       // build-only entries: id of the open known finding this spec is the witness of (the build is expected to fail)
	LoadRepo   bool     `json:"load_repo"`   // generate, but check a package of the repository: harnesses read the generated files (vHostFile)
	ForbidIdent string  `json:"forbid_ident"` // build-only entries: no identifier of the generated Go files (comments excluded) may start with this prefix; the spec plants it in every free text
	Tier       string   `json:"tier"`        // build-only entries: "thorough" = skipped in the quick tier
	MinFiles   int      `json:"min_files"`   // build-only entries: the output must hold at least that many Go files (guards the scan against vacuity)
}

func (c CheckCfg) harnessRoot() string {
	if c.Gen != nil && c.Gen.HarnessDir != "" && !c.Gen.LoadRepo {
		return filepath.Join(verifRoot, c.Gen.HarnessDir)
	}
	return filepath.Join(verifRoot, "harness")
}

var goEnv = []string{"GOFLAGS=-mod=mod", "GOPROXY=off", "GOSUMDB=off", "GOTOOLCHAIN=local"}

// prepareGen builds the generator from repo, generates code from the configured spec into a fresh
// module under buildDir and returns that module's root
func prepareGen(cfg CheckCfg, repo, buildDir string) (string, error) {
	bin := filepath.Join(buildDir, "swagger.bin")
	cmd := exec.Command("go", "build", "-o", bin, "./cmd/swagger")
	cmd.Dir = repo
	cmd.Env = append(os.Environ(), goEnv...)
	if out, err := cmd.CombinedOutput(); err != nil {
		return "", fmt.Errorf("building cmd/swagger: %v\n%s", err, out)
	}
	gen := filepath.Join(buildDir, "gen")
	os.RemoveAll(gen)
	if err := os.MkdirAll(gen, 0o755); err != nil {
		return "", err
	}
	mod, err := os.ReadFile(filepath.Join(repo, "go.mod"))
	if err != nil {
		return "", err
	}
	ms := string(mod)
	i := strings.Index(ms, "require")
	if i < 0 {
		return "", fmt.Errorf("no require block in go.mod")
	}
	os.WriteFile(filepath.Join(gen, "go.mod"), []byte("module verifgen\n\ngo 1.23\n\n"+ms[i:]), 0o644)
	if sum, err := os.ReadFile(filepath.Join(repo, "go.sum")); err == nil {
		os.WriteFile(filepath.Join(gen, "go.sum"), sum, 0o644)
	}
	for _, cmdArgs := range append([][]string{cfg.Gen.Args}, cfg.Gen.More...) {
		args := append([]string{}, cmdArgs...)
		args = append(args, "-q", "-f", filepath.Join(verifRoot, cfg.Gen.Spec), "-t", gen)
		c2 := exec.Command(bin, args...)
		c2.Dir = gen
		c2.Env = append(os.Environ(), goEnv...)
		if out, err := c2.CombinedOutput(); err != nil {
			return "", fmt.Errorf("generator failed (%v): %v\n%s", cmdArgs, err, out)
		}
	}
	return gen, nil
}

type KnownFinding struct {
	ID       string         `json:"id"`
	Property string         `json:"property"`
	Status   string         `json:"status"` // open | fixed
	Commit   string         `json:"commit,omitempty"`
	Harness  string         `json:"harness"`
	What     string         `json:"what"`
	Witness  []string       `json:"witness,omitempty"`
	Params   map[string]int `json:"params,omitempty"`
}

var verifRoot = "/verif"

func main() {
	if len(os.Args) < 2 {
		fmt.Fprintln(os.Stderr, "usage: gosym check <ID> [--tier quick|thorough] | replay <file>")
		os.Exit(2)
	}
	if r := os.Getenv("VERIF_ROOT"); r != "" {
		verifRoot = r
	}
	switch os.Args[1] {
	case "check":
		fs := flag.NewFlagSet("check", flag.ExitOnError)
		tier := fs.String("tier", envOr("VERIF_TIER", "quick"), "quick|thorough")
		repo := fs.String("repo", envOr("VERIF_REPO", "/repo"), "repository root")
		only := fs.String("only", "", "run only this harness")
		workers := fs.Int("workers", runtime.NumCPU(), "worker count")
		noNative := fs.Bool("no-native", false, "skip native replay/validation (debug)")
		fs.Parse(os.Args[3:])
		os.Exit(runCheck(os.Args[2], *tier, *repo, *only, *workers, *noNative))
	case "replay":
		os.Exit(runReplayFile(os.Args[2]))
	default:
		fmt.Fprintln(os.Stderr, "unknown command")
		os.Exit(2)
	}
}

func envOr(k, d string) string {
	if v := os.Getenv(k); v != "" {
		return v
	}
	return d
}

func loadKnown() []KnownFinding {
	b, err := os.ReadFile(filepath.Join(verifRoot, "known_findings.json"))
	if err != nil {
		return nil
	}
	var ks []KnownFinding
	if err := json.Unmarshal(b, &ks); err != nil {
		fmt.Fprintln(os.Stderr, "known_findings.json:", err)
		os.Exit(2)
	}
	return ks
}

type harnessEvidence struct {
	Name         string         `json:"name"`
	What         string         `json:"what,omitempty"`
	Params       map[string]int `json:"bounds"`
	Paths        int            `json:"paths"`
	Outcomes     map[string]int `json:"outcomes"`
	Decisions    int            `json:"decisions"`
	Obligations  int            `json:"obligations_reached"`
	Discharged   int            `json:"discharged"`
	Inconclusive int            `json:"inconclusive"`
	Queries      map[string]int `json:"solver_queries"`
	SolverS      float64        `json:"solver_time_s"`
	Unsupported  map[string]int `json:"unsupported,omitempty"`
	BoundHits    map[string]int `json:"bound_hit,omitempty"`
	Covers       []string       `json:"covers_reached"`
	MissingCover []string       `json:"covers_missing,omitempty"`
	Functions    []string       `json:"functions_encoded"`
	Stubs        []string       `json:"stubs_hit"`
	Exhaustive   bool           `json:"exhaustive"`
	Validated    int            `json:"native_validated"`
	KnownHits    map[string]int `json:"known_class_paths,omitempty"`
	Candidates   int            `json:"candidate_counterexamples"`
	Confirmed    int            `json:"confirmed_counterexamples"`
	WallS        float64        `json:"wall_s"`
	Sample       interface{}    `json:"sample,omitempty"`
}

func runCheck(id, tier, repo, only string, workers int, noNative bool) int {
	cfgB, err := os.ReadFile(filepath.Join(verifRoot, "checks", id+".json"))
	if err != nil {
		fmt.Fprintln(os.Stderr, err)
		return 2
	}
	var cfg CheckCfg
	if err := json.Unmarshal(cfgB, &cfg); err != nil {
		fmt.Fprintln(os.Stderr, "check config:", err)
		return 2
	}
	if len(cfg.Parts) == 0 {
		return runOne(id, cfg, tier, repo, only, workers, noNative)
	}
	// a property whose harnesses live in several packages: run the parts, merge the evidence
	start := time.Now()
	rc := 0
	var docs []map[string]interface{}
	for _, part := range cfg.Parts {
		pb, err := os.ReadFile(filepath.Join(verifRoot, "checks", part+".json"))
		if err != nil {
			fmt.Fprintln(os.Stderr, err)
			return 2
		}
		var pc CheckCfg
		if err := json.Unmarshal(pb, &pc); err != nil {
			fmt.Fprintln(os.Stderr, "check config:", err)
			return 2
		}
		pc.Property = cfg.Property
		r := runOne(part, pc, tier, repo, only, workers, noNative)
		if r == 1 || (r == 2 && rc == 0) {
			rc = r
		}
		if eb, err := os.ReadFile(filepath.Join(verifRoot, "evidence", part+".json")); err == nil {
			var d map[string]interface{}
			if json.Unmarshal(eb, &d) == nil {
				docs = append(docs, d)
			}
			os.Remove(filepath.Join(verifRoot, "evidence", part+".json"))
		}
	}
	mergeEvidence(id, cfg, docs, time.Since(start))
	return rc
}

func mergeEvidence(id string, cfg CheckCfg, docs []map[string]interface{}, wall time.Duration) {
	if len(docs) == 0 {
		return
	}
	out := docs[0]
	cov := out["coverage"].(map[string]interface{})
	num := func(m map[string]interface{}, k string) float64 {
		switch v := m[k].(type) {
		case float64:
			return v
		case int:
			return float64(v)
		}
		return 0
	}
	for _, d := range docs[1:] {
		c := d["coverage"].(map[string]interface{})
		for _, k := range []string{"states", "transitions", "traces_validated_against_impl", "obligations", "discharged", "solver_time_s"} {
			cov[k] = num(cov, k) + num(c, k)
		}
		for _, k := range []string{"states", "transitions", "traces_validated_against_impl", "obligations", "discharged"} {
			cov[k] = int(num(cov, k))
		}
		for _, k := range []string{"samples", "harnesses", "functions_encoded", "stubs_hit"} {
			a, _ := cov[k].([]interface{})
			b, _ := c[k].([]interface{})
			cov[k] = append(a, b...)
		}
		if e, _ := c["exhaustive"].(bool); !e {
			cov["exhaustive"] = false
		}
		cov["status"] = fmt.Sprint(cov["status"]) + " | " + fmt.Sprint(c["status"])
		out["violations"] = int(num(out, "violations") + num(d, "violations"))
		aa, _ := out["assumptions"].([]interface{})
		for _, x := range d["assumptions"].([]interface{}) {
			dup := false
			for _, y := range aa {
				if x == y {
					dup = true
				}
			}
			if !dup {
				aa = append(aa, x)
			}
		}
		out["assumptions"] = aa
	}
	for _, k := range []string{"states", "transitions", "traces_validated_against_impl", "obligations", "discharged"} {
		cov[k] = int(num(cov, k))
	}
	out["property_id"] = id
	out["wall_s"] = wall.Seconds()
	b, _ := json.MarshalIndent(out, "", " ")
	os.WriteFile(filepath.Join(verifRoot, "evidence", id+".json"), b, 0o644)
}

func runOne(name string, cfg CheckCfg, tier, repo, only string, workers int, noNative bool) int {
	start := time.Now()
	seed, _ := strconv.Atoi(envOr("VERIF_SEED", "0"))
	id := cfg.Property
	buildDir := filepath.Join(envOr("VERIF_BUILD", filepath.Join(verifRoot, ".build")), name)
	os.MkdirAll(buildDir, 0o755)
	if len(cfg.BuildOnly) > 0 {
		return runBuildOnly(name, cfg, tier, repo, buildDir, seed, start)
	}
	srcRepo := repo
	if cfg.Gen != nil {
		g, err := prepareGen(cfg, repo, buildDir)
		if err != nil {
			fmt.Fprintln(os.Stderr, "gen:", err)
			writeEvidence(name, id, tier, seed, cfg, nil, nil, time.Since(start), "generation-failed: "+err.Error(), 0, 0)
			return 2
		}
		if cfg.Gen.LoadRepo {
			os.Setenv("VERIF_GEN_DIR", g)
		} else {
			repo = g
		}
	}
	ov, repl, err := prepareOverlay(cfg.harnessRoot(), repo, cfg.Package, buildDir)
	if err != nil {
		fmt.Fprintln(os.Stderr, "overlay:", err)
		return 2
	}
	eng, err := loadEngine(repo, cfg.Package, ov)
	if err != nil {
		fmt.Fprintln(os.Stderr, "load:", err)
		writeEvidence(name, id, tier, seed, cfg, nil, nil, time.Since(start), "load-failed: "+err.Error(), 0, 0)
		return 2
	}
	for _, zs := range cfg.ZeroStubs {
		name := zs
		eng.intrinsics[name] = func(x *Exec, fn *ssa.Function, args []Value) (Value, bool) {
			x.calllog = append(x.calllog, name)
			return x.zeroResults(fn), true
		}
	}
	if cfg.MaxSteps > 0 {
		eng.maxSteps = cfg.MaxSteps
	}
	for _, p := range cfg.Interpret {
		delete(eng.denyPkgs, p)
		for n := range eng.nativeFns {
			if strings.HasPrefix(n, p+".") || strings.HasPrefix(n, "(*"+p+".") || strings.HasPrefix(n, "("+p+".") {
				delete(eng.nativeFns, n)
			}
		}
	}
	if cfg.JSONModel {
		registerJSONModel(eng)
	}
	eng.initPackage(eng.target, false)
	eng.bridgeSwagPrefix()
	eng.seed = seed
	eng.solverKind = envOr("VERIF_SOLVER", "z3")
	if tier == "thorough" {
		eng.timeout = 60000
	}
	known := loadKnown()
	for _, k := range known {
		if k.Status == "open" && k.Property == id && os.Getenv("VERIF_IGNORE_KNOWN") == "" {
			eng.known[k.ID] = true
		}
	}
	loadT := time.Since(start)
	fmt.Fprintf(os.Stderr, "[%s] loaded %s in %.1fs\n", id, cfg.Package, loadT.Seconds())

	var evs []*harnessEvidence
	var batch []replayItem
	type cand struct {
		h      string
		f      FailRec
		rid    string
		params map[string]int
	}
	var cands []cand
	noVerdict := []string{}
	var runs []*HarnessRun
	budget := 400 * time.Second
	if tier == "thorough" {
		budget = 25 * time.Minute
	}
	if b := os.Getenv("VERIF_BUDGET_S"); b != "" {
		n, _ := strconv.Atoi(b)
		budget = time.Duration(n) * time.Second
	}
	if os.Getenv("VERIF_QPROF") != "" {
		qprof = map[string]int{}
		defer func() {
			type kv struct {
				k string
				v int
			}
			var l []kv
			for k, v := range qprof {
				l = append(l, kv{k, v})
			}
			sort.Slice(l, func(i, j int) bool { return l[i].v > l[j].v })
			for i, e := range l {
				if i > 15 {
					break
				}
				fmt.Fprintf(os.Stderr, "QPROF %6d %s\n", e.v, e.k)
			}
		}()
	}
	maxFails := 8
	if mf := os.Getenv("VERIF_MAXFAILS"); mf != "" {
		maxFails, _ = strconv.Atoi(mf)
	}
	for _, hc := range cfg.Harnesses {
		if only != "" && hc.Name != only {
			continue
		}
		tc := hc.Quick
		if tier == "thorough" {
			tc = hc.Thorough
			if tc.Params == nil && tc.MaxPaths == 0 {
				tc = hc.Quick
			}
		}
		if tc.Skip {
			continue
		}
		fn := eng.target.Func(hc.Name)
		if fn == nil {
			noVerdict = append(noVerdict, "harness not found: "+hc.Name)
			continue
		}
		eng.params = tc.Params
		if eng.params == nil {
			eng.params = map[string]int{}
		}
		hstart := time.Now()
		h := &HarnessRun{eng: eng, name: hc.Name, fn: fn, outcomes: map[string]int{}, covers: map[string]bool{},
			unsupported: map[string]int{}, boundHits: map[string]int{}, funcs: map[string]bool{}, stubs: map[string]bool{},
			knownHits: map[string]int{}, sampleEvery: 50, maxPaths: tc.MaxPaths, maxFails: maxFails}
		if h.maxPaths == 0 {
			h.maxPaths = 200000
		}
		h.boundIsViolation = hc.BoundIsViolation
		h.run(workers, time.Now().Add(budget))
		runs = append(runs, h)
		ev := &harnessEvidence{Name: hc.Name, What: hc.What, Params: eng.params, Paths: h.paths, Outcomes: h.outcomes,
			Decisions: h.decisions, Obligations: h.asserts, Discharged: h.discharged, Inconclusive: h.inconclusive,
			Queries: map[string]int{"sat": h.nSat, "unsat": h.nUnsat, "unknown": h.nUnknown},
			SolverS: h.solveTime.Seconds(), Unsupported: h.unsupported, BoundHits: h.boundHits,
			Covers: sortedKeysB(h.covers), Functions: sortedKeysB(h.funcs), Stubs: sortedKeysB(h.stubs),
			KnownHits: h.knownHits, WallS: time.Since(hstart).Seconds()}
		ev.Exhaustive = !h.truncated && len(h.fails) < h.maxFails
		for _, c := range hc.Covers {
			if !h.covers[c] {
				ev.MissingCover = append(ev.MissingCover, c)
			}
		}
		fmt.Fprintf(os.Stderr, "[%s] %s: paths=%d outcomes=%v obligations=%d discharged=%d inconclusive=%d fails=%d tweaks=%d queries=%d/%d/%d solver=%.1fs wall=%.1fs\n",
			id, hc.Name, h.paths, h.outcomes, h.asserts, h.discharged, h.inconclusive, len(h.fails), h.tweaks, h.nSat, h.nUnsat, h.nUnknown,
			h.solveTime.Seconds(), time.Since(hstart).Seconds())
		for k, n := range h.unsupported {
			fmt.Fprintf(os.Stderr, "   unsupported x%d: %s\n", n, k)
		}
		for k, n := range h.boundHits {
			fmt.Fprintf(os.Stderr, "   bound-hit x%d: %s\n", n, k)
		}
		if len(h.unsupported) > 0 {
			noVerdict = append(noVerdict, hc.Name+": unsupported constructs")
		}
		if len(h.boundHits) > 0 && !hc.BoundIsViolation {
			noVerdict = append(noVerdict, hc.Name+": bound hit")
		}
		if h.truncated {
			noVerdict = append(noVerdict, hc.Name+": exploration truncated (path/time budget)")
		}
		if h.inconclusive > 0 {
			noVerdict = append(noVerdict, fmt.Sprintf("%s: %d inconclusive solver answers", hc.Name, h.inconclusive))
		}
		if len(ev.MissingCover) > 0 {
			noVerdict = append(noVerdict, hc.Name+": vacuous, cover labels not reached: "+strings.Join(ev.MissingCover, ","))
		}
		if h.asserts == 0 && h.outcomes["panic"] == 0 && len(hc.Covers) == 0 && len(h.knownHits) == 0 {
			noVerdict = append(noVerdict, hc.Name+": vacuous, no obligation reached")
		}
		// candidates (dedupe by message)
		seenMsg := map[string]int{}
		for _, f := range h.fails {
			key := f.Msg
			if i := strings.Index(key, " @"); i > 0 {
				key = key[:i]
			}
			for _, o := range f.Observes {
				if strings.HasPrefix(o, "class=") {
					key += " " + o
				}
			}
			if seenMsg[key] >= 2 {
				continue
			}
			seenMsg[key]++
			rid := fmt.Sprintf("%s-%d", hc.Name, len(cands))
			cands = append(cands, cand{hc.Name, f, rid, eng.params})
			rep := hc.Repeat
			batch = append(batch, replayItem{ID: "cand:" + rid, Harness: hc.Name, Vector: f.Vector, Params: eng.params, Known: openIDs(eng), Repeat: rep})
		}
		ev.Candidates = len(h.fails)
		if os.Getenv("VERIF_DUMPFAILS") != "" {
			for _, f := range h.fails {
				fmt.Fprintf(os.Stderr, "FAIL %s | %s | obs: %s | in: %s\n", hc.Name, f.Msg, strings.Join(f.Observes, " "), strings.Join(f.Named, " "))
			}
		}
		// validation samples: every completed path when there are few, else an even selection
		limit := 300
		if tier == "thorough" {
			limit = 1000
		}
		stride := 1
		if len(h.samples) > limit {
			stride = (len(h.samples) + limit - 1) / limit
		}
		sort.Slice(h.samples, func(i, j int) bool { return fmt.Sprint(h.samples[i].Trace) < fmt.Sprint(h.samples[j].Trace) })
		for i := seed % stride; i < len(h.samples); i += stride {
			s := h.samples[i]
			batch = append(batch, replayItem{ID: fmt.Sprintf("val:%s:%d", hc.Name, i), Harness: hc.Name, Vector: s.Vector, Params: eng.params, Known: openIDs(eng),
				expectObs: s.Observes, expectOutcome: s.Outcome, ExpectObs: s.Observes, ExpectOutcome: s.Outcome, Repeat: 40})
		}
		if len(h.samples) > 0 {
			ev.Sample = map[string]interface{}{"input_vector": h.samples[0].Vector, "outcome": h.samples[0].Outcome, "observations": h.samples[0].Observes, "decisions": h.samples[0].Trace}
		}
		evs = append(evs, ev)
	}
	// known finding witnesses
	for _, k := range known {
		inPart := false
		for _, hc := range cfg.Harnesses {
			if hc.Name == k.Harness {
				inPart = true
			}
		}
		if k.Property == id && k.Status == "open" && len(k.Witness) > 0 && inPart {
			rep := 0
			for _, hc := range cfg.Harnesses {
				if hc.Name == k.Harness {
					rep = hc.Repeat
				}
			}
			batch = append(batch, replayItem{ID: "known:" + k.ID, Harness: k.Harness, Vector: k.Witness, Params: k.Params, Known: nil, Repeat: rep})
		}
	}

	violations := 0
	validated := 0
	var replayPaths []string
	if !noNative && len(batch) > 0 {
		results, err := nativeRun(repo, cfg.Package, buildDir, repl, batch)
		if err != nil {
			fmt.Fprintln(os.Stderr, "native replay failed:", err)
			noVerdict = append(noVerdict, "native replay failed: "+err.Error())
		} else {
			byID := map[string]replayResult{}
			for _, r := range results {
				byID[r.ID] = r
			}
			for _, c := range cands {
				r, ok := byID["cand:"+c.rid]
				if !ok {
					noVerdict = append(noVerdict, "no native result for candidate "+c.rid)
					continue
				}
				reproduced := (c.f.Kind == "assert" && r.Outcome == "assert") || (c.f.Kind == "panic" && r.Outcome == "panic")
				if reproduced {
					violations++
					p := writeReplay(id, name, c.rid, c.h, c.f, c.params, r, srcRepo)
					replayPaths = append(replayPaths, p)
					fmt.Printf("VIOLATION property=%s replay=%s\n", id, p)
					fmt.Fprintf(os.Stderr, "   %s: %s\n      inputs: %s\n      observed: %s\n", c.h, c.f.Msg, strings.Join(c.f.Named, " "), strings.Join(r.Observes, " "))
					for _, ev := range evs {
						if ev.Name == c.h {
							ev.Confirmed++
						}
					}
				} else {
					fmt.Fprintf(os.Stderr, "ENGINE-DISAGREEMENT %s: engine says %s %q, native says %s %q vector=%v\n", c.rid, c.f.Kind, c.f.Msg, r.Outcome, r.Msg, c.f.Vector)
					noVerdict = append(noVerdict, "counterexample did not reproduce natively: "+c.rid)
				}
			}
			for _, it := range batch {
				if !strings.HasPrefix(it.ID, "val:") {
					continue
				}
				r, ok := byID[it.ID]
				if !ok {
					continue
				}
				want := it.expectOutcome
				good := r.Outcome == want && equalStrs(r.Observes, it.expectObs)
				if good {
					validated++
					hn := strings.Split(it.ID, ":")[1]
					for _, ev := range evs {
						if ev.Name == hn {
							ev.Validated++
						}
					}
				} else {
					fmt.Fprintf(os.Stderr, "ENGINE-DISAGREEMENT %s: engine outcome=%s obs=%v; native outcome=%s msg=%q obs=%v vector=%v\n", it.ID, want, it.expectObs, r.Outcome, r.Msg, r.Observes, it.Vector)
					noVerdict = append(noVerdict, "native validation mismatch: "+it.ID)
				}
			}
			for _, k := range known {
				if _, has := byID["known:"+k.ID]; k.Property == id && k.Status == "open" && len(k.Witness) > 0 && has {
					r, ok := byID["known:"+k.ID]
					if ok && (r.Outcome == "assert" || r.Outcome == "panic") {
						fmt.Printf("KNOWN-FINDING: property=%s %s [%s]\n", id, k.What, k.ID)
					} else {
						fmt.Fprintf(os.Stderr, "stale known finding %s: witness no longer fails (native outcome %s %s)\n", k.ID, r.Outcome, r.Msg)
					}
				}
			}
		}
	}
	status := "holds"
	if violations > 0 {
		status = "violated"
	} else if len(noVerdict) > 0 {
		status = "no-verdict: " + strings.Join(noVerdict, "; ")
	}
	writeEvidence(name, id, tier, seed, cfg, evs, eng, time.Since(start), status, violations, validated)
	fmt.Fprintf(os.Stderr, "[%s] %s (%.1fs)\n", id, status, time.Since(start).Seconds())
	if violations > 0 {
		return 1
	}
	if len(noVerdict) > 0 {
		for _, n := range noVerdict {
			fmt.Fprintln(os.Stderr, "NO-VERDICT:", n)
		}
		return 2
	}
	return 0
}

func equalStrs(a, b []string) bool {
	if len(a) != len(b) {
		return false
	}
	for i := range a {
		if a[i] != b[i] {
			return false
		}
	}
	return true
}

func openIDs(e *Engine) []string {
	var ks []string
	for k := range e.known {
		ks = append(ks, k)
	}
	sort.Strings(ks)
	return ks
}

// ---------------------------------------------------------------------------
// overlay + native runner

type replayItem struct {
	ID      string         `json:"id"`
	Harness string         `json:"harness"`
	Vector  []string       `json:"vector"`
	Params  map[string]int `json:"params"`
	Known   []string       `json:"known"`
	Repeat  int            `json:"repeat"`

	ExpectOutcome string   `json:"expect_outcome,omitempty"`
	ExpectObs     []string `json:"expect_obs,omitempty"`

	expectObs     []string
	expectOutcome string
}

type replayResult struct {
	ID       string   `json:"id"`
	Outcome  string   `json:"outcome"`
	Msg      string   `json:"msg"`
	Observes []string `json:"observes"`
	Covers   []string `json:"covers"`
	Used     int      `json:"used"`
}

func pkgNameOf(repo, pkgPath string) (string, error) {
	ents, err := os.ReadDir(filepath.Join(repo, pkgPath))
	if err != nil {
		return "", err
	}
	for _, en := range ents {
		if strings.HasSuffix(en.Name(), ".go") && !strings.HasSuffix(en.Name(), "_test.go") {
			f, err := os.Open(filepath.Join(repo, pkgPath, en.Name()))
			if err != nil {
				continue
			}
			sc := bufio.NewScanner(f)
			for sc.Scan() {
				l := strings.TrimSpace(sc.Text())
				if strings.HasPrefix(l, "package ") {
					f.Close()
					return strings.Fields(l)[1], nil
				}
			}
			f.Close()
		}
	}
	return "", fmt.Errorf("no package clause found in %s", pkgPath)
}

func modulePath(repo string) string {
	b, _ := os.ReadFile(filepath.Join(repo, "go.mod"))
	for _, l := range strings.Split(string(b), "\n") {
		if strings.HasPrefix(l, "module ") {
			return strings.TrimSpace(l[7:])
		}
	}
	return ""
}

func prepareOverlay(harnessRoot, repo, pkgPath, buildDir string) (map[string][]byte, map[string]string, error) {
	ov, repl, err := buildOverlay(repo, harnessRoot, pkgPath)
	if err != nil {
		return nil, nil, err
	}
	pn, err := pkgNameOf(repo, pkgPath)
	if err != nil {
		return nil, nil, err
	}
	tmpl, err := os.ReadFile(filepath.Join(verifRoot, "harness", "rt", "zz_verif_rt.go.tmpl"))
	if err != nil {
		return nil, nil, err
	}
	rt := bytes.Replace(tmpl, []byte("PKGNAME"), []byte(pn), 1)
	rtPath := filepath.Join(buildDir, "zz_verif_rt.go")
	if err := os.WriteFile(rtPath, rt, 0o644); err != nil {
		return nil, nil, err
	}
	virt := filepath.Join(repo, pkgPath, "zz_verif_rt.go")
	ov[virt] = rt
	repl[virt] = rtPath
	return ov, repl, nil
}

func nativeRun(repo, pkgPath, buildDir string, repl map[string]string, batch []replayItem) ([]replayResult, error) {
	mainSrc := fmt.Sprintf("package main\n\nimport (\n\t\"os\"\n\tt \"%s/%s\"\n)\n\nfunc main() { t.VerifReplayMain(os.Args[1]) }\n", modulePath(repo), pkgPath)
	mainPath := filepath.Join(buildDir, "main.go")
	if err := os.WriteFile(mainPath, []byte(mainSrc), 0o644); err != nil {
		return nil, err
	}
	r2 := map[string]string{}
	for k, v := range repl {
		r2[k] = v
	}
	r2[filepath.Join(repo, "zz_verif_main", "main.go")] = mainPath
	ovJSON, _ := json.Marshal(map[string]interface{}{"Replace": r2})
	ovPath := filepath.Join(buildDir, "overlay.json")
	os.WriteFile(ovPath, ovJSON, 0o644)
	bin := filepath.Join(buildDir, "replay.bin")
	cmd := exec.Command("go", "build", "-tags", "verif", "-overlay", ovPath, "-o", bin, "./zz_verif_main")
	cmd.Dir = repo
	cmd.Env = append(os.Environ(), "GOFLAGS=-mod=mod", "GOPROXY=off", "GOSUMDB=off", "GOTOOLCHAIN=local")
	if out, err := cmd.CombinedOutput(); err != nil {
		return nil, fmt.Errorf("go build: %v\n%s", err, out)
	}
	return runBatch(bin, buildDir, batch)
}

func runBatch(bin, buildDir string, batch []replayItem) ([]replayResult, error) {
	bj, _ := json.Marshal(batch)
	bp := filepath.Join(buildDir, "batch.json")
	os.WriteFile(bp, bj, 0o644)
	// the replayed code may loop or recurse without bound: cap time and memory
	limit := 20 + len(batch)/5
	cmd := exec.Command("bash", "-c", fmt.Sprintf("ulimit -v 6000000; exec timeout -s KILL %d %q %q", limit, bin, bp))
	cmd.Dir = buildDir
	var out bytes.Buffer
	cmd.Stdout = &out
	cmd.Stderr = &out
	err := cmd.Run()
	var res []replayResult
	for _, l := range strings.Split(out.String(), "\n") {
		if strings.HasPrefix(l, "VERIF-RESULT ") {
			var r replayResult
			if json.Unmarshal([]byte(l[13:]), &r) == nil {
				res = append(res, r)
			}
		}
	}
	if err != nil && len(res) < len(batch) {
		// a hard crash (stack overflow, out of memory, killed after the time limit) in item len(res)
		crashed := batch[len(res)]
		tail := out.String()
		if i := strings.Index(tail, "goroutine "); i > 0 {
			tail = tail[:i]
		}
		if len(tail) > 400 {
			tail = tail[len(tail)-400:]
		}
		res = append(res, replayResult{ID: crashed.ID, Outcome: "panic", Msg: "process died or did not terminate within the limit (" + err.Error() + "): " + tail})
		if len(res) < len(batch) {
			more, _ := runBatch(bin, buildDir, batch[len(res):])
			res = append(res, more...)
		}
	}
	return res, nil
}

func writeReplay(id, check, rid, harness string, f FailRec, params map[string]int, r replayResult, repo string) string {
	dir := filepath.Join(verifRoot, "replays", id)
	os.MkdirAll(dir, 0o755)
	p := filepath.Join(dir, rid+".json")
	commit := ""
	if out, err := exec.Command("git", "-C", repo, "rev-parse", "HEAD").Output(); err == nil {
		commit = strings.TrimSpace(string(out))
	}
	doc := map[string]interface{}{
		"property": id, "check": check, "harness": harness, "message": f.Msg, "kind": f.Kind, "vector": f.Vector, "inputs": f.Named, "engine_observations": f.Observes, "params": params,
		"native_outcome": r.Outcome, "native_message": r.Msg, "native_observations": r.Observes, "repo_commit": commit,
	}
	b, _ := json.MarshalIndent(doc, "", " ")
	os.WriteFile(p, b, 0o644)
	return p
}

// runBuildOnly: the generator built from repo writes code for each listed spec and the result is
// compiled with the Go tool chain. This part decides nothing by solving: it exists because C01 is
// literally "the generated code builds", and because the symbolic checks of generated code end
// without verdict when that code stops compiling.
func runBuildOnly(name string, cfg CheckCfg, tier, repo, buildDir string, seed int, start time.Time) int {
	id := cfg.Property
	var evs []*harnessEvidence
	violations := 0
	for i, g := range cfg.BuildOnly {
		if g.Tier == "thorough" && tier != "thorough" {
			continue
		}
		t0 := time.Now()
		sub := filepath.Join(buildDir, fmt.Sprintf("b%d", i))
		os.MkdirAll(sub, 0o755)
		one := cfg
		gc := g
		one.Gen = &gc
		ev := &harnessEvidence{Name: "build:" + g.Spec, What: "generate " + strings.Join(g.Args, " ") + " (+" + fmt.Sprint(len(g.More)) + " more) and compile the output", Params: map[string]int{},
			Outcomes: map[string]int{}, Queries: map[string]int{}, Exhaustive: true, Paths: 1, Decisions: 1, Obligations: 1}
		gen, err := prepareGen(one, repo, sub)
		msg := ""
		if err != nil {
			// a refused spec is acceptable for C01 only if the generator says so; here every spec is valid
			msg = "generation failed: " + err.Error()
		} else {
			cmd := exec.Command("go", "build", "./...")
			cmd.Dir = gen
			cmd.Env = append(os.Environ(), goEnv...)
			if out, berr := cmd.CombinedOutput(); berr != nil {
				o := string(out)
				if len(o) > 1500 {
					o = o[:1500]
				}
				msg = "the generated code does not compile: " + o
			}
			if msg == "" && g.ForbidIdent != "" {
				hits, nfiles, perr := scanForbidden(gen, g.ForbidIdent)
				ev.Params["go_files_scanned"] = nfiles
				if perr != "" {
					msg = "the generated code does not parse: " + perr
				} else if len(hits) > 0 {
					msg = "free text of the specification became Go code in the output: " + strings.Join(hits, "; ")
				} else if nfiles < g.MinFiles {
					msg = fmt.Sprintf("only %d Go files generated, expected at least %d", nfiles, g.MinFiles)
				}
			}
		}
		ev.WallS = time.Since(t0).Seconds()
		if g.Known != "" {
			// the witness of an open known finding: it must still fail
			open := false
			what := ""
			for _, k := range loadKnown() {
				if k.ID == g.Known && k.Status == "open" {
					open, what = true, k.What
				}
			}
			if open && msg != "" {
				fmt.Printf("KNOWN-FINDING: property=%s %s [%s]\n", id, what, g.Known)
				ev.Outcomes["known"] = 1
				ev.Discharged = 1
				ev.Sample = map[string]interface{}{"spec": g.Spec, "outcome": "known finding " + g.Known + " reproduced"}
				evs = append(evs, ev)
				continue
			}
			if open && msg == "" {
				fmt.Fprintf(os.Stderr, "stale known finding %s: its witness spec now generates and compiles\n", g.Known)
			}
		}
		if msg == "" {
			ev.Discharged = 1
			ev.Outcomes["ok"] = 1
			ev.Sample = map[string]interface{}{"spec": g.Spec, "outcome": "generated and compiled"}
			fmt.Fprintf(os.Stderr, "[%s] build %s: ok (%.1fs)\n", id, g.Spec, ev.WallS)
		} else {
			violations++
			ev.Outcomes["fails"] = 1
			ev.Sample = map[string]interface{}{"spec": g.Spec, "outcome": msg}
			dir := filepath.Join(verifRoot, "replays", id)
			os.MkdirAll(dir, 0o755)
			rp := filepath.Join(dir, fmt.Sprintf("build-%d.json", i))
			b, _ := json.MarshalIndent(map[string]interface{}{"property": id, "check": name, "spec": g.Spec, "args": g.Args, "more": g.More, "forbid_ident": g.ForbidIdent, "message": msg}, "", " ")
			os.WriteFile(rp, b, 0o644)
			fmt.Printf("VIOLATION property=%s replay=%s\n", id, rp)
			first := msg
			if j := strings.Index(first, "\n"); j > 0 && j < 300 {
				first = first[:j]
			}
			fmt.Printf("   build %s: %s\n", g.Spec, first)
		}
		evs = append(evs, ev)
	}
	status := "holds"
	rc := 0
	if violations > 0 {
		status, rc = "violated", 1
	}
	writeEvidence(name, id, tier, seed, cfg, evs, nil, time.Since(start), status, violations, 0)
	fmt.Fprintf(os.Stderr, "[%s] %s (%.1fs)\n", id, status, time.Since(start).Seconds())
	return rc
}

// scanForbidden parses every generated Go file and reports the identifiers (code, not comments or
// string literals) that start with the prefix.
func scanForbidden(root, prefix string) (hits []string, nfiles int, perr string) {
	fset := token.NewFileSet()
	seen := map[string]bool{}
	filepath.Walk(root, func(p string, info os.FileInfo, err error) error {
		if err != nil || info.IsDir() || !strings.HasSuffix(p, ".go") {
			return nil
		}
		f, err := parser.ParseFile(fset, p, nil, 0)
		if err != nil {
			if perr == "" {
				perr = err.Error()
			}
			return nil
		}
		nfiles++
		rel, _ := filepath.Rel(root, p)
		ast.Inspect(f, func(n ast.Node) bool {
			if id, ok := n.(*ast.Ident); ok && strings.HasPrefix(id.Name, prefix) {
				k := id.Name + " in " + rel
				if !seen[k] {
					seen[k] = true
					hits = append(hits, k)
				}
			}
			return true
		})
		return nil
	})
	sort.Strings(hits)
	return
}

func runReplayFile(path string) int {
	b, err := os.ReadFile(path)
	if err != nil {
		fmt.Fprintln(os.Stderr, err)
		return 2
	}
	var doc struct {
		Property string         `json:"property"`
		Check    string         `json:"check"`
		Harness  string         `json:"harness"`
		Vector   []string       `json:"vector"`
		Params   map[string]int `json:"params"`
		Message  string         `json:"message"`
	}
	if err := json.Unmarshal(b, &doc); err != nil {
		fmt.Fprintln(os.Stderr, err)
		return 2
	}
	if doc.Check == "" {
		doc.Check = doc.Property
	}
	if doc.Harness == "" {
		// a build violation: generate from the recorded spec and compile again
		var bd struct {
			Spec string     `json:"spec"`
			Args []string   `json:"args"`
			More [][]string `json:"more"`
			ForbidIdent string `json:"forbid_ident"`
		}
		if json.Unmarshal(b, &bd) == nil && bd.Spec != "" {
			cfg := CheckCfg{Property: doc.Property, BuildOnly: []GenCfg{{Spec: bd.Spec, Args: bd.Args, More: bd.More, ForbidIdent: bd.ForbidIdent}}}
			dir := filepath.Join(envOr("VERIF_BUILD", filepath.Join(verifRoot, ".build")), doc.Check+"-replay")
			os.MkdirAll(dir, 0o755)
			return runBuildOnly(doc.Check+"-replay", cfg, "quick", envOr("VERIF_REPO", "/repo"), dir, 0, time.Now())
		}
	}
	cfgB, err := os.ReadFile(filepath.Join(verifRoot, "checks", doc.Check+".json"))
	if err != nil {
		fmt.Fprintln(os.Stderr, err)
		return 2
	}
	var cfg CheckCfg
	json.Unmarshal(cfgB, &cfg)
	repo := envOr("VERIF_REPO", "/repo")
	buildDir := filepath.Join(envOr("VERIF_BUILD", filepath.Join(verifRoot, ".build")), doc.Check)
	os.MkdirAll(buildDir, 0o755)
	if cfg.Gen != nil {
		g, err := prepareGen(cfg, repo, buildDir)
		if err != nil {
			fmt.Fprintln(os.Stderr, "gen:", err)
			return 2
		}
		if cfg.Gen.LoadRepo {
			os.Setenv("VERIF_GEN_DIR", g)
		} else {
			repo = g
		}
	}
	_, repl, err := prepareOverlay(cfg.harnessRoot(), repo, cfg.Package, buildDir)
	if err != nil {
		fmt.Fprintln(os.Stderr, err)
		return 2
	}
	res, err := nativeRun(repo, cfg.Package, buildDir, repl, []replayItem{{ID: "replay", Harness: doc.Harness, Vector: doc.Vector, Params: doc.Params}})
	if err != nil || len(res) == 0 {
		fmt.Fprintln(os.Stderr, "replay failed:", err)
		return 2
	}
	r := res[0]
	fmt.Printf("replay of %s: harness=%s native outcome=%s msg=%q observations=%v\n", path, doc.Harness, r.Outcome, r.Msg, r.Observes)
	if r.Outcome == "assert" || r.Outcome == "panic" {
		fmt.Printf("VIOLATION property=%s replay=%s\n", doc.Property, path)
		return 1
	}
	return 0
}

// ---------------------------------------------------------------------------
// evidence

func writeEvidence(name, id, tier string, seed int, cfg CheckCfg, evs []*harnessEvidence, eng *Engine, wall time.Duration, status string, violations, validated int) {
	states, transitions, obligations, discharged := 0, 0, 0, 0
	var samples []interface{}
	exhaustive := true
	funcs := map[string]bool{}
	stubs := map[string]bool{}
	q := map[string]int{}
	solverS := 0.0
	for _, ev := range evs {
		states += ev.Paths
		transitions += ev.Decisions
		obligations += ev.Obligations
		discharged += ev.Discharged
		if ev.Sample != nil {
			samples = append(samples, map[string]interface{}{"harness": ev.Name, "case": ev.Sample})
		}
		if !ev.Exhaustive {
			exhaustive = false
		}
		for _, f := range ev.Functions {
			funcs[f] = true
		}
		for _, s := range ev.Stubs {
			stubs[s] = true
		}
		for k, v := range ev.Queries {
			q[k] += v
		}
		solverS += ev.SolverS
	}
	if len(samples) == 0 {
		samples = append(samples, map[string]interface{}{"note": "no path completed", "status": status})
	}
	if states == 0 {
		states = 1
	}
	if transitions == 0 {
		transitions = 1
	}
	level := cfg.Level
	if level == "" {
		level = "model_checking"
	}
	cov := map[string]interface{}{
		"states": states, "transitions": transitions, "traces_validated_against_impl": validated, "samples": samples,
		"obligations": obligations, "discharged": discharged, "exhaustive": exhaustive && strings.HasPrefix(status, "holds"),
		"harnesses": evs, "functions_encoded": sortedKeysB(funcs), "stubs_hit": sortedKeysB(stubs),
		"solver_queries": q, "solver_time_s": solverS, "solver": envOr("VERIF_SOLVER", "z3") + " (long-lived -in process per worker)",
		"status": status, "outside_claim": cfg.Outside,
		"explanation": "states = symbolic paths completed (each decided by SMT feasibility queries over all input values within the bounds); transitions = branch decisions; obligations = vAssert sites reached on feasible paths, discharged = negation unsat.",
	}
	assumptions := append([]string{}, cfg.Assumptions...)
	assumptions = append(assumptions, "go/ssa translation and the engine's interpretation of it (validated on every run by native re-execution of sampled paths)",
		"SMT solver verdicts (z3 4.8.12; z3-new/cvc5 only as fallback on unknown)")
	doc := map[string]interface{}{
		"property_id": id, "tier": tier, "seed": seed, "level": level, "coverage": cov,
		"assumptions": assumptions, "wall_s": wall.Seconds(), "violations": violations,
	}
	b, _ := json.MarshalIndent(doc, "", " ")
	os.MkdirAll(filepath.Join(verifRoot, "evidence"), 0o755)
	os.WriteFile(filepath.Join(verifRoot, "evidence", name+".json"), b, 0o644)
}
