//go:build verif

package generator

import (
	"os"
	"path/filepath"
	"strings"

	"github.com/go-openapi/spec"
)

func init() {
	vRegister("VerifC08Render", VerifC08Render)
	vRegister("VerifC08FileNames", VerifC08FileNames)
}

const vGenOptsM = "(*github.com/go-swagger/go-swagger/generator.GenOpts)."

func vDefOfKind(k int) spec.Schema {
	switch k {
	case 0:
		return vObj(map[string]spec.Schema{"id": *spec.Int64Property()})
	case 1: // binary stream
		s := spec.Schema{}
		s.Type = spec.StringOrArray{"string"}
		s.Format = "binary"
		return s
	case 2:
		return *spec.ArrayProperty(spec.StringProperty())
	case 3:
		return *spec.MapProperty(spec.Int32Property())
	case 4:
		s := *spec.StringProperty()
		s.Enum = []interface{}{"a", "b"}
		return s
	default:
		s := *spec.Float64Property()
		mx := 3.5
		s.Maximum = &mx
		return s
	}
}

func vCountFiles(dir, suffix string) int {
	n := 0
	_ = filepath.Walk(dir, func(p string, info os.FileInfo, err error) error {
		if err == nil && !info.IsDir() && strings.HasSuffix(p, suffix) {
			n++
		}
		return nil
	})
	return n
}

// C08 (rendering): Generate renders every planned model and every planned operation - whatever
// the kind of the definition - exactly once. Symbolically the render* methods are stubs that log
// their calls; natively the real generation runs into a temporary module and the files are counted.
func VerifC08Render() {
	sw := vBaseSpec()
	nd := 1 + vChoice("ndefs", 2)
	names := []string{"Alpha", "beta_item"}
	sw.Definitions = spec.Definitions{}
	for i := 0; i < nd; i++ {
		sw.Definitions[names[i]] = vDefOfKind(vChoice("kind", 6))
	}
	nops := 1 + vChoice("nops", 2)
	for i := 0; i < nops; i++ {
		op := &spec.Operation{}
		op.ID = []string{"listThings", "dropThings"}[i]
		op.Responses = vOKResponses()
		vAddOp(sw, []string{"GET", "DELETE"}[i], "/things", op)
	}
	models, operations := 0, 0
	var err error
	if vSymbolic() {
		vStubReturn(vGenOptsM+"renderDefinition", nil)
		vStubReturn(vGenOptsM+"renderOperation", nil)
		vStubReturn(vGenOptsM+"renderOperationGroup", nil)
		vStubReturn(vGenOptsM+"renderApplication", nil)
		ag := vAppGenerator(sw)
		if ag == nil {
			return
		}
		err = ag.Generate()
		for _, c := range vCallLog() {
			if strings.HasPrefix(c, vGenOptsM+"renderDefinition(") {
				models++
			}
			if strings.HasPrefix(c, vGenOptsM+"renderOperation(") {
				operations++
			}
		}
	} else {
		dir, derr := os.MkdirTemp("", "verifc08")
		if derr != nil {
			panic(derr)
		}
		defer os.RemoveAll(dir)
		_ = os.WriteFile(filepath.Join(dir, "go.mod"), []byte("module verifgen\n\ngo 1.23\n"), 0o600)
		ag := vAppGeneratorAt(sw, dir)
		if ag == nil {
			return
		}
		err = ag.Generate()
		models = vCountFiles(filepath.Join(dir, "models"), ".go")
		operations = vCountFiles(filepath.Join(dir, "restapi", "operations"), "_parameters.go")
	}
	vCover("rendered")
	vAssert(err == nil, "generation fails")
	vObserve("models", models)
	vObserve("operations", operations)
	vAssert(models == nd, "a definition of the spec is not rendered (or rendered twice)")
	vAssert(operations == nops, "an operation of the spec is not rendered (or rendered twice)")
}

// file name suffixes that make `go build` ignore or restrict a file: go/build/syslist.go of the
// toolchain (knownOS, knownArch: "past, present and future" values, all of them matched) and _test
var vKnownOS = []string{"aix", "android", "darwin", "dragonfly", "freebsd", "hurd", "illumos", "ios", "js", "linux", "nacl", "netbsd", "openbsd", "plan9", "solaris", "wasip1", "windows", "zos"}
var vKnownArch = []string{"386", "amd64", "amd64p32", "arm", "armbe", "arm64", "arm64be", "loong64", "mips", "mipsle", "mips64", "mips64le", "mips64p32", "mips64p32le", "ppc", "ppc64", "ppc64le", "riscv", "riscv64", "s390", "s390x", "sparc", "sparc64", "wasm"}

// C08 (file names): no definition or operation name is mangled to a file name that go build
// would leave out of the package (name_GOOS.go, name_GOARCH.go, name_GOOS_GOARCH.go, name_test.go)
func VerifC08FileNames() {
	words := append(append([]string{}, vKnownOS...), vKnownArch...)
	words = append(words, "test")
	w := words[vChoice("suffix", len(words))]
	name := []string{"campaign_", "Campaign ", "campaign-", "x.linux_"}[vChoice("stem", 4)] + w
	if vBool2("upper") {
		name = strings.ToUpper(name[:1]) + name[1:]
	}
	fn := GoLangOpts().MangleFileName(name)
	vCover("mangled")
	parts := strings.Split(fn, "_")
	last := parts[len(parts)-1]
	for _, k := range words {
		vAssert(last != k, "a generated file name ends in a suffix that go build treats as a constraint: "+fn+".go")
	}
}

func init() { vRegister("VerifC08SectionFiles", VerifC08SectionFiles) }

// vEvalFileName evaluates a file name template of DefaultSectionOpts for a name. Only the action
// forms in use (function applications of snakize/pascalize on .Name) are understood; anything else
// is reported as not evaluable and left out of the claim.
func vEvalFileName(tpl, name string) (string, bool) {
	i := strings.Index(tpl, "{{")
	if i < 0 {
		return tpl, true
	}
	j := strings.Index(tpl, "}}")
	if j < i || strings.Contains(tpl[j+2:], "{{") {
		return "", false
	}
	action := strings.NewReplacer("(", " ", ")", " ").Replace(tpl[i+2 : j])
	toks := strings.Fields(action)
	if len(toks) == 0 || toks[len(toks)-1] != ".Name" {
		return "", false
	}
	v := name
	for k := len(toks) - 2; k >= 0; k-- {
		switch toks[k] {
		case "snakize":
			v = GoLangOpts().MangleFileName(v)
		case "pascalize":
			v = pascalize(v)
		default:
			return "", false
		}
	}
	return tpl[:i] + v + tpl[j+2:], true
}

// go/build's rule for implicit constraints from file names (goodOSArchFile) plus _test files
func vBuildConstrained(file string) bool {
	name := strings.TrimSuffix(file, ".go")
	if strings.HasSuffix(name, "_test") {
		return true
	}
	i := strings.Index(name, "_")
	if i < 0 {
		return false
	}
	l := strings.Split(name[i:], "_")
	n := len(l)
	in := func(w string, set []string) bool {
		for _, k := range set {
			if k == w {
				return true
			}
		}
		return false
	}
	if n >= 2 && in(l[n-2], vKnownOS) && in(l[n-1], vKnownArch) {
		return true
	}
	return n >= 1 && (in(l[n-1], vKnownOS) || in(l[n-1], vKnownArch))
}

var vEntityNames = []string{"+1", "-1", "1", "pet", "Pet", "linux", "Android", "windows", "test", "my app", "x_test", "ppc64", "campaign_ppc", "a.b", "a-b"}

// C08/C01 (file plan): for the file name templates of every section, evaluated on awkward entity
// names: the file is not one `go build` leaves out, and two entities with distinct Go names never
// share a file.
func VerifC08SectionFiles() {
	g := &GenOpts{}
	g.LanguageOpts = GoLangOpts()
	g.IncludeModel, g.IncludeHandler, g.IncludeParameters, g.IncludeResponses, g.IncludeURLBuilder, g.IncludeSupport, g.IncludeMain = true, true, true, true, true, true, true
	g.IsClient = vBool2("client")
	DefaultSectionOpts(g)
	var sec []TemplateOpts
	section := vChoice("section", 4)
	switch section {
	case 0:
		sec = g.Sections.Models
	case 1:
		sec = g.Sections.Operations
	case 2:
		sec = g.Sections.OperationGroups
	default:
		sec = g.Sections.Application
	}
	n1 := vEntityNames[vChoice("name1", len(vEntityNames))]
	n2 := vEntityNames[vChoice("name2", len(vEntityNames))]
	evaluated := 0
	for _, t := range sec {
		f1, ok1 := vEvalFileName(t.FileName, n1)
		f2, ok2 := vEvalFileName(t.FileName, n2)
		if !ok1 || !ok2 {
			continue
		}
		evaluated++
		vAssert(!vBuildConstrained(f1), "a planned file name is one go build leaves out of the package: "+f1)
		// (one run renders a single application: only models, operations and groups come in numbers)
		if section != 3 && pascalize(n1) != pascalize(n2) && strings.Contains(t.FileName, "{{") {
			vAssert(f1 != f2, "two entities with different Go names are written to the same file: "+f1)
		}
	}
	vObserve("evaluated", evaluated)
	if evaluated > 0 {
		vCover("evaluated")
	}
}
