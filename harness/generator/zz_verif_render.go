//go:build verif

package generator

import (
	"os"
	"path/filepath"
	"strings"

	"github.com/go-openapi/spec"
)

func init() {
	vRegister("VerifC08Render", VerifC08Render)
	vRegister("VerifC08FileNames", VerifC08FileNames)
}

const vGenOptsM = "(*github.com/go-swagger/go-swagger/generator.GenOpts)."

func vDefOfKind(k int) spec.Schema {
	switch k {
	case 0:
		return vObj(map[string]spec.Schema{"id": *spec.Int64Property()})
	case 1: // binary stream
		s := spec.Schema{}
		s.Type = spec.StringOrArray{"string"}
		s.Format = "binary"
		return s
	case 2:
		return *spec.ArrayProperty(spec.StringProperty())
	case 3:
		return *spec.MapProperty(spec.Int32Property())
	case 4:
		s := *spec.StringProperty()
		s.Enum = []interface{}{"a", "b"}
		return s
	default:
		s := *spec.Float64Property()
		mx := 3.5
		s.Maximum = &mx
		return s
	}
}

func vCountFiles(dir, suffix string) int {
	n := 0
	_ = filepath.Walk(dir, func(p string, info os.FileInfo, err error) error {
		if err == nil && !info.IsDir() && strings.HasSuffix(p, suffix) {
			n++
		}
		return nil
	})
	return n
}

// C08 (rendering): Generate renders every planned model and every planned operation - whatever
// the kind of the definition - exactly once. Symbolically the render* methods are stubs that log
// their calls; natively the real generation runs into a temporary module and the files are counted.
func VerifC08Render() {
	sw := vBaseSpec()
	nd := 1 + vChoice("ndefs", 2)
	names := []string{"Alpha", "beta_item"}
	sw.Definitions = spec.Definitions{}
	for i := 0; i < nd; i++ {
		sw.Definitions[names[i]] = vDefOfKind(vChoice("kind", 6))
	}
	nops := 1 + vChoice("nops", 2)
	for i := 0; i < nops; i++ {
		op := &spec.Operation{}
		op.ID = []string{"listThings", "dropThings"}[i]
		op.Responses = vOKResponses()
		vAddOp(sw, []string{"GET", "DELETE"}[i], "/things", op)
	}
	models, operations := 0, 0
	var err error
	if vSymbolic() {
		vStubReturn(vGenOptsM+"renderDefinition", nil)
		vStubReturn(vGenOptsM+"renderOperation", nil)
		vStubReturn(vGenOptsM+"renderOperationGroup", nil)
		vStubReturn(vGenOptsM+"renderApplication", nil)
		ag := vAppGenerator(sw)
		if ag == nil {
			return
		}
		err = ag.Generate()
		for _, c := range vCallLog() {
			if strings.HasPrefix(c, vGenOptsM+"renderDefinition(") {
				models++
			}
			if strings.HasPrefix(c, vGenOptsM+"renderOperation(") {
				operations++
			}
		}
	} else {
		dir, derr := os.MkdirTemp("", "verifc08")
		if derr != nil {
			panic(derr)
		}
		defer os.RemoveAll(dir)
		_ = os.WriteFile(filepath.Join(dir, "go.mod"), []byte("module verifgen\n\ngo 1.23\n"), 0o600)
		ag := vAppGeneratorAt(sw, dir)
		if ag == nil {
			return
		}
		err = ag.Generate()
		models = vCountFiles(filepath.Join(dir, "models"), ".go")
		operations = vCountFiles(filepath.Join(dir, "restapi", "operations"), "_parameters.go")
	}
	vCover("rendered")
	vAssert(err == nil, "generation fails")
	vObserve("models", models)
	vObserve("operations", operations)
	vAssert(models == nd, "a definition of the spec is not rendered (or rendered twice)")
	vAssert(operations == nops, "an operation of the spec is not rendered (or rendered twice)")
}

// file name suffixes that make `go build` ignore or restrict a file: go/build/syslist.go of the
// toolchain (knownOS, knownArch: "past, present and future" values, all of them matched) and _test
var vKnownOS = []string{"aix", "android", "darwin", "dragonfly", "freebsd", "hurd", "illumos", "ios", "js", "linux", "nacl", "netbsd", "openbsd", "plan9", "solaris", "wasip1", "windows", "zos"}
var vKnownArch = []string{"386", "amd64", "amd64p32", "arm", "armbe", "arm64", "arm64be", "loong64", "mips", "mipsle", "mips64", "mips64le", "mips64p32", "mips64p32le", "ppc", "ppc64", "ppc64le", "riscv", "riscv64", "s390", "s390x", "sparc", "sparc64", "wasm"}

// C08 (file names): no definition or operation name is mangled to a file name that go build
// would leave out of the package (name_GOOS.go, name_GOARCH.go, name_GOOS_GOARCH.go, name_test.go)
func VerifC08FileNames() {
	words := append(append([]string{}, vKnownOS...), vKnownArch...)
	words = append(words, "test")
	w := words[vChoice("suffix", len(words))]
	name := []string{"campaign_", "Campaign ", "campaign-", "x.linux_"}[vChoice("stem", 4)] + w
	if vBool2("upper") {
		name = strings.ToUpper(name[:1]) + name[1:]
	}
	fn := GoLangOpts().MangleFileName(name)
	vCover("mangled")
	parts := strings.Split(fn, "_")
	last := parts[len(parts)-1]
	for _, k := range words {
		vAssert(last != k, "a generated file name ends in a suffix that go build treats as a constraint: "+fn+".go")
	}
}
