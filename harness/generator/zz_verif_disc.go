//go:build verif

package generator

import (
	"github.com/go-openapi/spec"
)

func init() { vRegister("VerifC05Discriminator", VerifC05Discriminator) }

func vSubtype(base string, xclass string, extra string) spec.Schema {
	s := spec.Schema{}
	own := vObj(map[string]spec.Schema{extra: *spec.Int64Property()})
	s.AllOf = []spec.Schema{*spec.RefSchema("#/definitions/" + base), own}
	if xclass != "" {
		s.AddExtension("x-class", xclass)
	}
	return s
}

// C05/C04 (planning): in a polymorphic hierarchy the value a subtype writes into the discriminator
// property and the label under which the base type's Unmarshal<Base> looks the subtype up are the
// same string - the x-class value when given, the definition name otherwise - for every subtype.
func VerifC05Discriminator() {
	sw := vBaseSpec()
	base := vObj(map[string]spec.Schema{"petType": *spec.StringProperty(), "name": *spec.StringProperty()}, "petType")
	base.Discriminator = "petType"
	xDog := []string{"", "canine", "Dog", "cat"}[vChoice("dog.x-class", 4)]
	xCat := []string{"", "feline"}[vChoice("cat.x-class", 2)]
	sw.Definitions = spec.Definitions{"Pet": base, "Cat": vSubtype("Pet", xCat, "lives"), "Dog": vSubtype("Pet", xDog, "barks")}
	pet, cat, dog := vPlan(sw, "Pet"), vPlan(sw, "Cat"), vPlan(sw, "Dog")
	vCover("planned")
	wantDog, wantCat := "Dog", "Cat"
	if xDog != "" {
		wantDog = xDog
	}
	if xCat != "" {
		wantCat = xCat
	}
	vAssert(pet.IsBaseType && pet.DiscriminatorField == "petType", "the base type is not planned as a discriminated base type")
	vAssert(dog.DiscriminatorValue == wantDog, "a subtype does not write its x-class (or name) into the discriminator property")
	vAssert(cat.DiscriminatorValue == wantCat, "a subtype does not write its x-class (or name) into the discriminator property")
	vAssert(pet.Discriminates[dog.DiscriminatorValue] == "Dog", "the base type does not find a subtype under the value that subtype writes")
	vAssert(pet.Discriminates[cat.DiscriminatorValue] == "Cat", "the base type does not find a subtype under the value that subtype writes")
	vAssert(dog.DiscriminatorField == "petType" && cat.DiscriminatorField == "petType", "a subtype does not know the discriminator property")
}

func init() { vRegister("VerifC05Tuple", VerifC05Tuple) }

// C05 (planning): the members planned for a tuple (items given as a list) stay in the positions of
// the JSON array: member i has the type of items[i]. The tuple serializer binds position i to the
// i-th planned member.
func VerifC05Tuple() {
	n := []int{2, 3, 11, 12}[vChoice("items", 4)]
	kinds := []spec.Schema{*spec.StringProperty(), *spec.Int64Property(), *spec.BoolProperty()}
	gotypes := []string{"string", "int64", "bool"}
	tuple := spec.Schema{}
	tuple.Type = spec.StringOrArray{"array"}
	tuple.Items = &spec.SchemaOrArray{}
	for i := 0; i < n; i++ {
		tuple.Items.Schemas = append(tuple.Items.Schemas, kinds[i%3])
	}
	sw := vBaseSpec()
	sw.Definitions = spec.Definitions{"Row": tuple}
	gd := vPlan(sw, "Row")
	vCover("planned")
	vAssert(gd.IsTuple, "a list of item schemas is not planned as a tuple")
	vAssert(len(gd.Properties) == n, "the tuple does not have one member per item schema")
	for i := 0; i < n && i < len(gd.Properties); i++ {
		p := gd.Properties[i]
		vAssert(p.GoType == gotypes[i%3] || p.GoType == "*"+gotypes[i%3], "tuple member i is not planned with the type of items[i] (positions are shuffled)")
	}
}
