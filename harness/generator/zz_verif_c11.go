//go:build verif

package generator

import (
	"errors"
	"os"
	"path/filepath"
	"strings"

	"github.com/go-openapi/analysis"
	"github.com/go-openapi/spec"
)

func init() {
	vRegister("VerifC11SectionPlan", VerifC11SectionPlan)
	vRegister("VerifC11WriteStep", VerifC11WriteStep)
}

// C11: which templates are protected against overwriting, for every combination of options
func VerifC11SectionPlan() {
	g := &GenOpts{}
	g.IsClient = vBool("IsClient")
	g.IncludeCLi = vBool("IncludeCLi")
	g.RegenerateConfigureAPI = vBool("RegenerateConfigureAPI")
	if vBool("hasImplementationPackage") {
		g.ImplementationPackage = "impl"
	}
	g.IncludeModel = vBool("IncludeModel")
	g.IncludeHandler = vBool("IncludeHandler")
	g.IncludeParameters = vBool("IncludeParameters")
	g.IncludeResponses = vBool("IncludeResponses")
	g.IncludeURLBuilder = vBool("IncludeURLBuilder")
	// options that have nothing to do with the protection of user-edited files
	g.Template = vOneOf("Template", "", "stratoscale")
	g.TemplateDir = vOneOf("TemplateDir", "", "/custom/templates")
	g.AllowTemplateOverride = vBool("AllowTemplateOverride")
	g.IncludeSupport = vBool("IncludeSupport")
	g.IncludeMain = vBool("IncludeMain")
	g.ExcludeSpec = vBool("ExcludeSpec")
	g.StrictResponders = vBool("StrictResponders")
	DefaultSectionOpts(g)
	vCover("planned")
	var all []TemplateOpts
	all = append(all, g.Sections.Models...)
	all = append(all, g.Sections.PostModels...)
	all = append(all, g.Sections.Operations...)
	all = append(all, g.Sections.OperationGroups...)
	all = append(all, g.Sections.Application...)
	nConfigure := 0
	for _, t := range all {
		if t.Name == "configure" {
			nConfigure++
			vAssert(t.SkipExists == !g.RegenerateConfigureAPI, "the configure file is not protected exactly when regeneration was not requested")
		} else {
			vAssert(!t.SkipExists, "a template other than configure is skipped when its file exists (stale generated code would survive)")
		}
		vAssert(t.Target != "" && t.FileName != "" && t.Source != "", "a planned template lacks target, file name or source")
	}
	wantConfigure := 0
	if !g.IsClient && g.ImplementationPackage == "" {
		wantConfigure = 1
	}
	vObserve("configure", nConfigure)
	vAssert(nConfigure == wantConfigure, "the user-editable configure file is planned in the wrong configurations")
	// two artefacts of one section never share a path template
	for _, sec := range [][]TemplateOpts{g.Sections.Models, g.Sections.Operations, g.Sections.OperationGroups, g.Sections.Application} {
		for i := range sec {
			for j := 0; j < i; j++ {
				vAssert(sec[i].Target != sec[j].Target || sec[i].FileName != sec[j].FileName, "two templates of a section write the same file")
			}
		}
	}
}

const vSrcGood = "package p\n\nfunc F() {}\n"
const vSrcBad = "package p\n\nfunc F( {}\n"

// C11: one write step from an arbitrary state of the target directory.
// Symbolic run: location/render/format and the os calls are stubs with the scenario's answers and every
// call is logged. Native replay: the same scenario is set up in a real temporary directory.
func VerifC11WriteStep() {
	skipExists := vBool2("SkipExists")
	skipFormat := vBool2("SkipFormat")
	exists := vBool2("fileExists")
	dirExists := vBool2("dirExists")
	goodSource := vBool2("templateYieldsValidGo")
	useDir := vBool2("nonEmptyDir")
	writeFails := vBool2("writeFails")
	if exists {
		dirExists = true
	}
	// natively a failing write is provoked by a directory sitting at the destination, which a
	// skip-exists template would (rightly) take for an existing file: keep the two apart
	vAssume(!(skipExists && writeFails))
	src := vSrcBad
	if goodSource {
		src = vSrcGood
	}
	const userText = "// edited by the user\npackage p\n"

	t := &TemplateOpts{Name: "configure", SkipExists: skipExists, SkipFormat: skipFormat, FileName: "f.go"}
	g := &GenOpts{}
	g.LanguageOpts = GoLangOpts()
	var root, dir string
	if vSymbolic() {
		dir = ""
		if useDir {
			dir = "d"
		}
		vStubReturn("(*github.com/go-swagger/go-swagger/generator.GenOpts).location", dir, "f.go", nil)
		vStubReturn("github.com/go-swagger/go-swagger/generator.fileExists", exists)
		vStubReturn("(*github.com/go-swagger/go-swagger/generator.GenOpts).render", []byte(src), nil)
		vStubReturn("os.Stat", nil, errors.New("stat"))
		vStubReturn("os.IsNotExist", !dirExists)
		vStubReturn("os.MkdirAll", nil)
		if goodSource {
			vStubReturn("(*github.com/go-swagger/go-swagger/generator.LanguageOpts).FormatContent", []byte(src), nil)
		} else {
			vStubReturn("(*github.com/go-swagger/go-swagger/generator.LanguageOpts).FormatContent", nil, errors.New("format"))
		}
		if writeFails {
			vStubReturn("os.WriteFile", errors.New("write"))
		} else {
			vStubReturn("os.WriteFile", nil)
		}
	} else {
		var err error
		root, err = os.MkdirTemp("", "verifc11")
		if err != nil {
			panic(err)
		}
		defer os.RemoveAll(root)
		dir = root
		if useDir {
			dir = filepath.Join(root, "d")
		}
		tpl := filepath.Join(root, "x.gotmpl")
		_ = os.WriteFile(tpl, []byte(src), 0o644)
		t.Source = tpl
		t.Target = dir
		g.Target = root
		g.templates = templates
		if dirExists && useDir {
			_ = os.MkdirAll(dir, 0o755)
		}
		if exists {
			_ = os.WriteFile(filepath.Join(dir, "f.go"), []byte(userText), 0o644)
		}
		_ = os.WriteFile(filepath.Join(root, "other.txt"), []byte("keep"), 0o644)
		if writeFails {
			// make the destination unwritable: a directory sits where the file should go
			if exists {
				_ = os.Remove(filepath.Join(dir, "f.go"))
			}
			_ = os.MkdirAll(filepath.Join(dir, "f.go"), 0o755)
		}
	}
	vCover("scenario")
	err := g.write(t, struct{ Name string }{"x"})
	failed := err != nil
	vObserve("failed", failed)

	// what happened to the destination file / to other files
	wroteDest, wroteOther, destText := false, false, ""
	if vSymbolic() {
		for _, c := range vCallLog() {
			if strings.HasPrefix(c, "os.WriteFile(") {
				if strings.HasPrefix(c, "os.WriteFile("+filepath.Join(dir, "f.go")+"|") {
					wroteDest = true
					destText = strings.TrimPrefix(c, "os.WriteFile("+filepath.Join(dir, "f.go")+"|")
					destText = destText[:strings.LastIndex(destText, "|")] // drop the permission argument
				} else {
					wroteOther = true
				}
			}
		}
	} else {
		b, rerr := os.ReadFile(filepath.Join(dir, "f.go"))
		if rerr == nil {
			destText = string(b)
			wroteDest = !(exists && destText == userText)
		}
		if o, oerr := os.ReadFile(filepath.Join(root, "other.txt")); oerr != nil || string(o) != "keep" {
			wroteOther = true
		}
		ents, _ := os.ReadDir(root)
		for _, e := range ents {
			n := e.Name()
			if n != "other.txt" && n != "x.gotmpl" && n != "d" && n != "f.go" {
				wroteOther = true
			}
		}
	}
	if writeFails {
		wroteDest = false
	}
	vObserve("wroteDest", wroteDest)
	vAssert(!wroteOther, "a write step touched a file other than its own destination")
	if skipExists && exists && !writeFails {
		vAssert(!failed, "skipping an existing protected file is reported as an error")
		vAssert(!wroteDest, "an existing user-editable file was rewritten although regeneration was not requested")
		return
	}
	if writeFails {
		if !(skipExists && exists) {
			vAssert(failed, "a failed write is reported as success")
		}
		return
	}
	if !skipFormat && !goodSource {
		vAssert(failed, "generation succeeds although the generated source could not be formatted")
		return
	}
	vAssert(!failed, "a plain write step failed")
	vAssert(wroteDest, "the destination file was not written")
	vAssert(destText == src, "the destination does not hold the rendered source")
}

func init() { vRegister("VerifC11WriteStepFS", VerifC11WriteStepFS) }

// C11: one write step against a modelled / real file system (no canned os answers): whatever os calls
// write() uses, a protected existing configure file - also one reached through a symbolic link - keeps
// its content, and an unprotected destination holds exactly the rendered source afterwards.
func VerifC11WriteStepFS() {
	skipExists := vBool2("SkipExists")
	skipFormat := vBool2("SkipFormat")
	dest := vChoice("destination", 5) // 0 absent (dir exists) 1 absent (dir missing) 2 longer user file 3 shorter user file 4 symlink to a user file
	goodSource := vBool2("templateYieldsValidGo")
	src := vSrcBad
	if goodSource {
		src = vSrcGood
		if skipFormat {
			// written as rendered: every byte counts, also a lone carriage return inside a comment
			// (the Go scanner does not end a line comment there)
			src = "package p\n\n// a note\rstill the note\nfunc F() {}\n"
		}
	}
	longText := "// edited by the user, and quite a bit longer than what the template renders ..............\npackage p\n\nfunc Mine() {}\n"
	shortText := "package p\n"
	userText := longText
	if dest == 3 {
		userText = shortText
	}
	root := "/work"
	if !vSymbolic() {
		var err error
		root, err = os.MkdirTemp("", "verifc11fs")
		if err != nil {
			panic(err)
		}
		defer os.RemoveAll(root)
	}
	dir := filepath.Join(root, "restapi")
	destPath := filepath.Join(dir, "configure_x.go")
	userPath := filepath.Join(root, "mine", "conf.go")
	otherPath := filepath.Join(root, "other.txt")
	tplPath := filepath.Join(root, "x.gotmpl")

	t := &TemplateOpts{Name: "configure", SkipExists: skipExists, SkipFormat: skipFormat, FileName: "configure_x.go", Target: dir}
	g := &GenOpts{}
	g.LanguageOpts = GoLangOpts()
	g.Target = root
	if vSymbolic() {
		vFSInit()
		vFSDir(root)
		vFSFile(otherPath, "keep")
		if dest != 1 {
			vFSDir(dir)
		}
		switch dest {
		case 2, 3:
			vFSFile(destPath, userText)
		case 4:
			vFSDir(filepath.Join(root, "mine"))
			vFSFile(userPath, userText)
			vFSSymlink(destPath, userPath)
		}
		vStubReturn("(*github.com/go-swagger/go-swagger/generator.GenOpts).location", dir, "configure_x.go", nil)
		vStubReturn("(*github.com/go-swagger/go-swagger/generator.GenOpts).render", []byte(src), nil)
		if goodSource {
			vStubReturn("(*github.com/go-swagger/go-swagger/generator.LanguageOpts).FormatContent", []byte(src), nil)
		} else {
			vStubReturn("(*github.com/go-swagger/go-swagger/generator.LanguageOpts).FormatContent", nil, errors.New("format"))
		}
	} else {
		_ = os.WriteFile(otherPath, []byte("keep"), 0o644)
		_ = os.WriteFile(tplPath, []byte(src), 0o644)
		t.Source = tplPath
		g.templates = templates
		if dest != 1 {
			_ = os.MkdirAll(dir, 0o755)
		}
		switch dest {
		case 2, 3:
			_ = os.WriteFile(destPath, []byte(userText), 0o644)
		case 4:
			_ = os.MkdirAll(filepath.Join(root, "mine"), 0o755)
			_ = os.WriteFile(userPath, []byte(userText), 0o644)
			_ = os.Symlink(userPath, destPath)
		}
	}
	vCover("scenario")
	err := g.write(t, struct{ Name string }{"x"})
	failed := err != nil
	vObserve("failed", failed)
	read := func(p string) (string, bool) {
		if vSymbolic() {
			return vFSRead(p)
		}
		b, e := os.ReadFile(p)
		return string(b), e == nil
	}
	got, gotOK := read(destPath)
	vObserve("destExists", gotOK)
	other, otherOK := read(otherPath)
	vAssert(otherOK && other == "keep", "a write step modified a file that is not its destination")
	exists := dest >= 2
	if exists && skipExists {
		vAssert(!failed, "skipping an existing protected file is reported as an error")
		vAssert(gotOK && got == userText, "an existing user-editable file was rewritten although regeneration was not requested")
		if dest == 4 {
			u, uok := read(userPath)
			vAssert(uok && u == userText, "the user's file behind the configure link was rewritten")
		}
		return
	}
	if !skipFormat && !goodSource {
		vAssert(failed, "generation succeeds although the generated source could not be formatted")
		return
	}
	vAssert(!failed, "a plain write step failed")
	vAssert(gotOK && got == src, "after the run the destination does not hold exactly the rendered source (stale bytes of an earlier generation?)")
}

func init() { vRegister("VerifC11RenderFilter", VerifC11RenderFilter) }

// C11 (which application files a run writes at all): the main program is written exactly when it
// was not excluded, the embedded spec exactly when it was not excluded, whatever the other options
// (an explicit --main-package, template sets ...): a run never writes a file the user opted out of.
func VerifC11RenderFilter() {
	g := &GenOpts{}
	g.LanguageOpts = GoLangOpts()
	g.IncludeMain = vBool("IncludeMain")
	g.ExcludeSpec = vBool("ExcludeSpec")
	g.MainPackage = vOneOf("MainPackage", "", "x", "app-server")
	g.IncludeSupport = vBool("IncludeSupport")
	g.IncludeCLi = vBool2("IncludeCLi")
	g.IsClient = vBool2("IsClient")
	g.Template = vOneOf("Template", "", "stratoscale")
	g.Name = vOneOf("Name", "", "app")
	DefaultSectionOpts(g)
	vCover("planned")
	for i := range g.Sections.Application {
		t := g.Sections.Application[i]
		got := g.shouldRenderApp(&t, nil)
		switch t.Name {
		case "main":
			vAssert(got == g.IncludeMain, "the main program is written although it was excluded (or skipped although it was asked for)")
		case "embedded_spec":
			vAssert(got == !g.ExcludeSpec, "the embedded spec is written although it was excluded (or skipped although it was asked for)")
		default:
			vAssert(got, "an application file of the plan is silently not written")
		}
	}
}

func init() { vRegister("VerifC11SpecDirUntouched", VerifC11SpecDirUntouched) }

// C11 (nothing of the user's is touched): loading and analysing the spec - with and without
// --keep-spec-order, for a YAML and for a JSON spec - leaves the directory the spec lives in, with
// the files next to it, exactly as it was. (--keep-spec-order works on an amended copy in a scratch
// directory; whatever is cleaned up afterwards must be that copy.)
func VerifC11SpecDirUntouched() {
	keepOrder := vBool2("keepSpecOrder")
	asJSON := vBool2("jsonSpec")
	base := "swagger.yml"
	if asJSON {
		base = "swagger.json"
	}
	sw := vBaseSpec()
	op := &spec.Operation{}
	op.ID = "getIt"
	op.Responses = vOKResponses()
	vAddOp(sw, "GET", "/x", op)
	// (JSON is YAML; symbolically the loader is a stub answering with sw)
	specText := []byte(`{"swagger":"2.0","info":{"title":"t","version":"1"},"paths":{"/x":{"get":{"operationId":"getIt","responses":{"200":{"description":"ok"}}}}}}`)
	notes, example := "notes of the user", "{\"name\":\"rex\"}"
	var root string
	read := func(p string) (string, bool) {
		if vSymbolic() {
			return vFSRead(p)
		}
		b, err := os.ReadFile(p)
		return string(b), err == nil
	}
	if vSymbolic() {
		vFSInit()
		root = "/proj"
		vFSDir(root)
		vFSDir(root + "/api")
		vFSDir(root + "/api/examples")
		vFSFile(root+"/api/"+base, string(specText))
		vFSFile(root+"/api/NOTES.md", notes)
		vFSFile(root+"/api/examples/pet.json", example)
		vStubReturn("github.com/go-openapi/loads.Spec", vDocument(sw), nil)
		vStubReturn("github.com/go-openapi/analysis.Flatten", nil)
		vStubReturn("github.com/go-openapi/swag.LoadFromFileOrHTTP", []byte("x"), nil)
		vStubReturn("github.com/go-swagger/go-swagger/generator.BytesToYAMLv2Doc", nil, nil)
		vStubReturn("gopkg.in/yaml.v2.Marshal", []byte("amended copy"), nil)
	} else {
		dir, err := os.MkdirTemp("", "verifc11")
		if err != nil {
			panic(err)
		}
		defer os.RemoveAll(dir)
		root = dir
		_ = os.MkdirAll(filepath.Join(root, "api", "examples"), 0o755)
		_ = os.WriteFile(filepath.Join(root, "api", base), specText, 0o600)
		_ = os.WriteFile(filepath.Join(root, "api", "NOTES.md"), []byte(notes), 0o600)
		_ = os.WriteFile(filepath.Join(root, "api", "examples", "pet.json"), []byte(example), 0o600)
	}
	opts := vGenOpts()
	opts.ValidateSpec = false
	opts.FlattenOpts = &analysis.FlattenOpts{Minimal: true}
	opts.PropertiesSpecOrder = keepOrder
	opts.Spec = root + "/api/" + base
	doc, _, err := opts.analyzeSpec()
	vCover("analysed")
	vAssert(err == nil && doc != nil, "a valid spec cannot be loaded and analysed")
	got, ok := read(root + "/api/" + base)
	vAssert(ok && got == string(specText), "the user's spec file is gone or changed after the spec was analysed")
	got, ok = read(root + "/api/NOTES.md")
	vAssert(ok && got == notes, "a file next to the spec is gone or changed after the spec was analysed")
	got, ok = read(root + "/api/examples/pet.json")
	vAssert(ok && got == example, "a file below the spec's directory is gone or changed after the spec was analysed")
}

func init() { vRegister("VerifC11SupportKeepsConfigure", VerifC11SupportKeepsConfigure) }

// C11 (the configure file is the user's): GenerateSupport on a target that already holds an edited
// restapi/configure_app.go - with or without --implementation-package, for server and client
// runs - leaves that file where it is with its content, unless --regenerate-configureapi asks
// for a new one. Symbolically the template sections are empty (nothing is rendered), so what is
// seen is what GenerateSupport does to the target by itself; natively the real rendering runs.
func VerifC11SupportKeepsConfigure() {
	withImpl := vBool2("implementationPackage")
	regenerate := vBool2("regenerateConfigureAPI")
	userText := "// edited by the user\npackage restapi\n\nfunc mine() {}\n"
	sw := vBaseSpec()
	op := &spec.Operation{}
	op.ID = "getIt"
	op.Responses = vOKResponses()
	vAddOp(sw, "GET", "/x", op)
	root := "/work"
	if vSymbolic() {
		vFSInit()
		vFSDir(root)
		vFSDir(root + "/restapi")
		vFSFile(root+"/restapi/configure_app.go", userText)
	} else {
		dir, err := os.MkdirTemp("", "verifc11s")
		if err != nil {
			panic(err)
		}
		defer os.RemoveAll(dir)
		root = dir
		_ = os.WriteFile(filepath.Join(root, "go.mod"), []byte("module verifgen\n\ngo 1.23\n"), 0o600)
		_ = os.MkdirAll(filepath.Join(root, "restapi"), 0o755)
		_ = os.WriteFile(filepath.Join(root, "restapi", "configure_app.go"), []byte(userText), 0o600)
	}
	ag := vAppGeneratorAt(sw, root)
	if ag == nil {
		return
	}
	if withImpl {
		ag.GenOpts.ImplementationPackage = "verifgen/impl"
	}
	ag.GenOpts.RegenerateConfigureAPI = regenerate
	err := ag.GenerateSupport(nil)
	vCover("supported")
	vAssert(err == nil, "GenerateSupport fails on a target that holds a configure file")
	var got string
	var ok bool
	if vSymbolic() {
		got, ok = vFSRead(root + "/restapi/configure_app.go")
	} else {
		b, rerr := os.ReadFile(filepath.Join(root, "restapi", "configure_app.go"))
		got, ok = string(b), rerr == nil
	}
	vAssert(ok, "the user's configure file is gone after generating the support files")
	if !regenerate {
		vAssert(ok && got == userText, "the user's configure file was changed although --regenerate-configureapi was not given")
	}
}
