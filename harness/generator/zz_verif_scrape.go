//go:build verif

package generator

import (
	"os"
	"path"
	"regexp"
	"sort"
	"strings"
)

// native cross-check: the import list of server/builder.gotmpl at the current tree is the one the harness assumes
func vCheckBuilderImports() {
	b, err := os.ReadFile(vRepoDir() + "/templates/server/builder.gotmpl")
	if err != nil {
		panic("ORACLE-MISMATCH: cannot read builder.gotmpl: " + err.Error())
	}
	txt := string(b)
	i := strings.Index(txt, "import (")
	j := strings.Index(txt[i:], ")")
	var got []string
	for _, m := range regexp.MustCompile(`(?m)^\s*(\w+\s+)?"([^"{}]+)"\s*$`).FindAllStringSubmatch(txt[i:i+j], -1) {
		alias := strings.TrimSpace(m[1])
		if alias == "" {
			alias = path.Base(m[2])
		}
		got = append(got, alias)
	}
	want := append([]string{}, vBuilderImports...)
	sort.Strings(got)
	sort.Strings(want)
	if strings.Join(got, ",") != strings.Join(want, ",") {
		panic("ORACLE-MISMATCH: builder.gotmpl imports " + strings.Join(got, ",") + " but the harness assumes " + strings.Join(want, ","))
	}
}
