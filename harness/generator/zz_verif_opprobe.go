//go:build verif

package generator

import (
	"github.com/go-openapi/analysis"
	"github.com/go-openapi/spec"
)

func init() { vRegister("VerifProbeOp", VerifProbeOp) }

func vOpBuilder(sw *spec.Swagger, method, path string, op *spec.Operation) codeGenOpBuilder {
	doc := vDocument(sw)
	return codeGenOpBuilder{
		Name:          op.ID,
		Method:        method,
		Path:          path,
		APIPackage:    "operations",
		ModelsPackage: "models",
		Principal:     "models.User",
		Target:        ".",
		Operation:     *op,
		Doc:           doc,
		PristineDefs:  doc,
		Analyzed:      analysis.New(sw),
		ExtraSchemas:  make(map[string]GenSchema),
		GenOpts:       vGenOpts(),
		DefaultScheme: "http", DefaultProduces: "application/json", DefaultConsumes: "application/json",
	}
}

func VerifProbeOp() {
	sw := &spec.Swagger{}
	sw.Swagger = "2.0"
	sw.Consumes = []string{"application/json"}
	sw.Produces = []string{"text/plain"}
	op := &spec.Operation{}
	op.ID = "getThing"
	q := spec.QueryParam("limit")
	q.Type = "integer"
	q.Format = "int32"
	mx := 10.0
	q.Maximum = &mx
	q.Required = true
	op.Parameters = []spec.Parameter{*q}
	op.Responses = &spec.Responses{}
	r := spec.Response{}
	r.Description = "ok"
	r.Schema = spec.StringProperty()
	op.Responses.StatusCodeResponses = map[int]spec.Response{200: r}
	sw.Paths = &spec.Paths{Paths: map[string]spec.PathItem{"/thing": {PathItemProps: spec.PathItemProps{Get: op}}}}
	b := vOpBuilder(sw, "GET", "/thing", op)
	gop, err := b.MakeOperation()
	vAssert(err == nil, "MakeOperation failed")
	vCover("planned")
	vObserve("nparams", len(gop.Params))
	vObserve("required", gop.Params[0].Required)
	vObserve("hasValidations", gop.Params[0].HasValidations)
	vObserve("consumes", gop.ConsumesMediaTypes)
	vObserve("nresp", len(gop.Responses))
}
