//go:build verif

package generator

import (
	"encoding/json"
	"os"

	"github.com/go-openapi/loads"
	"github.com/go-openapi/spec"
)

// vDocument wraps a swagger document the way the loader does. The symbolic engine builds the
// loads.Document directly (Analyzer = analysis.New(sw)); natively the spec goes through JSON.
func vDocument(sw *spec.Swagger) *loads.Document {
	b, err := json.Marshal(sw)
	if err != nil {
		panic(err)
	}
	d, err := loads.Analyzed(b, "")
	if err != nil {
		panic(err)
	}
	return d
}

func vGenOpts() *GenOpts {
	o := &GenOpts{}
	o.LanguageOpts = GoLangOpts()
	o.IncludeModel = true
	o.IncludeValidator = true
	o.ModelPackage = "models"
	o.Target = "."
	if !vSymbolic() {
		// natively the import path is derived from a real module directory
		o.Target = vRepoDir()
	}
	return o
}

func init() { vRegister("VerifProbeModel", VerifProbeModel) }

func VerifProbeModel() {
	sw := &spec.Swagger{}
	sw.Swagger = "2.0"
	sw.Paths = &spec.Paths{}
	addr := spec.Schema{}
	addr.Type = spec.StringOrArray{"object"}
	zip := spec.Schema{}
	zip.Type = spec.StringOrArray{"string"}
	ml := int64(5)
	zip.MaxLength = &ml
	addr.Properties = map[string]spec.Schema{"zip": zip}
	alias := *spec.RefSchema("#/definitions/Address")
	user := spec.Schema{}
	user.Type = spec.StringOrArray{"object"}
	user.Properties = map[string]spec.Schema{"home": *spec.RefSchema("#/definitions/Alias")}
	sw.Definitions = spec.Definitions{"Address": addr, "Alias": alias, "User": user}
	doc := vDocument(sw)
	gd, err := makeGenDefinition("User", "models", user, doc, vGenOpts())
	vAssert(err == nil, "makeGenDefinition failed")
	vCover("planned")
	vObserve("hasValidations", gd.GenSchema.HasValidations)
	vObserve("nprops", len(gd.GenSchema.Properties))
	vObserve("homeHasValidations", gd.GenSchema.Properties[0].HasValidations)
	vObserve("gotype", gd.GenSchema.Properties[0].GoType)
}

func vRepoDir() string {
	if d := os.Getenv("VERIF_REPO"); d != "" {
		return d + "/generator"
	}
	return "/repo/generator"
}
