//go:build verif

package generator

import (
	"encoding/json"
	"os"

	"github.com/go-openapi/loads"
	"github.com/go-openapi/spec"
)

// vDocument wraps a swagger document the way the loader does. The symbolic engine builds the
// loads.Document directly (Analyzer = analysis.New(sw)); natively the spec goes through JSON.
func vDocument(sw *spec.Swagger) *loads.Document {
	b, err := json.Marshal(sw)
	if err != nil {
		panic(err)
	}
	d, err := loads.Analyzed(b, "")
	if err != nil {
		panic(err)
	}
	return d
}

func vGenOpts() *GenOpts {
	o := &GenOpts{}
	o.LanguageOpts = GoLangOpts()
	o.IncludeModel = true
	o.IncludeValidator = true
	o.ModelPackage = "models"
	o.Target = "."
	if !vSymbolic() {
		// natively the import path is derived from a real module directory
		o.Target = vRepoDir()
	}
	return o
}

func vRepoDir() string {
	if d := os.Getenv("VERIF_REPO"); d != "" {
		return d + "/generator"
	}
	return "/repo/generator"
}
