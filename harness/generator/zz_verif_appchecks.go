//go:build verif

package generator

import (
	"reflect"
	"sort"
	"strings"

	"github.com/go-openapi/spec"
)

func init() {
	vRegister("VerifC06Security", VerifC06Security)
	vRegister("VerifC08App", VerifC08App)
	vRegister("VerifC04Media", VerifC04Media)
	vRegister("VerifC03Params", VerifC03Params)
}

func vBaseSpec() *spec.Swagger {
	sw := &spec.Swagger{}
	sw.Swagger = "2.0"
	sw.Info = &spec.Info{}
	sw.Info.Title = "t"
	sw.Info.Version = "1"
	sw.Paths = &spec.Paths{Paths: map[string]spec.PathItem{}}
	return sw
}

func vOKResponses() *spec.Responses {
	rs := &spec.Responses{}
	r := spec.Response{}
	r.Description = "ok"
	rs.StatusCodeResponses = map[int]spec.Response{200: r}
	return rs
}

func vAddOp(sw *spec.Swagger, method, path string, op *spec.Operation) {
	pi := sw.Paths.Paths[path]
	switch method {
	case "GET":
		pi.Get = op
	case "POST":
		pi.Post = op
	case "DELETE":
		pi.Delete = op
	case "PUT":
		pi.Put = op
	}
	sw.Paths.Paths[path] = pi
}

// one security requirement list out of a small catalogue; nil means "not specified"
func vSecurityChoice(tag string, allowNil bool) ([]map[string][]string, bool) {
	r, ok, _ := vSecurityPick(tag, allowNil)
	return r, ok
}

// vSecurityPick also returns the index chosen, so that an independent copy can be built with vSecurityOf
func vSecurityPick(tag string, allowNil bool) ([]map[string][]string, bool, int) {
	k := vChoice(tag, 10)
	r, ok := vSecurityOf(k, allowNil)
	return r, ok, k
}

// a fresh value on every call: nothing is shared with what was put into the spec
func vSecurityOf(k int, allowNil bool) ([]map[string][]string, bool) {
	switch k {
	case 0:
		if allowNil {
			return nil, false
		}
		return []map[string][]string{}, true
	case 1:
		return []map[string][]string{}, true // explicit: no security
	case 2:
		return []map[string][]string{{"key": {}}}, true
	case 3:
		return []map[string][]string{{"key": {}, "oauth": {"read"}}}, true // AND
	case 4:
		return []map[string][]string{{"key": {}}, {"basic": {}}}, true // OR
	case 7:
		return []map[string][]string{{"key": {}, "oauth": {"read", "write"}}}, true // same schemes as 3, more scopes
	case 8:
		return []map[string][]string{{"basic": {}, "key": {}}, {"oauth": {"read"}}}, true // same shape as the default case, fewer scopes
	case 9:
		return []map[string][]string{{"oauth": {"admin", "read"}}}, true // a scope the definition does not declare, sorting first
	case 6:
		return []map[string][]string{{"ghost": {}}}, true // names a scheme that is not declared: must fail closed
	default:
		return []map[string][]string{{"basic": {}, "key": {}}, {"oauth": {"read", "write"}}}, true
	}
}

// C06 (planning): Authorized <=> the effective requirement is non-empty; every scheme an effective
// requirement names is among the planned authenticators with the right kind; the planned alternatives
// of an operation are exactly those of its effective requirement.
func VerifC06Security() {
	sw := vBaseSpec()
	oa := spec.OAuth2AccessToken("http://a", "http://t")
	oa.Scopes = map[string]string{"read": "r", "write": "w"}
	sw.SecurityDefinitions = spec.SecurityDefinitions{"key": spec.APIKeyAuth("X-Key", "header"), "basic": spec.BasicAuth(), "oauth": oa}
	global, _, gk := vSecurityPick("global", true)
	sw.Security = global
	type opIn struct {
		id        string
		own       []map[string][]string
		specified bool
		k         int
	}
	var ops []opIn
	n := vParam("ops")
	for i := 0; i < n; i++ {
		own, specified, ok := vSecurityPick("op", true)
		id := []string{"opA", "opB"}[i]
		op := &spec.Operation{}
		op.ID = id
		op.Responses = vOKResponses()
		if specified {
			op.Security = own
		}
		vAddOp(sw, []string{"GET", "DELETE"}[i], "/thing", op)
		ops = append(ops, opIn{id, own, specified, ok})
	}
	app, err := vPlanApp(sw)
	vAssert(err == nil, "makeCodegenApp failed")
	if err != nil {
		return
	}
	vCover("planned")
	// planning must leave the requirements of the document alone: the server evaluates them at run time from the embedded spec
	wantGlobal, _ := vSecurityOf(gk, true)
	vAssert(reflect.DeepEqual(sw.Security, wantGlobal), "planning rewrote the global security requirements of the spec document")
	for _, in := range ops {
		wantOwn, _ := vSecurityOf(in.k, true)
		if in.specified {
			vAssert(reflect.DeepEqual(in.own, wantOwn), "planning rewrote an operation's security requirements in the spec document")
		}
	}
	planned := map[string]GenSecurityScheme{}
	for _, s := range app.SecurityDefinitions {
		planned[s.ID] = s
	}
	for _, in := range ops {
		eff := global
		if in.specified {
			eff = in.own
		}
		var gop *GenOperation
		for i := range app.Operations {
			if app.Operations[i].Name == in.id || strings.EqualFold(app.Operations[i].Name, in.id) {
				gop = &app.Operations[i]
			}
		}
		vAssert(gop != nil, "operation missing from the plan")
		if gop == nil {
			return
		}
		vObserve("authorized."+in.id, gop.Authorized)
		vAssert(gop.Authorized == (len(eff) > 0), "Authorize is planned although the effective requirement is empty, or omitted although it is not")
		vAssert(len(gop.Security) == len(eff), "number of planned security alternatives differs from the effective requirement")
		for i, alt := range eff {
			if i >= len(gop.Security) {
				break
			}
			var want []string
			for name, scopes := range alt {
				want = append(want, name+":"+strings.Join(scopes, ","))
				d, declared := sw.SecurityDefinitions[name]
				_ = d
				if !declared {
					continue
				}
				ps, ok := planned[name]
				vAssert(ok, "a scheme required by an operation has no planned authenticator")
				if ok {
					d := sw.SecurityDefinitions[name]
					vAssert(ps.IsBasicAuth == (d.Type == "basic") && ps.IsAPIKeyAuth == (d.Type == "apiKey") && ps.IsOAuth2 == (d.Type == "oauth2"), "planned authenticator kind does not match the scheme type")
					vAssert(ps.Name == d.Name && ps.Source == d.In, "apiKey name/location lost")
				}
			}
			sort.Strings(want)
			var got []string
			for _, r := range gop.Security[i] {
				got = append(got, r.Name+":"+strings.Join(r.Scopes, ","))
			}
			sort.Strings(got)
			vAssert(strings.Join(got, ";") == strings.Join(want, ";"), "a planned security alternative does not name the schemes/scopes of the requirement")
		}
	}
}

// C08 (planning): every operation and every definition of the spec has its own entry in the application plan
func VerifC08App() {
	sw := vBaseSpec()
	type key struct{ m, p string }
	seen := map[key]bool{}
	ids := map[string]bool{}
	n := vParam("ops")
	var want []key
	for i := 0; i < n; i++ {
		method := []string{"GET", "POST"}[vChoice("method", 2)]
		path := []string{"/a", "/a/{id}", "/b"}[vChoice("path", 3)]
		id := []string{"", "getA", "listThings"}[vChoice("id", 3)]
		if seen[key{method, path}] || (id != "" && ids[id]) {
			vAssume(false)
		}
		seen[key{method, path}] = true
		ids[id] = true
		op := &spec.Operation{}
		op.ID = id
		op.Responses = vOKResponses()
		if vBool2("tagged") {
			op.Tags = []string{[]string{"pets", "store"}[vChoice("tag", 2)]}
		}
		vAddOp(sw, method, path, op)
		want = append(want, key{method, path})
	}
	defs := []string{"Pet", "pet_list", "Order"}
	nd := vChoice("ndefs", 3)
	sw.Definitions = spec.Definitions{}
	for i := 0; i <= nd; i++ {
		sw.Definitions[defs[i]] = vObj(map[string]spec.Schema{"id": *spec.Int64Property()})
	}
	app, err := vPlanApp(sw)
	vAssert(err == nil, "makeCodegenApp failed")
	if err != nil {
		return
	}
	vCover("planned")
	vObserve("nops", len(app.Operations))
	vAssert(len(app.Operations) == len(want), "the plan has a different number of operations than the spec")
	names := map[string]bool{}
	for _, w := range want {
		cnt := 0
		for _, o := range app.Operations {
			if strings.EqualFold(o.Method, w.m) && o.Path == w.p {
				cnt++
			}
		}
		vAssert(cnt == 1, "an operation (method+path) of the spec is not planned exactly once")
	}
	for _, o := range app.Operations {
		vAssert(!names[o.Package+"."+o.Name], "two planned operations share a name in the same package")
		names[o.Package+"."+o.Name] = true
	}
	grouped := 0
	for _, g := range app.OperationGroups {
		grouped += len(g.Operations)
	}
	vAssert(grouped == len(app.Operations), "operation groups do not partition the operations")
	vAssert(len(app.Models) == nd+1, "the plan has a different number of models than the spec has definitions")
	mnames := map[string]bool{}
	for _, m := range app.Models {
		vAssert(!mnames[m.GoType], "two definitions are planned under the same Go type name")
		mnames[m.GoType] = true
	}
}

func vMediaList(tag string) []string {
	switch vChoice(tag, 4) {
	case 0:
		return nil
	case 1:
		return []string{"application/json"}
	case 2:
		return []string{"text/plain"}
	}
	return []string{"application/xml", "application/json"}
}

// C04 (planning): media types and response classification both sides share
func VerifC04Media() {
	sw := vBaseSpec()
	aspect := vChoice("aspect", 2) // 0: media types vary, 1: response codes vary
	op := &spec.Operation{}
	op.ID = "doIt"
	if aspect == 0 {
		sw.Consumes = vMediaList("spec.consumes")
		sw.Produces = vMediaList("spec.produces")
		op.Consumes = vMediaList("op.consumes")
		op.Produces = vMediaList("op.produces")
	}
	body := spec.BodyParam("body", spec.StringProperty())
	op.Parameters = []spec.Parameter{*body}
	rs := &spec.Responses{}
	rs.StatusCodeResponses = map[int]spec.Response{}
	codes := []int{200, 201, 226, 227, 299, 300, 404, 500}
	var declared []int
	if aspect == 1 {
		c1 := codes[vChoice("code1", len(codes))]
		c2 := codes[vChoice("code2", len(codes))]
		declared = []int{c1}
		if c2 != c1 {
			declared = append(declared, c2)
		}
	} else {
		declared = []int{200}
	}
	for _, c := range declared {
		r := spec.Response{}
		r.Description = "r"
		rs.StatusCodeResponses[c] = r
	}
	hasDefault := aspect == 1 && vBool2("default")
	if hasDefault {
		d := spec.Response{}
		d.Description = "d"
		rs.Default = &d
	}
	op.Responses = rs
	vAddOp(sw, "POST", "/x", op)
	app, err := vPlanApp(sw)
	vAssert(err == nil, "makeCodegenApp failed")
	if err != nil {
		return
	}
	vCover("planned")
	g := app.Operations[0]
	wantC := op.Consumes
	if len(wantC) == 0 {
		wantC = sw.Consumes
	}
	if len(wantC) == 0 {
		wantC = []string{"application/json"}
	}
	wantP := op.Produces
	if len(wantP) == 0 {
		wantP = sw.Produces
	}
	if len(wantP) == 0 {
		wantP = []string{"application/json"}
	}
	vObserve("consumes", g.ConsumesMediaTypes)
	vAssert(strings.Join(g.ConsumesMediaTypes, ",") == strings.Join(wantC, ","), "client consumes media types are not operation > spec > default")
	vAssert(strings.Join(g.ProducesMediaTypes, ",") == strings.Join(wantP, ","), "produces media types are not operation > spec > default")
	vAssert(len(g.Responses) == len(declared), "a declared response code is missing from the plan")
	for _, r := range g.Responses {
		vAssert(r.IsSuccess == (r.Code >= 200 && r.Code < 300), "a declared 2xx code is not planned as a typed result (or a non-2xx code is)")
	}
	vAssert((g.DefaultResponse != nil) == hasDefault, "default response presence differs from the spec")
	nsucc := 0
	for _, c := range declared {
		if c >= 200 && c < 300 {
			nsucc++
		}
	}
	vAssert(len(g.SuccessResponses) == nsucc, "the set of success responses is not the set of declared 2xx codes")
}

// C03 (planning): what the binder template needs about one non-body parameter
func VerifC03Params() {
	sw := vBaseSpec()
	in := []string{"query", "header", "formData", "path"}[vChoice("in", 4)]
	shape := vChoice("shape", 6) // 0 string 1 integer 2 number 3 boolean 4 []integer 5 [][]integer
	p := spec.Parameter{}
	p.Name = "limit"
	p.In = in
	p.Required = vBool("required")
	if in == "path" {
		vAssume(p.Required)
	}
	if in == "query" || in == "formData" {
		p.AllowEmptyValue = vBool("allowEmptyValue")
	}
	hasDefault := vBool2("hasDefault")
	mx := vF64("maximum")
	hasMax := vBool2("hasMaximum")
	ml := vI64("maxLength")
	vAssume(ml >= 0)
	hasML := vBool2("hasMaxLength")
	mi := vI64("maxItems")
	vAssume(mi >= 0)
	hasMI := vBool2("hasMaxItems")
	hasEnum := vBool2("hasEnum")
	leaf := func(cv *spec.CommonValidations, ss *spec.SimpleSchema, typ string) {
		ss.Type = typ
		if (typ == "integer" || typ == "number") && hasMax {
			v := mx
			cv.Maximum = &v
		}
		if typ == "string" && hasML {
			v := ml
			cv.MaxLength = &v
		}
	}
	switch shape {
	case 0:
		leaf(&p.CommonValidations, &p.SimpleSchema, "string")
		if hasDefault {
			p.Default = "d"
		}
		if hasEnum {
			p.Enum = []interface{}{"d", "e"}
		}
	case 1:
		leaf(&p.CommonValidations, &p.SimpleSchema, "integer")
		if hasDefault {
			p.Default = 3
		}
		if hasEnum {
			p.Enum = []interface{}{3, 4}
		}
	case 2:
		leaf(&p.CommonValidations, &p.SimpleSchema, "number")
	case 3:
		p.Type = "boolean"
		if hasEnum {
			p.Enum = []interface{}{true}
		}
	case 4, 5:
		p.Type = "array"
		if hasMI {
			v := mi
			p.MaxItems = &v
		}
		it := &spec.Items{}
		if shape == 4 {
			leaf(&it.CommonValidations, &it.SimpleSchema, "integer")
		} else {
			it.Type = "array"
			it2 := &spec.Items{}
			leaf(&it2.CommonValidations, &it2.SimpleSchema, "integer")
			it.Items = it2
		}
		p.Items = it
	}
	op := &spec.Operation{}
	op.ID = "doIt"
	op.Parameters = []spec.Parameter{p}
	op.Responses = vOKResponses()
	if in == "formData" {
		op.Consumes = []string{"application/x-www-form-urlencoded"}
	}
	path := "/x"
	if in == "path" {
		path = "/x/{limit}"
	}
	vAddOp(sw, "POST", path, op)
	app, err := vPlanApp(sw)
	vAssert(err == nil, "makeCodegenApp failed")
	if err != nil {
		return
	}
	vCover("planned")
	vObserve("shape", shape)
	g := app.Operations[0]
	vAssert(len(g.Params) == 1, "parameter lost")
	if len(g.Params) != 1 {
		return
	}
	gp := g.Params[0]
	vObserve("required", gp.Required)
	vAssert(gp.Required == p.Required, "the binder is planned with a different 'required' than the spec declares")
	vAssert(gp.AllowEmptyValue == p.AllowEmptyValue, "allowEmptyValue of a query/formData parameter is not carried to the binder")
	vAssert(gp.Location == in, "parameter location lost")
	numeric := shape == 1 || shape == 2
	if numeric {
		vAssert((gp.Maximum != nil) == hasMax, "maximum presence differs")
		if hasMax && gp.Maximum != nil {
			vAssert(*gp.Maximum == mx, "maximum changed")
			vAssert(gp.HasValidations, "a bounded numeric parameter is planned without validation")
		}
		vAssert(gp.Converter != "", "numeric parameter has no string converter")
	}
	if shape == 3 {
		vAssert(gp.Converter != "", "boolean parameter has no string converter")
	}
	if shape == 0 {
		vAssert((gp.MaxLength != nil) == hasML, "maxLength presence differs")
		if hasML && gp.MaxLength != nil {
			vAssert(*gp.MaxLength == ml && gp.HasValidations, "maxLength changed or not validated")
		}
	}
	if hasEnum && (shape == 0 || shape == 1 || shape == 3) {
		vAssert(len(gp.Enum) == len(p.Enum), "the enum of a parameter is lost")
		vAssert(gp.HasValidations, "a parameter restricted by an enum is planned without validation")
	}
	vAssert((gp.Converter != "") == (gp.Formatter != ""), "client formatter and server converter tables disagree for this type")
	if shape >= 4 {
		vAssert(gp.Child != nil, "array items lost")
		if gp.Child == nil {
			return
		}
		vAssert((gp.MaxItems != nil) == hasMI, "maxItems presence differs")
		c := gp.Child
		if shape == 5 {
			vAssert(c.Child != nil, "nested array items lost")
			if c.Child == nil {
				return
			}
			vAssert(vImplies(c.Child.NeedsIndex, c.NeedsIndex), "outer items loop drops the index the inner items need")
			vAssert(vImplies(c.Child.HasValidations, c.HasValidations), "inner item validations are not lifted")
			c = c.Child
		}
		vAssert(c.Converter != "", "integer item has no string converter")
		vAssert(c.NeedsIndex, "an item that must be converted does not get its index")
		vAssert((c.Maximum != nil) == hasMax, "item maximum presence differs")
		if hasMax && c.Maximum != nil {
			vAssert(*c.Maximum == mx && c.HasValidations && gp.HasValidations, "item maximum changed or its validation is not lifted to the parameter")
		}
	}
}
