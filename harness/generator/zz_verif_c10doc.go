//go:build verif

package generator

import (
	"strings"

	"github.com/go-openapi/spec"
)

func init() { vRegister("VerifC10FlatDoc", VerifC10FlatDoc) }

func vInlineBody(listProp, leafProp string, leaf spec.Schema, shape int) spec.Parameter {
	item := vObj(map[string]spec.Schema{leafProp: leaf})
	var holder spec.Schema
	switch shape {
	case 0:
		holder = vObj(map[string]spec.Schema{listProp: *spec.ArrayProperty(&item)})
	case 1:
		holder = vObj(map[string]spec.Schema{listProp: *spec.MapProperty(&item)})
	default:
		holder = vObj(map[string]spec.Schema{listProp: item})
	}
	p := spec.Parameter{}
	p.Name, p.In, p.Schema = "body", "body", &holder
	return p
}

// the object schema found behind prop of the body of op, following the $refs the planner may have introduced
func vLeafProps(sw *spec.Swagger, op *spec.Operation, prop string) map[string]spec.Schema {
	if op == nil || len(op.Parameters) == 0 || op.Parameters[0].Schema == nil {
		return nil
	}
	s, ok := op.Parameters[0].Schema.Properties[prop]
	if !ok {
		return nil
	}
	cur := &s
	for depth := 0; depth < 4; depth++ {
		if r := cur.Ref.String(); r != "" {
			d, ok := sw.Definitions[strings.TrimPrefix(r, "#/definitions/")]
			if !ok {
				return nil
			}
			cur = &d
			continue
		}
		if cur.Items != nil && cur.Items.Schema != nil {
			cur = cur.Items.Schema
			continue
		}
		if cur.AdditionalProperties != nil && cur.AdditionalProperties.Schema != nil {
			cur = cur.AdditionalProperties.Schema
			continue
		}
		break
	}
	return cur.Properties
}

// C10 (planning): the document handed to the embedded-spec template after planning still
// describes every operation's inline body the way the input did, whatever $refs and definitions
// the planner introduced for anonymous schemas on the way.
func VerifC10FlatDoc() {
	sw := vBaseSpec()
	shape := vChoice("shape", 3)
	sameProp := vBool2("samePropertyName")
	p1 := "list"
	p2 := "rows"
	if sameProp {
		p2 = "list"
	}
	a := &spec.Operation{}
	a.ID = "putPets"
	a.Parameters = []spec.Parameter{vInlineBody(p1, "z", *spec.StringProperty(), shape)}
	a.Responses = vOKResponses()
	b := &spec.Operation{}
	b.ID = "postPets"
	b.Parameters = []spec.Parameter{vInlineBody(p2, "q", *spec.Int64Property(), shape)}
	b.Responses = vOKResponses()
	vAddOp(sw, "PUT", "/pets", a)
	vAddOp(sw, "POST", "/pets", b)
	ag := vAppGenerator(sw)
	if ag == nil {
		return
	}
	_, err := ag.makeCodegenApp()
	vCover("planned")
	if err != nil {
		return
	}
	doc := ag.SpecDoc.Spec() // what makeCodegenApp marshals into FlatSwaggerJSON
	pi := doc.Paths.Paths["/pets"]
	la, lb := vLeafProps(doc, pi.Put, p1), vLeafProps(doc, pi.Post, p2)
	_, okA := la["z"]
	_, okB := lb["q"]
	if vKnown("C10-G8", sameProp && shape != 2 && !(okA && okB)) {
		return
	}
	vAssert(okA, "the embedded document no longer describes the first operation's inline body items as the input did")
	vAssert(okB, "the embedded document no longer describes the second operation's inline body items as the input did")
}
