//go:build verif

package generator

import (
	"encoding/json"
	"os"
	"path/filepath"
	"strings"

	"github.com/go-openapi/analysis"

	"github.com/go-openapi/spec"
)

func init() { vRegister("VerifC10FlatDoc", VerifC10FlatDoc) }

func vInlineBody(listProp, leafProp string, leaf spec.Schema, shape int) spec.Parameter {
	item := vObj(map[string]spec.Schema{leafProp: leaf})
	var holder spec.Schema
	switch shape {
	case 0:
		holder = vObj(map[string]spec.Schema{listProp: *spec.ArrayProperty(&item)})
	case 1:
		holder = vObj(map[string]spec.Schema{listProp: *spec.MapProperty(&item)})
	default:
		holder = vObj(map[string]spec.Schema{listProp: item})
	}
	p := spec.Parameter{}
	p.Name, p.In, p.Schema = "body", "body", &holder
	return p
}

// the object schema found behind prop of the body of op, following the $refs the planner may have introduced
func vLeafProps(sw *spec.Swagger, op *spec.Operation, prop string) map[string]spec.Schema {
	if op == nil || len(op.Parameters) == 0 || op.Parameters[0].Schema == nil {
		return nil
	}
	s, ok := op.Parameters[0].Schema.Properties[prop]
	if !ok {
		return nil
	}
	cur := &s
	for depth := 0; depth < 4; depth++ {
		if r := cur.Ref.String(); r != "" {
			d, ok := sw.Definitions[strings.TrimPrefix(r, "#/definitions/")]
			if !ok {
				return nil
			}
			cur = &d
			continue
		}
		if cur.Items != nil && cur.Items.Schema != nil {
			cur = cur.Items.Schema
			continue
		}
		if cur.AdditionalProperties != nil && cur.AdditionalProperties.Schema != nil {
			cur = cur.AdditionalProperties.Schema
			continue
		}
		break
	}
	return cur.Properties
}

// C10 (planning): the document handed to the embedded-spec template after planning still
// describes every operation's inline body the way the input did, whatever $refs and definitions
// the planner introduced for anonymous schemas on the way.
func VerifC10FlatDoc() {
	sw := vBaseSpec()
	shape := vChoice("shape", 3)
	sameProp := vBool2("samePropertyName")
	p1 := "list"
	p2 := "rows"
	if sameProp {
		p2 = "list"
	}
	a := &spec.Operation{}
	a.ID = "putPets"
	a.Parameters = []spec.Parameter{vInlineBody(p1, "z", *spec.StringProperty(), shape)}
	a.Responses = vOKResponses()
	b := &spec.Operation{}
	b.ID = "postPets"
	b.Parameters = []spec.Parameter{vInlineBody(p2, "q", *spec.Int64Property(), shape)}
	b.Responses = vOKResponses()
	vAddOp(sw, "PUT", "/pets", a)
	vAddOp(sw, "POST", "/pets", b)
	noID := vBool2("operationWithoutId")
	if noID {
		c := &spec.Operation{}
		c.Responses = vOKResponses()
		vAddOp(sw, "GET", "/widgets/{id}", c)
	}
	ag := vAppGenerator(sw)
	if ag == nil {
		return
	}
	app, err := ag.makeCodegenApp()
	vCover("planned")
	if err != nil {
		return
	}
	// the document makeCodegenApp marshals into FlatSwaggerJSON: symbolically the second value handed
	// to json.MarshalIndent, natively the JSON text decoded again
	var doc *spec.Swagger
	if vSymbolic() {
		d, ok := vMarshalled(1).(*spec.Swagger)
		vAssert(ok && d != nil, "the flattened document is not marshalled from a swagger document")
		if !ok || d == nil {
			return
		}
		doc = d
	} else {
		doc = &spec.Swagger{}
		raw, okRaw := vEvalGoStringExpr("`" + string(app.FlatSwaggerJSON) + "`")
		if !okRaw {
			panic("embedded text is not a Go string expression")
		}
		if uerr := json.Unmarshal([]byte(raw), doc); uerr != nil {
			panic(uerr)
		}
	}
	if noID {
		w := doc.Paths.Paths["/widgets/{id}"]
		vAssert(w.Get != nil && w.Get.ID == "", "the embedded document declares an operationId the input did not")
	}
	vAssert(vDocRefsResolve(doc), "the embedded document refers to a definition it does not contain")
	pi := doc.Paths.Paths["/pets"]
	la, lb := vLeafProps(doc, pi.Put, p1), vLeafProps(doc, pi.Post, p2)
	_, okA := la["z"]
	_, okB := lb["q"]
	if vKnown("C10-G8", sameProp && shape != 2 && !(okA && okB)) {
		return
	}
	vAssert(okA, "the embedded document no longer describes the first operation's inline body items as the input did")
	vAssert(okB, "the embedded document no longer describes the second operation's inline body items as the input did")
}

// every schema $ref below the operations' body parameters resolves inside the document
func vDocRefsResolve(sw *spec.Swagger) bool {
	ok := true
	var walk func(s *spec.Schema, depth int)
	walk = func(s *spec.Schema, depth int) {
		if s == nil || depth > 5 {
			return
		}
		if r := s.Ref.String(); r != "" {
			d, has := sw.Definitions[strings.TrimPrefix(r, "#/definitions/")]
			if !has {
				ok = false
				return
			}
			walk(&d, depth+1)
			return
		}
		for k := range s.Properties {
			p := s.Properties[k]
			walk(&p, depth+1)
		}
		if s.Items != nil {
			walk(s.Items.Schema, depth+1)
		}
		if s.AdditionalProperties != nil {
			walk(s.AdditionalProperties.Schema, depth+1)
		}
	}
	for _, pi := range sw.Paths.Paths {
		for _, op := range []*spec.Operation{pi.Get, pi.Put, pi.Post, pi.Delete} {
			if op == nil {
				continue
			}
			for i := range op.Parameters {
				walk(op.Parameters[i].Schema, 0)
			}
		}
	}
	return ok
}

func init() { vRegister("VerifC10EmbeddedTexts", VerifC10EmbeddedTexts) }

// C10/C09 (planning): whatever the two documents look like, the texts makeCodegenApp hands to the
// embedded-spec template, put between back-quotes as the template does, are Go string expressions
// that evaluate to exactly the marshalled original and flattened documents - each on its own.
func VerifC10EmbeddedTexts() {
	origText := vBytes("original.text", 3)
	flatText := vBytes("flattened.text", 3)
	sw := vBaseSpec()
	op := &spec.Operation{}
	op.ID = "getIt"
	op.Responses = vOKResponses()
	vAddOp(sw, "GET", "/x", op)
	var wantOrig, wantFlat string
	if vSymbolic() {
		// the marshalled documents are arbitrary texts (encoding/json is not modelled)
		wantOrig, wantFlat = origText, flatText
		vStubReturnN("encoding/json.MarshalIndent", 0, []byte(origText), nil)
		vStubReturnN("encoding/json.MarshalIndent", 1, []byte(flatText), nil)
	} else {
		sw.Info.Description = origText
	}
	ag := vAppGenerator(sw)
	if ag == nil {
		return
	}
	if !vSymbolic() {
		// the flattened document differs from the original one (as after bundling $ref'd files)
		ag.SpecDoc.Spec().Info.Description = flatText
		bo, _ := json.MarshalIndent(ag.SpecDoc.OrigSpec(), "", "  ")
		bf, _ := json.MarshalIndent(ag.SpecDoc.Spec(), "", "  ")
		wantOrig, wantFlat = string(bo), string(bf)
	}
	app, err := ag.makeCodegenApp()
	vCover("planned")
	if err != nil {
		return
	}
	if vSymbolic() {
		// which of the two marshalling calls was handed which document decides which text is which
		m0, _ := vMarshalled(0).(*spec.Swagger)
		m1, _ := vMarshalled(1).(*spec.Swagger)
		orig, flat := ag.SpecDoc.OrigSpec(), ag.SpecDoc.Spec()
		vAssert(orig != flat && ((m0 == orig && m1 == flat) || (m0 == flat && m1 == orig)),
			"the two embedded texts are not made from the original and the flattened document")
		if m0 == flat {
			wantOrig, wantFlat = flatText, origText
		}
	}
	gotOrig, ok1 := vEvalGoStringExpr("`" + string(app.SwaggerJSON) + "`")
	gotFlat, ok2 := vEvalGoStringExpr("`" + string(app.FlatSwaggerJSON) + "`")
	vAssert(ok1 && gotOrig == wantOrig, "the embedded original document is not a Go string expression for the marshalled document")
	vAssert(ok2 && gotFlat == wantFlat, "the embedded flattened document is not a Go string expression for the marshalled document")
}

func init() { vRegister("VerifC10OrigSpecKept", VerifC10OrigSpecKept) }

// C10 (loading): after validateAndFlattenSpec the document still remembers the input spec as its
// original (that is what the generated server embeds as SwaggerJSON and serves), for minimal and
// for full flattening. Symbolically the loader answers with a document whose working spec has
// already been rewritten the way full flattening does (inline body -> $ref) and analysis.Flatten
// is a stub; natively the real loader and the real flattening run on a temporary file.
func VerifC10OrigSpecKept() {
	full := vBool2("fullFlattening")
	sw := vBaseSpec()
	p := vInlineBody("list", "z", *spec.StringProperty(), 2)
	op := &spec.Operation{}
	op.ID = "postIt"
	op.Parameters = []spec.Parameter{p}
	op.Responses = vOKResponses()
	vAddOp(sw, "POST", "/x", op)
	opts := vGenOpts()
	opts.ValidateSpec = false
	opts.FlattenOpts = &analysis.FlattenOpts{Minimal: !full}
	if vSymbolic() {
		doc := vDocument(sw)
		if full {
			item := doc.Spec().Paths.Paths["/x"].Post.Parameters[0].Schema.Properties["list"]
			doc.Spec().Definitions = spec.Definitions{"PostItParamsBodyList": item}
			doc.Spec().Paths.Paths["/x"].Post.Parameters[0].Schema.Properties["list"] = *spec.RefSchema("#/definitions/PostItParamsBodyList")
		}
		vStubReturn("github.com/go-openapi/loads.Spec", doc, nil)
		vStubReturn("github.com/go-openapi/analysis.Flatten", nil)
		opts.Spec = "swagger.json"
	} else {
		dir, err := os.MkdirTemp("", "verifc10")
		if err != nil {
			panic(err)
		}
		defer os.RemoveAll(dir)
		b, _ := json.Marshal(sw)
		opts.Spec = filepath.Join(dir, "swagger.json")
		_ = os.WriteFile(opts.Spec, b, 0o600)
	}
	got, err := opts.validateAndFlattenSpec()
	vCover("loaded")
	vAssert(err == nil && got != nil, "loading and flattening a valid spec fails")
	if err != nil || got == nil {
		return
	}
	orig := got.OrigSpec()
	pi, ok := orig.Paths.Paths["/x"]
	vAssert(ok && pi.Post != nil && len(pi.Post.Parameters) == 1 && pi.Post.Parameters[0].Schema != nil, "the original document lost the operation")
	if !ok || pi.Post == nil || len(pi.Post.Parameters) != 1 || pi.Post.Parameters[0].Schema == nil {
		return
	}
	list := pi.Post.Parameters[0].Schema.Properties["list"]
	vAssert(list.Ref.String() == "" && len(list.Properties) == 1, "the document's original spec is no longer the input: the inline body was replaced by the flattened one")
	vAssert(len(orig.Definitions) == 0, "the document's original spec gained definitions the input does not have")
}

func init() { vRegister("VerifC10ListsKept", VerifC10ListsKept) }

// C10 (planning): the lists of an operation (consumes, produces, tags) and of the document
// (consumes, produces), blank entries included, are in the flattened document handed to the
// embedded-spec template exactly as the input had them: planning works on the document the server
// embeds and must not rewrite the lists it reads.
func VerifC10ListsKept() {
	vocab := []string{"", "text/plain", "application/xml"}
	pick := func(tag string) []string {
		n := vChoice(tag+".len", 4)
		out := make([]string, 0, n)
		for i := 0; i < n; i++ {
			out = append(out, vocab[vChoice(tag+"."+string(rune('0'+i)), 3)])
		}
		return out
	}
	clone := func(in []string) []string { return append([]string{}, in...) }
	same := func(a, b []string) bool {
		if len(a) != len(b) {
			return false
		}
		for i := range a {
			if a[i] != b[i] {
				return false
			}
		}
		return true
	}
	sw := vBaseSpec()
	which := vChoice("list", 4) // one list at a time carries the drawn entries, the others a fixed one
	drawn := pick("entries")
	fixed := []string{"application/json"}
	opConsumes, opProduces, opTags, topConsumes := clone(fixed), clone(fixed), []string{"t"}, clone(fixed)
	switch which {
	case 0:
		opConsumes = clone(drawn)
	case 1:
		opProduces = clone(drawn)
	case 2:
		opTags = clone(drawn)
	default:
		topConsumes = clone(drawn)
	}
	sw.Consumes = clone(topConsumes)
	op := &spec.Operation{}
	op.ID = "putIt"
	if which != 3 {
		op.Consumes, op.Produces = clone(opConsumes), clone(opProduces)
	}
	op.Tags = clone(opTags)
	body := spec.Parameter{}
	body.Name, body.In, body.Schema = "body", "body", spec.StringProperty()
	op.Parameters = []spec.Parameter{body}
	op.Responses = vOKResponses()
	vAddOp(sw, "PUT", "/x", op)
	ag := vAppGenerator(sw)
	if ag == nil {
		return
	}
	app, err := ag.makeCodegenApp()
	vCover("planned")
	if err != nil {
		return
	}
	var doc *spec.Swagger
	if vSymbolic() {
		d, ok := vMarshalled(1).(*spec.Swagger)
		vAssert(ok && d != nil, "the flattened document is not marshalled from a swagger document")
		if !ok || d == nil {
			return
		}
		doc = d
	} else {
		doc = &spec.Swagger{}
		raw, okRaw := vEvalGoStringExpr("`" + string(app.FlatSwaggerJSON) + "`")
		if !okRaw {
			panic("embedded text is not a Go string expression")
		}
		if uerr := json.Unmarshal([]byte(raw), doc); uerr != nil {
			panic(uerr)
		}
	}
	got := doc.Paths.Paths["/x"].Put
	vAssert(got != nil, "the embedded document lost the operation")
	if got == nil {
		return
	}
	vAssert(same(doc.Consumes, topConsumes), "the embedded document's consumes list is not the input's")
	if which != 3 {
		vAssert(same(got.Consumes, opConsumes), "the embedded document's operation consumes list is not the input's")
		vAssert(same(got.Produces, opProduces), "the embedded document's operation produces list is not the input's")
	}
	vAssert(same(got.Tags, opTags), "the embedded document's operation tags list is not the input's")
}
