//go:build verif

package generator

import (
	"github.com/go-openapi/spec"
)

func init() {
	vRegister("VerifC02ModelPlan", VerifC02ModelPlan)
	vRegister("VerifC02Nullable", VerifC02Nullable)
}

// a validated leaf: which keyword it carries (symbolic value)
type vLeafSpec struct {
	kind int // 0 string maxLength, 1 string minLength, 2 string pattern, 3 string enum, 4 integer maximum, 5 integer minimum (exclusive sym), 6 number multipleOf
	i64  int64
	f64  float64
	excl bool
}

func vMakeLeaf() (spec.Schema, vLeafSpec) {
	l := vLeafSpec{kind: vChoice("leaf.kind", vParam("leafkinds"))}
	s := spec.Schema{}
	switch l.kind {
	case 0:
		s.Type = spec.StringOrArray{"string"}
		l.i64 = vI64("leaf.maxLength")
		vAssume(l.i64 >= 0)
		v := l.i64
		s.MaxLength = &v
	case 1:
		s.Type = spec.StringOrArray{"string"}
		l.i64 = vI64("leaf.minLength")
		vAssume(l.i64 >= 1)
		v := l.i64
		s.MinLength = &v
	case 2:
		s.Type = spec.StringOrArray{"string"}
		s.Pattern = "^a+$"
	case 3:
		s.Type = spec.StringOrArray{"string"}
		s.Enum = []interface{}{"a", "b"}
	case 4:
		s.Type = spec.StringOrArray{"integer"}
		l.f64 = vF64("leaf.maximum")
		l.excl = vBool("leaf.exclusiveMaximum")
		v := l.f64
		s.Maximum = &v
		s.ExclusiveMaximum = l.excl
	case 5:
		s.Type = spec.StringOrArray{"integer"}
		l.f64 = vF64("leaf.minimum")
		l.excl = vBool("leaf.exclusiveMinimum")
		v := l.f64
		s.Minimum = &v
		s.ExclusiveMinimum = l.excl
	case 6:
		s.Type = spec.StringOrArray{"number"}
		l.f64 = vF64("leaf.multipleOf")
		vAssume(l.f64 > 0)
		v := l.f64
		s.MultipleOf = &v
	case 7: // array whose only constraint is maxItems (0 is a legal, meaningful bound)
		s.Type = spec.StringOrArray{"array"}
		s.Items = &spec.SchemaOrArray{Schema: spec.StringProperty()}
		l.i64 = vI64("leaf.maxItems")
		vAssume(l.i64 >= 0)
		v := l.i64
		s.MaxItems = &v
	case 8: // array whose only constraint is minItems
		s.Type = spec.StringOrArray{"array"}
		s.Items = &spec.SchemaOrArray{Schema: spec.StringProperty()}
		l.i64 = vI64("leaf.minItems")
		vAssume(l.i64 >= 1)
		v := l.i64
		s.MinItems = &v
	default: // array with uniqueItems
		s.Type = spec.StringOrArray{"array"}
		s.Items = &spec.SchemaOrArray{Schema: spec.StringProperty()}
		s.UniqueItems = true
	}
	return s, l
}

// the planned leaf must carry exactly the keyword value of the spec
func vCheckLeaf(g *GenSchema, l vLeafSpec, where string) {
	vAssert(g.HasValidations, where+": validated leaf is planned without validations")
	switch l.kind {
	case 0:
		vAssert(g.MaxLength != nil && *g.MaxLength == l.i64, where+": maxLength lost or changed")
	case 1:
		vAssert(g.MinLength != nil && *g.MinLength == l.i64, where+": minLength lost or changed")
	case 2:
		vAssert(g.Pattern == "^a+$", where+": pattern lost or changed")
	case 3:
		vAssert(len(g.Enum) == 2, where+": enum lost")
	case 4:
		vAssert(g.Maximum != nil && *g.Maximum == l.f64 && g.ExclusiveMaximum == l.excl, where+": maximum lost or changed")
	case 5:
		vAssert(g.Minimum != nil && *g.Minimum == l.f64 && g.ExclusiveMinimum == l.excl, where+": minimum lost or changed")
	case 6:
		vAssert(g.MultipleOf != nil && *g.MultipleOf == l.f64, where+": multipleOf lost or changed")
	case 7:
		vAssert(g.MaxItems != nil && *g.MaxItems == l.i64, where+": maxItems lost or changed")
	case 8:
		vAssert(g.MinItems != nil && *g.MinItems == l.i64, where+": minItems lost or changed")
	default:
		vAssert(g.UniqueItems, where+": uniqueItems lost")
	}
}

func vProp(g *GenSchema, name string) *GenSchema {
	for i := range g.Properties {
		if g.Properties[i].Name == name {
			return &g.Properties[i]
		}
	}
	return nil
}

func vObj(props map[string]spec.Schema, required ...string) spec.Schema {
	s := spec.Schema{}
	s.Type = spec.StringOrArray{"object"}
	s.Properties = props
	s.Required = required
	return s
}

func vPlan(sw *spec.Swagger, name string) *GenDefinition {
	doc := vDocument(sw)
	gd, err := makeGenDefinition(name, "models", sw.Definitions[name], doc, vGenOpts())
	vAssert(err == nil && gd != nil, "makeGenDefinition failed for "+name)
	if err != nil || gd == nil {
		vAssume(false)
	}
	return gd
}

// C02 (planning): wherever the spec puts a validation keyword - directly, behind $ref chains, in array items,
// map values, allOf members or nested anonymous objects - every node of the generated model plan on the way
// from the definition root to it has HasValidations set (the templates emit Validate calls only then), and
// the leaf carries the keyword value unchanged.
func VerifC02ModelPlan() {
	leaf, l := vMakeLeaf()
	t := vChoice("shape", vParam("shapes"))
	req := vBool2("leafRequired")
	vObserve("shape", t)
	vObserve("leafkind", l.kind)
	sw := &spec.Swagger{}
	sw.Swagger = "2.0"
	sw.Paths = &spec.Paths{}
	var reqNames []string
	if req {
		reqNames = []string{"v"}
	}
	inner := vObj(map[string]spec.Schema{"v": leaf}, reqNames...)
	switch t {
	case 0: // direct property
		sw.Definitions = spec.Definitions{"User": inner}
		gd := vPlan(sw, "User")
		vCover("planned")
		vAssert(gd.GenSchema.HasValidations, "definition with a validated property plans no validation")
		p := vProp(&gd.GenSchema, "v")
		vAssert(p != nil, "property lost")
		vCheckLeaf(p, l, "property")
		vAssert(p.Required == req, "required flag of the property lost")
	case 1, 2: // property -> $ref (-> $ref) -> object with validated property
		target := "Address"
		defs := spec.Definitions{"Address": inner}
		if t == 2 {
			defs["Alias"] = *spec.RefSchema("#/definitions/Address")
			target = "Alias"
		}
		defs["User"] = vObj(map[string]spec.Schema{"home": *spec.RefSchema("#/definitions/" + target)})
		sw.Definitions = defs
		gd := vPlan(sw, "User")
		vCover("planned")
		p := vProp(&gd.GenSchema, "home")
		vAssert(p != nil, "property lost")
		vAssert(p.HasValidations, "property referring to a validated definition is planned without validations (its Validate is never called)")
		vAssert(gd.GenSchema.HasValidations, "definition holding a reference to a validated definition plans no validation")
		ga := vPlan(sw, "Address")
		vAssert(ga.GenSchema.HasValidations, "referenced definition plans no validation")
		vCheckLeaf(vProp(&ga.GenSchema, "v"), l, "referenced property")
		if t == 2 {
			gl := vPlan(sw, "Alias")
			vAssert(gl.GenSchema.HasValidations, "alias of a validated definition plans no validation")
		}
	case 3: // array items
		arr := spec.Schema{}
		arr.Type = spec.StringOrArray{"array"}
		arr.Items = &spec.SchemaOrArray{Schema: &leaf}
		sw.Definitions = spec.Definitions{"User": vObj(map[string]spec.Schema{"tags": arr})}
		gd := vPlan(sw, "User")
		vCover("planned")
		p := vProp(&gd.GenSchema, "tags")
		vAssert(p != nil && p.Items != nil, "array property lost")
		vAssert(p.HasValidations && gd.GenSchema.HasValidations, "array with validated items plans no validation")
		vCheckLeaf(p.Items, l, "items")
	case 4: // map values
		m := spec.Schema{}
		m.Type = spec.StringOrArray{"object"}
		m.AdditionalProperties = &spec.SchemaOrBool{Allows: true, Schema: &leaf}
		sw.Definitions = spec.Definitions{"User": vObj(map[string]spec.Schema{"attrs": m})}
		gd := vPlan(sw, "User")
		vCover("planned")
		p := vProp(&gd.GenSchema, "attrs")
		vAssert(p != nil && p.AdditionalProperties != nil, "map property lost")
		vAssert(p.HasValidations && gd.GenSchema.HasValidations, "map with validated values plans no validation")
		vCheckLeaf(p.AdditionalProperties, l, "map value")
	case 5: // allOf [$ref Base] + own property; Base holds the validated property
		u := spec.Schema{}
		own := vObj(map[string]spec.Schema{"name": *spec.StringProperty()})
		u.AllOf = []spec.Schema{*spec.RefSchema("#/definitions/Base"), own}
		sw.Definitions = spec.Definitions{"Base": inner, "User": u}
		gd := vPlan(sw, "User")
		vCover("planned")
		vAssert(gd.GenSchema.HasValidations, "allOf composition over a validated definition plans no validation")
		vAssert(len(gd.GenSchema.AllOf) == 2 && gd.GenSchema.AllOf[0].HasValidations, "allOf member referring to a validated definition is planned without validations")
	case 6: // required property referring to another definition without any keyword
		sw.Definitions = spec.Definitions{"Address": vObj(map[string]spec.Schema{"zip": *spec.StringProperty()}),
			"User": vObj(map[string]spec.Schema{"home": *spec.RefSchema("#/definitions/Address"), "v": leaf}, "home")}
		gd := vPlan(sw, "User")
		vCover("planned")
		p := vProp(&gd.GenSchema, "home")
		vAssert(p != nil && p.Required && p.HasValidations, "required $ref property is planned without the required check")
		vCheckLeaf(vProp(&gd.GenSchema, "v"), l, "sibling property")
	default: // object with declared properties and exactly one property-count bound, no additionalProperties
		u := inner
		n := vI64("propCount")
		vAssume(n >= 1)
		which := vBool2("boundIsMax")
		if which {
			u.MaxProperties = &n
		} else {
			u.MinProperties = &n
		}
		sw.Definitions = spec.Definitions{"User": u}
		gd := vPlan(sw, "User")
		vCover("planned")
		g := &gd.GenSchema
		vAssert(g.HasValidations, "object with a property-count bound plans no validation")
		// gate of the property-count check in schemavalidator.gotmpl
		vAssert(vOr(g.IsMap, vAnd(g.IsAdditionalProperties, g.HasAdditionalProperties)), "property-count bound is not reachable by the validator (additionalProperties not implied)")
		if which {
			vAssert(g.MaxProperties != nil && *g.MaxProperties == n, "maxProperties lost or changed")
		} else {
			vAssert(g.MinProperties != nil && *g.MinProperties == n, "minProperties lost or changed")
		}
	}
}

// C02 (nullability): an explicit zero of a required property must stay distinguishable from absence
func VerifC02Nullable() {
	s := &spec.Schema{}
	kind := vChoice("kind", 4)
	hasMin, hasMax := vBool("hasMin"), vBool("hasMax")
	mn, mx := vF64("min"), vF64("max")
	s.Minimum = vMaybeNil(!hasMin, &mn)
	s.Maximum = vMaybeNil(!hasMax, &mx)
	s.ExclusiveMinimum, s.ExclusiveMaximum = vBool("exMin"), vBool("exMax")
	hasML := vBool("hasMinLength")
	ml := vI64("minLength")
	s.MinLength = vMaybeNil(!hasML, &ml)
	s.ReadOnly = vBool("readOnly")
	def := vChoice("default", 3)
	switch def {
	case 1:
		s.Default = ""
		if kind == 0 {
			s.Default = 0.0
		}
		if kind == 2 {
			s.Default = false
		}
	case 2:
		s.Default = "x"
		if kind == 0 {
			s.Default = 1.5
		}
		if kind == 2 {
			s.Default = true
		}
	}
	xn := vChoice("x-nullable", 3)
	if xn > 0 {
		s.Extensions = spec.Extensions{"x-nullable": xn == 2}
	}
	if kind == 3 {
		s.Format = []string{"date", "binary"}[vChoice("format", 2)]
	}
	required := vBool("required")
	var got bool
	switch kind {
	case 0:
		got = nullableNumber(s, required)
	case 1:
		got = nullableString(s, required)
	case 2:
		got = nullableBool(s, required)
	default:
		got = nullableStrfmt(s, required)
	}
	vCover("decided")
	vObserve("nullable", got)
	binary := kind == 3 && s.Format == "binary"
	if xn > 0 && !binary {
		vAssert(got == (xn == 2), "x-nullable is not honoured")
		return
	}
	if !binary {
		vAssert(vImplies(vAnd(required, vAnd(!s.ReadOnly, def == 0)), got), "required property without default is not a pointer: an explicit zero value cannot be told from absence")
	}
}
