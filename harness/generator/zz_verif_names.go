//go:build verif

package generator

import (
	"go/token"
	"os"
	"strings"

	"github.com/go-openapi/spec"
)

func init() {
	vRegister("VerifC05Tags", VerifC05Tags)
	vRegister("VerifC01ModelNames", VerifC01ModelNames)
	vRegister("VerifC01ParamNames", VerifC01ParamNames)
	vRegister("VerifC09Example", VerifC09Example)
	vRegister("VerifC01NestedItems", VerifC01NestedItems)
}

// C01 (planning): loop indices of nested array parameters. The binder template declares the index of
// an items loop only when NeedsIndex is set, and inner levels refer to the outer indices.
func VerifC01NestedItems() {
	sw := vBaseSpec()
	depth := 2 + vChoice("depth", 2)
	leafType := []string{"string", "integer", "boolean", "number"}[vChoice("leaf", 4)]
	hasMax := vBool2("leafHasMaximum")
	var it *spec.Items
	for d := 0; d < depth; d++ {
		n := &spec.Items{}
		if it == nil {
			n.Type = leafType
			if hasMax && (leafType == "integer" || leafType == "number") {
				mx := 5.0
				n.Maximum = &mx
			}
		} else {
			n.Type = "array"
			n.Items = it
		}
		it = n
	}
	p := spec.Parameter{}
	p.Name, p.In, p.Type, p.Items = "matrix", "query", "array", it
	op := &spec.Operation{}
	op.ID = "doIt"
	op.Parameters = []spec.Parameter{p}
	op.Responses = vOKResponses()
	vAddOp(sw, "GET", "/x", op)
	app, err := vPlanApp(sw)
	vAssert(err == nil, "makeCodegenApp failed")
	if err != nil {
		return
	}
	vCover("planned")
	gp := app.Operations[0].Params[0]
	for c := gp.Child; c != nil && c.Child != nil; c = c.Child {
		vAssert(vImplies(c.Child.NeedsIndex, c.NeedsIndex), "an items loop is planned without its index although the nested level needs it (undefined variable in generated code)")
	}
	last := gp.Child
	for last != nil && last.Child != nil {
		last = last.Child
	}
	if last != nil && last.Converter != "" {
		vAssert(last.NeedsIndex, "an item that must be converted from its string form does not get a loop index")
	}
}

var vPropNames = []string{"id", "a-b", "with space", "x.y", "type", "9lives", "Name", "func", "_hidden", "+1"}

// the json key of a rendered struct tag
func vJSONTag(tag string) (name string, opts string, ok bool) {
	t := strings.Trim(tag, "`")
	i := strings.Index(t, `json:"`)
	if i < 0 {
		return "", "", false
	}
	rest := t[i+6:]
	j := strings.Index(rest, `"`)
	if j < 0 {
		return "", "", false
	}
	v := rest[:j]
	if k := strings.Index(v, ","); k >= 0 {
		return v[:k], v[k:], true
	}
	return v, "", true
}

// C05 (planning): the struct tag keeps the property name and never drops a required property
func VerifC05Tags() {
	name := vPropNames[vChoice("name", len(vPropNames))]
	kind := vChoice("kind", 4)
	var leaf spec.Schema
	switch kind {
	case 0:
		leaf = *spec.StringProperty()
	case 1:
		leaf = *spec.Int64Property()
	case 2:
		leaf = *spec.BoolProperty()
	default:
		leaf = *spec.ArrayProperty(spec.StringProperty())
	}
	leaf.ReadOnly = vBool2("readOnly")
	if vBool2("hasDefault") && kind == 0 {
		leaf.Default = "d"
	}
	switch vChoice("x-omitempty", 3) {
	case 1:
		leaf.AddExtension("x-omitempty", true)
	case 2:
		leaf.AddExtension("x-omitempty", false)
	}
	required := vBool2("required")
	var req []string
	if required {
		req = []string{name}
	}
	sw := vBaseSpec()
	sw.Definitions = spec.Definitions{"User": vObj(map[string]spec.Schema{name: leaf}, req...)}
	gd := vPlan(sw, "User")
	vCover("planned")
	vAssert(len(gd.GenSchema.Properties) == 1, "property lost")
	if len(gd.GenSchema.Properties) != 1 {
		return
	}
	p := gd.GenSchema.Properties[0]
	vObserve("required", p.Required)
	vAssert(p.Required == required, "the plan's Required flag differs from the spec's required list")
	vAssert(p.OriginalName == name, "original property name lost")
	tag := p.PrintTags()
	vObserve("tag", tag)
	jn, opts, ok := vJSONTag(tag)
	vAssert(ok, "no json key in the struct tag")
	vAssert(jn == name, "json key of the struct tag is not the property name")
	if required {
		vAssert(!strings.Contains(opts, "omitempty"), "a required property is tagged omitempty (its zero value would be dropped)")
	}
}

// C01 (planning): Go identifiers planned for model fields
func VerifC01ModelNames() {
	n1 := vPropNames[vChoice("name1", len(vPropNames))]
	n2 := vPropNames[vChoice("name2", len(vPropNames))]
	vAssume(n1 != n2)
	sw := vBaseSpec()
	sw.Definitions = spec.Definitions{"my model": vObj(map[string]spec.Schema{n1: *spec.StringProperty(), n2: *spec.Int64Property()})}
	gd := vPlan(sw, "my model")
	vCover("planned")
	vAssert(token.IsIdentifier(gd.GoType) && token.IsExported(gd.GoType), "model type name is not an exported Go identifier")
	fields := map[string]bool{}
	for _, p := range gd.GenSchema.Properties {
		f := pascalize(p.Name)
		vObserve("field", f)
		vAssert(token.IsIdentifier(f) && token.IsExported(f) && !token.IsKeyword(f), "field name is not an exported Go identifier")
		vAssert(!fields[f], "two properties are planned under the same Go field name")
		fields[f] = true
	}
}

var vParamNames = []string{"timeout", "request_timeout", "requestTimeout", "id", "Timeout", "http-request-timeout", "context", "type"}

// C01 (planning): identifiers planned for operation parameters and the client's timeout field
func VerifC01ParamNames() {
	sw := vBaseSpec()
	op := &spec.Operation{}
	op.ID = "doIt"
	op.Responses = vOKResponses()
	n := vParam("params")
	used := map[string]bool{}
	for i := 0; i < n; i++ {
		name := vParamNames[vChoice("name", len(vParamNames))]
		in := []string{"query", "header"}[vChoice("in", 2)]
		if used[in+"#"+name] {
			vAssume(false)
		}
		used[in+"#"+name] = true
		p := spec.Parameter{}
		p.Name, p.In, p.Type = name, in, "string"
		op.Parameters = append(op.Parameters, p)
	}
	vAddOp(sw, "GET", "/x", op)
	app, err := vPlanApp(sw)
	vAssert(err == nil, "makeCodegenApp failed")
	if err != nil {
		return
	}
	vCover("planned")
	g := app.Operations[0]
	ids := map[string]bool{}
	for _, gp := range g.Params {
		vObserve("id", gp.ID)
		vAssert(token.IsIdentifier(gp.ID) && token.IsExported(gp.ID), "parameter field name is not an exported Go identifier")
		if vKnown("C01-P1", ids[gp.ID]) {
			return
		}
		vAssert(!ids[gp.ID], "two parameters are planned under the same Go field name")
		ids[gp.ID] = true
	}
	vObserve("timeout", g.TimeoutName)
	vAssert(!ids[pascalize(g.TimeoutName)], "the client's timeout field collides with a parameter field (duplicate With/Set methods)")
	vAssert(token.IsIdentifier(g.TimeoutName) && !token.IsKeyword(g.TimeoutName), "timeout variable name is not a Go identifier")
}

// C09 (planning): the example pasted after "// Example: " is a single line
func VerifC09Example() {
	texts := []string{"plain", "two\nlines", "quote\" and `tick`", "a\r\nb"}
	ex := texts[vChoice("example", len(texts))]
	leaf := *spec.StringProperty()
	leaf.Example = ex
	sw := vBaseSpec()
	named := *spec.StringProperty()
	named.Example = ex
	sw.Definitions = spec.Definitions{"User": vObj(map[string]spec.Schema{"v": leaf}), "Label": named}
	gd := vPlan(sw, "User")
	gl := vPlan(sw, "Label")
	vCover("planned")
	vAssert(!strings.ContainsAny(gd.GenSchema.Properties[0].Example, "\n\r"), "a property example spans several lines: it leaves the // Example comment")
	vAssert(!strings.ContainsAny(gl.GenSchema.Example, "\n\r"), "a definition example spans several lines: it leaves the // Example comment")
}

// import aliases declared by templates/server/builder.gotmpl (the file an operation package is imported into)
var vBuilderImports = []string{"context", "fmt", "io", "http", "strings", "errors", "loads", "runtime", "middleware", "security", "spec", "strfmt", "swag"}

func init() { vRegister("VerifC01TagPackage", VerifC01TagPackage) }

// C01 (planning): a tag used as operation package never keeps the name of a package the server builder imports
func VerifC01TagPackage() {
	if !vSymbolic() {
		vCheckBuilderImports()
	}
	words := append([]string{"pets", "store", "api", "server", "tls", "log", "json", "time", "validate", "flags"}, vBuilderImports...)
	pkg := vOneOf("tag", words...)
	got := deconflictTag(nil, pkg)
	vCover("renamed")
	clash := false
	for _, imp := range vBuilderImports {
		clash = vOr(clash, vStrEq(got, imp))
	}
	if vKnown("C01-G5", vOr(vStrEq(pkg, "io"), vStrEq(pkg, "context"))) {
		return
	}
	vAssert(!clash, "an operation package named after a tag shadows an import of the generated server builder")
}

func init() { vRegister("VerifC01AnonymousTypes", VerifC01AnonymousTypes) }

// C01 (planning): the Go types planned for the models package - one per definition plus the
// structs invented for anonymous nested objects - all have distinct names, and inventing them
// leaves the user's own definitions untouched (they are what the server embeds, C10).
func VerifC01AnonymousTypes() {
	sw := vBaseSpec()
	inner := vObj(map[string]spec.Schema{"why": *spec.StringProperty()})
	var holder spec.Schema
	shape := vChoice("shape", 3)
	switch shape {
	case 0: // nested anonymous object
		holder = vObj(map[string]spec.Schema{"inner": inner})
	case 1: // array of anonymous objects
		holder = vObj(map[string]spec.Schema{"inner": *spec.ArrayProperty(&inner)})
	default: // map of anonymous objects
		holder = vObj(map[string]spec.Schema{"inner": *spec.MapProperty(&inner)})
	}
	other := []string{"Other", "ErrInner", "err inner", "ErrInnerItems0", "ErrInnerAnon", "err_inner"}[vChoice("otherName", 6)]
	mine := vObj(map[string]spec.Schema{"count": *spec.Int64Property()}, "count")
	sw.Definitions = spec.Definitions{"Err": holder, other: mine}
	op := &spec.Operation{}
	op.ID = "getIt"
	op.Responses = vOKResponses()
	vAddOp(sw, "GET", "/x", op)
	app, err := vPlanApp(sw)
	vCover("planned")
	if err != nil {
		return // refusing the spec is fine; silently generating clashing code is not
	}
	seen := map[string]bool{}
	dup := false
	for _, m := range app.Models {
		if seen[m.GoType] {
			dup = true
		}
		seen[m.GoType] = true
		for _, e := range m.ExtraSchemas {
			if seen[e.GoType] {
				dup = true
			}
			seen[e.GoType] = true
		}
	}
	kept := false
	if d, ok := sw.Definitions[other]; ok {
		_, kept = d.Properties["count"]
	}
	// known: only where the user's name IS the invented name (ErrInner, ErrInnerItems0, ErrInnerAnon); any other clash is reported
	if vKnown("C01-P2", (dup || !kept) && strings.HasPrefix(pascalize(other), "ErrInner")) {
		return
	}
	vAssert(!dup, "two Go types of the models package are planned under the same name (the generated package does not compile)")
	vAssert(kept, "planning the models replaced a definition of the input spec by an invented one")
}

func init() { vRegister("VerifC01OperationRefs", VerifC01OperationRefs) }

// C01 (planning): structs invented in the operations package for anonymous parts of an inline
// body refer to models through the models package - `models.X` with X the model's Go name
// (x-go-name honoured) - never by a bare name that does not exist in the operations package.
func VerifC01OperationRefs() {
	sw := vBaseSpec()
	cust := vObj(map[string]spec.Schema{"id": *spec.Int64Property()})
	goName := []string{"", "Client", "Customer"}[vChoice("x-go-name", 3)]
	if goName != "" {
		cust.AddExtension("x-go-name", goName)
	}
	sw.Definitions = spec.Definitions{"customer": cust}
	nestedFirst := vBool2("anonymousObjectNested")
	props := map[string]spec.Schema{"who": *spec.RefSchema("#/definitions/customer")}
	inner := vObj(map[string]spec.Schema{"n": *spec.StringProperty(), "owner": *spec.RefSchema("#/definitions/customer")})
	if nestedFirst {
		props["extra"] = inner
	} else {
		props["extra"] = *spec.ArrayProperty(&inner)
	}
	body := vObj(props)
	p := spec.Parameter{}
	p.Name, p.In, p.Schema = "body", "body", &body
	op := &spec.Operation{}
	op.ID = "putIt"
	op.Parameters = []spec.Parameter{p}
	op.Responses = vOKResponses()
	vAddOp(sw, "PUT", "/x", op)
	app, err := vPlanApp(sw)
	vCover("planned")
	if err != nil {
		return
	}
	want := "Customer"
	if goName != "" {
		want = goName
	}
	want = "models." + want
	found := 0
	var visit func(s *GenSchema, depth int)
	visit = func(s *GenSchema, depth int) {
		if depth > 4 {
			return
		}
		for i := range s.Properties {
			pr := &s.Properties[i]
			if pr.Name == "who" || pr.Name == "owner" {
				found++
				vAssert(pr.GoType == want || pr.GoType == "*"+want, "a struct of the operations package refers to a model by a name that is not qualified with the models package: "+pr.GoType)
			}
			visit(pr, depth+1)
		}
		if s.Items != nil {
			visit(s.Items, depth+1)
		}
	}
	g := app.Operations[0]
	for i := range g.Params {
		if g.Params[i].Schema != nil {
			visit(g.Params[i].Schema, 0)
		}
	}
	for i := range g.ExtraSchemas {
		visit(&g.ExtraSchemas[i], 0)
	}
	vObserve("refs", found)
	vAssert(found >= 2, "the planned operation lost the properties referring to the model")
}

func init() { vRegister("VerifC01EnumConsts", VerifC01EnumConsts) }

var vEnumValues = []string{"<", "<=", "==", ">", "a", "A", "a b", "a-b", "a_b", "a.b", "a+b", "+1", "-1", "1", "#1", "ab", "Ab"}

// what today's naming keeps of a value: letters and digits (case-insensitively) and the four
// characters cleanupEnumVariant spells out
func vEnumKey(v string) string {
	out := ""
	for i := 0; i < len(v); i++ {
		c := v[i]
		switch {
		case c >= 'A' && c <= 'Z':
			out += string(c + 'a' - 'A')
		case c >= 'a' && c <= 'z', c >= '0' && c <= '9', c == '.', c == '+', c == '-', c == '#':
			out += string(c)
		}
	}
	return out
}

// C01 (naming): the constants generated for the values of a string enum
// (schemavalidator.gotmpl: print $gotype (pascalize (cleanupEnumVariant .))) are distinct
// identifiers for distinct values.
func VerifC01EnumConsts() {
	if !vSymbolic() {
		b, err := os.ReadFile(vRepoDir() + "/templates/schemavalidator.gotmpl")
		if err != nil || !strings.Contains(string(b), "print $gotype (pascalize (cleanupEnumVariant .))") {
			panic("ORACLE-MISMATCH: schemavalidator.gotmpl no longer names enum constants with pascalize (cleanupEnumVariant .)")
		}
	}
	v1 := vEnumValues[vChoice("value1", len(vEnumValues))]
	v2 := vEnumValues[vChoice("value2", len(vEnumValues))]
	vAssume(v1 != v2)
	n1 := "Thing" + pascalize(cleanupEnumVariant(v1))
	n2 := "Thing" + pascalize(cleanupEnumVariant(v2))
	vCover("named")
	vObserve("names", n1+" "+n2)
	if vKnown("C01-P3", n1 == n2 && vEnumKey(v1) == vEnumKey(v2)) {
		return
	}
	vAssert(token.IsIdentifier(n1) && token.IsIdentifier(n2), "an enum constant name is not a Go identifier")
	vAssert(n1 != n2, "two values of one enum get the same constant name (the generated model does not compile)")
}
