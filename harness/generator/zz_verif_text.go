//go:build verif

package generator

import (
	"go/constant"
	"go/token"
	"go/types"
)

func init() {
	vRegister("VerifC10RawSpec", VerifC10RawSpec)
	vRegister("VerifC09EscapeBackticks", VerifC09EscapeBackticks)
	vRegister("VerifC09PadComment", VerifC09PadComment)
	vRegister("VerifC09BlockComment", VerifC09BlockComment)
	vRegister("VerifC09PrintTags", VerifC09PrintTags)
	vRegister("VerifC10RawSpecUTF8", VerifC10RawSpecUTF8)
}

// free text over the characters that matter to Go literals
func vTagText(name string) string {
	s := vBytes(name, vParam("taglen"))
	for i := 0; i < len(s); i++ {
		c := s[i]
		vAssume(vOr(vOr(c == '`', c == '"'), vOr(vOr(c == '\\', c == 'a'), vOr(c == ' ', c == '\n'))))
	}
	return s
}

// C09: the struct tag rendered for a field is ONE Go string literal whatever the description/example text
func VerifC09PrintTags() {
	g := GenSchema{}
	g.OriginalName = "n"
	g.Description = vTagText("description")
	order := vChoice("order", 3)
	switch order {
	case 0:
		g.StructTags = []string{"description"}
	case 1:
		g.StructTags = []string{"description", "yaml"}
	default:
		g.StructTags = []string{"yaml", "description"}
	}
	if vBool2("withExample") {
		g.Example = vTagText("example")
		g.StructTags = append([]string{"example"}, g.StructTags...)
	}
	out := g.PrintTags()
	val, ok := vEvalGoStringExpr(out)
	vCrossCheckEval(out, val, ok)
	vCover("evaluated")
	vObserve("ok", ok)
	vAssert(ok, "the rendered struct tag is not a single Go string literal: free text escapes into code")
}

// C10 with multi-byte characters next to back-quotes
func VerifC10RawSpecUTF8() {
	pieces := []string{"a", "`", "é", "世", "\n"}
	n := vParam("pieces")
	b := ""
	for i := 0; i < n; i++ {
		k := vChoice("piece", len(pieces)+1)
		if k == len(pieces) {
			break
		}
		b += pieces[k]
	}
	out := generateReadableSpec([]byte(b))
	expr := "`" + out + "`"
	val, ok := vEvalGoStringExpr(expr)
	vCrossCheckEval(expr, val, ok)
	vCover("evaluated")
	vAssert(ok, "the embedded spec literal is not a valid Go string expression")
	vAssert(val == b, "the embedded spec literal evaluates to a different document (non-ASCII text next to a back-quote)")
}

// vEvalGoStringExpr is a small reference evaluator for Go expressions made of raw (`...`)
// and interpreted ("...") string literals joined by '+', as the templates paste them.
func vEvalGoStringExpr(e string) (string, bool) {
	val := ""
	i := 0
	n := len(e)
	for {
		if i >= n {
			return "", false
		}
		switch e[i] {
		case '`':
			i++
			start := i
			for i < n && e[i] != '`' {
				i++
			}
			if i >= n {
				return "", false
			}
			val += e[start:i]
			i++
		case '"':
			i++
			for {
				if i >= n {
					return "", false
				}
				c := e[i]
				if c == '"' {
					i++
					break
				}
				if c == '\n' {
					return "", false
				}
				if c == '\\' {
					if i+1 >= n {
						return "", false
					}
					d := e[i+1]
					if d == '"' || d == '\\' {
						val += string([]byte{d})
						i += 2
						continue
					}
					if d == 'n' {
						val += "\n"
						i += 2
						continue
					}
					if d == 't' {
						val += "\t"
						i += 2
						continue
					}
					return "", false // other escapes are never produced for the alphabets used here
				}
				val += string([]byte{c})
				i++
			}
		default:
			return "", false
		}
		if i == n {
			return val, true
		}
		if e[i] != '+' {
			return "", false
		}
		i++
	}
}

// native cross-check of the reference evaluator against the Go type checker
func vCrossCheckEval(e string, val string, ok bool) {
	if vSymbolic() {
		return
	}
	tv, err := types.Eval(token.NewFileSet(), nil, token.NoPos, e)
	realOK := err == nil && tv.Value != nil && tv.Value.Kind() == constant.String
	if realOK != ok || (ok && constant.StringVal(tv.Value) != val) {
		panic("ORACLE-MISMATCH: reference evaluator disagrees with go/types on " + e)
	}
}

func vSpecText(name string) string {
	s := vBytes(name, vParam("len"))
	// what json.MarshalIndent can emit: printable ASCII and newlines (control characters are \u-escaped)
	for i := 0; i < len(s); i++ {
		vAssume(vOr(s[i] >= 0x20, s[i] == '\n'))
		vAssume(s[i] != 0x7f)
	}
	return s
}

// C10: the text pasted between back-quotes by swagger_json_embed.gotmpl evaluates to the input document
func VerifC10RawSpec() {
	b := vSpecText("spec")
	out := generateReadableSpec([]byte(b))
	expr := "`" + out + "`"
	val, ok := vEvalGoStringExpr(expr)
	vCrossCheckEval(expr, val, ok)
	vCover("evaluated")
	vObserve("ok", ok)
	vAssert(ok, "the embedded spec literal is not a valid Go string expression")
	vAssert(val == b, "the embedded spec literal evaluates to a different document")
}

// C09: escapeBackticks (template helper) keeps free text inside one raw-string expression
func VerifC09EscapeBackticks() {
	b := vSpecText("text")
	f := DefaultFuncMap(DefaultLanguageFunc())["escapeBackticks"].(func(string) string)
	out := f(b)
	expr := "`" + out + "`"
	val, ok := vEvalGoStringExpr(expr)
	vCrossCheckEval(expr, val, ok)
	vCover("evaluated")
	vAssert(ok, "escapeBackticks output breaks out of the raw string literal")
	vAssert(val == b, "escapeBackticks output evaluates to different text")
}

// free text as it reaches the templates (a decoded JSON/YAML string): any 7-bit character, carriage returns included
func vFreeText(name string) string {
	return vBytes(name, vParam("len"))
}

// C09: "// " + padComment(text) consists of line comments only
func VerifC09PadComment() {
	s := vFreeText("text")
	out := "// " + padComment(s)
	ok := true
	for i := 0; i < len(out); i++ {
		if i+2 < len(out) {
			ok = vAnd(ok, vImplies(out[i] == '\n', vAnd(out[i+1] == '/', out[i+2] == '/')))
		} else {
			ok = vAnd(ok, out[i] != '\n')
		}
	}
	vCover("evaluated")
	vAssert(ok, "padComment lets a line of free text escape the // comment")
	// with an explicit indent
	out2 := "\t// " + padComment(s, "\t")
	ok = true
	for i := 0; i < len(out2); i++ {
		if i+2 < len(out2) {
			ok = vAnd(ok, vImplies(out2[i] == '\n', vAnd(out2[i+1] == '/', out2[i+2] == '/')))
		} else {
			ok = vAnd(ok, out2[i] != '\n')
		}
	}
	vAssert(ok, "padComment with indent lets a line of free text escape the // comment")
}

// C09: blockComment output never closes the surrounding /* */ comment
func VerifC09BlockComment() {
	s := vSpecText("text")
	out := blockComment(s)
	ok := true
	for i := 0; i+1 < len(out); i++ {
		ok = vAnd(ok, vNot(vAnd(out[i] == '*', out[i+1] == '/')))
	}
	vCover("evaluated")
	vAssert(ok, "blockComment output contains a comment terminator")
	// and it only ever rewrites terminators: text without one is unchanged
	has := false
	for i := 0; i+1 < len(s); i++ {
		has = vOr(has, vAnd(s[i] == '*', s[i+1] == '/'))
	}
	vAssert(vOr(has, out == s), "blockComment changes text that has no comment terminator")
}
