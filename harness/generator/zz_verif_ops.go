//go:build verif

package generator

import (
	"strings"

	"github.com/go-openapi/analysis"
	"github.com/go-openapi/spec"
	"github.com/go-openapi/swag"
)

func init() {
	vRegister("VerifC08GatherAll", VerifC08GatherAll)
}

var vOpPaths = []string{"/a", "/a-b", "/a_b", "/A/b", "/b"}
var vOpIDs = []string{"", "x", "getA", "GetA", "get a"}

type vOpIn struct {
	method, path, id string
}

func vSetOp(pi *spec.PathItem, method string, op *spec.Operation) {
	switch method {
	case "GET":
		pi.Get = op
	case "POST":
		pi.Post = op
	}
}

// C08: every operation of a valid spec comes out of gatherOperations as its own entry
func VerifC08GatherAll() {
	n := vParam("ops")
	var ins []vOpIn
	for i := 0; i < n; i++ {
		in := vOpIn{}
		in.method = []string{"GET", "POST"}[vChoice("method", 2)]
		in.path = vOpPaths[vChoice("path", vParam("paths"))]
		in.id = vOpIDs[vChoice("id", vParam("ids"))]
		ins = append(ins, in)
	}
	// validity: distinct (method, path); non-empty operation ids pairwise distinct; enumerate each set once
	for i := 0; i < n; i++ {
		for j := 0; j < i; j++ {
			vAssume(ins[i].method != ins[j].method || ins[i].path != ins[j].path)
			vAssume(ins[i].id == "" || ins[i].id != ins[j].id)
		}
	}
	sw := &spec.Swagger{}
	sw.Swagger = "2.0"
	sw.Paths = &spec.Paths{Paths: map[string]spec.PathItem{}}
	for _, in := range ins {
		pi := sw.Paths.Paths[in.path]
		op := &spec.Operation{}
		op.ID = in.id
		vSetOp(&pi, in.method, op)
		sw.Paths.Paths[in.path] = pi
	}
	if vParam("mapsites") > 0 {
		vMapOrderSite(vChoice("mapsite", vParam("mapsites")+1) - 1)
	}
	doc := analysis.New(sw)
	vCover("analysed")
	got := gatherOperations(doc, nil)
	vObserve("n", len(got))
	if vKnown("C08-G1", vKeyCollision(ins)) {
		return
	}
	vAssert(len(got) == n, "an operation of the spec is missing from (or merged in) the gathered operations")
	for _, in := range ins {
		found := false
		for _, o := range got {
			if o.Method == in.method && o.Path == in.path {
				found = true
				vAssert(o.Op != nil && o.Op.ID == o.ID, "gathered operation id is not propagated")
			}
		}
		vAssert(found, "an operation (method+path) of the spec has no entry of its own")
	}
}

// known finding G1: two operations derive the same key and the clash is not resolved by explicit ids -
// at least one of the two has no operationId, or one of their ids is itself the derived key of an id-less operation
func vKeyCollision(ins []vOpIn) bool {
	key := func(in vOpIn) string { return vOpKey(in.method, in.path) }
	for i := range ins {
		for j := 0; j < i; j++ {
			if key(ins[i]) != key(ins[j]) {
				continue
			}
			if ins[i].id == "" || ins[j].id == "" {
				return true
			}
			for _, k := range ins {
				if k.id == "" && (key(k) == ins[i].id || key(k) == ins[j].id) {
					return true
				}
			}
		}
	}
	return false
}

// the key gatherOperations derives for an operation without operationId
func vOpKey(method, path string) string {
	return swag.ToGoName(strings.ToLower(method) + " " + swag.ToHumanNameTitle(path))
}
