//go:build verif

package generator

import (
	"github.com/go-openapi/analysis"
	"github.com/go-openapi/spec"
)

// appGenerator for a spec, built the way newAppGenerator does but without the loader / file system
func vAppGenerator(sw *spec.Swagger) *appGenerator {
	doc := vDocument(sw)
	analyzed := analysis.New(sw)
	opts := vGenOpts()
	opts.IncludeHandler, opts.IncludeParameters, opts.IncludeResponses, opts.IncludeURLBuilder = true, true, true, true
	opts.IncludeSupport = true
	opts.APIPackage, opts.ServerPackage, opts.ClientPackage, opts.ModelPackage = "operations", "restapi", "client", "models"
	opts.Name = "app"
	opts.DefaultScheme, opts.DefaultProduces, opts.DefaultConsumes = "http", "application/json", "application/json"
	models := map[string]spec.Schema{}
	for k, v := range sw.Definitions {
		models[k] = v
	}
	return &appGenerator{
		Name: "app", Receiver: "o", SpecDoc: doc, Analyzed: analyzed, Models: models,
		Operations: gatherOperations(analyzed, nil), Target: opts.Target,
		Package: "operations", APIPackage: "operations", ModelsPackage: "models", ServerPackage: "restapi", ClientPackage: "client",
		OperationsPackage: "restapi/operations", Principal: "", DefaultScheme: "http", DefaultProduces: "application/json", DefaultConsumes: "application/json",
		GenOpts: opts,
	}
}
