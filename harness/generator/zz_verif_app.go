//go:build verif

package generator

import (
	"github.com/go-openapi/analysis"
	"github.com/go-openapi/spec"
)

func init() { vRegister("VerifProbeApp", VerifProbeApp) }

// appGenerator for a spec, built the way newAppGenerator does but without the loader / file system
func vAppGenerator(sw *spec.Swagger) *appGenerator {
	doc := vDocument(sw)
	analyzed := analysis.New(sw)
	opts := vGenOpts()
	opts.IncludeHandler, opts.IncludeParameters, opts.IncludeResponses, opts.IncludeURLBuilder = true, true, true, true
	opts.IncludeSupport = true
	opts.APIPackage, opts.ServerPackage, opts.ClientPackage, opts.ModelPackage = "operations", "restapi", "client", "models"
	opts.Name = "app"
	opts.DefaultScheme, opts.DefaultProduces, opts.DefaultConsumes = "http", "application/json", "application/json"
	models := map[string]spec.Schema{}
	for k, v := range sw.Definitions {
		models[k] = v
	}
	return &appGenerator{
		Name: "app", Receiver: "o", SpecDoc: doc, Analyzed: analyzed, Models: models,
		Operations: gatherOperations(analyzed, nil), Target: opts.Target,
		Package: "operations", APIPackage: "operations", ModelsPackage: "models", ServerPackage: "restapi", ClientPackage: "client",
		OperationsPackage: "restapi/operations", Principal: "", DefaultScheme: "http", DefaultProduces: "application/json", DefaultConsumes: "application/json",
		GenOpts: opts,
	}
}

func VerifProbeApp() {
	sw := &spec.Swagger{}
	sw.Swagger = "2.0"
	sw.Info = &spec.Info{}
	sw.Info.Title = "t"
	sw.Info.Version = "1"
	sw.SecurityDefinitions = spec.SecurityDefinitions{"key": spec.APIKeyAuth("X-Key", "header"), "basic": spec.BasicAuth()}
	sw.Security = []map[string][]string{{"key": {}}}
	op := &spec.Operation{}
	op.ID = "getThing"
	op.Responses = &spec.Responses{}
	r := spec.Response{}
	r.Description = "ok"
	op.Responses.StatusCodeResponses = map[int]spec.Response{200: r}
	op2 := &spec.Operation{}
	op2.ID = "delThing"
	op2.Security = []map[string][]string{}
	op2.Responses = op.Responses
	sw.Paths = &spec.Paths{Paths: map[string]spec.PathItem{"/thing": {PathItemProps: spec.PathItemProps{Get: op, Delete: op2}}}}
	sw.Definitions = spec.Definitions{"Thing": *spec.StringProperty()}
	a := vAppGenerator(sw)
	app, err := a.makeCodegenApp()
	vAssert(err == nil, "makeCodegenApp failed")
	vCover("planned")
	vObserve("nops", len(app.Operations))
	vObserve("nschemes", len(app.SecurityDefinitions))
	for _, o := range app.Operations {
		vObserve("authorized."+o.Name, o.Authorized)
	}
}
