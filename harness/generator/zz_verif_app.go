//go:build verif

package generator

import (
	"encoding/json"
	"errors"
	"os"
	"path/filepath"

	"github.com/go-openapi/analysis"
	"github.com/go-openapi/spec"
)

// appGenerator for a spec, built by the real newAppGenerator. Symbolically the loader, the template
// loader and the option check are stubbed: validateAndFlattenSpec answers with the document itself
// (the specs built by the harnesses are flat, local and need no preprocessing - natively the real
// load + minimal flatten runs on a temporary file and the native validation of every path checks
// that this stub is faithful). Everything newAppGenerator / analyzeSpec do after loading is executed.
func vAppGenerator(sw *spec.Swagger) *appGenerator { return vAppGeneratorAt(sw, "") }

// vAppGeneratorAt: with a target directory the options are fully defaulted (sections, templates), as
// GenerateServer does, so that the generator can actually render (native replay of rendering harnesses)
func vAppGeneratorAt(sw *spec.Swagger, target string) *appGenerator {
	opts := vGenOpts()
	if target != "" {
		opts.Target = target
	}
	opts.IncludeHandler, opts.IncludeParameters, opts.IncludeResponses, opts.IncludeURLBuilder = true, true, true, true
	opts.IncludeSupport = true
	opts.APIPackage, opts.ServerPackage, opts.ClientPackage, opts.ModelPackage = "operations", "restapi", "client", "models"
	opts.Name = "app"
	opts.DefaultScheme, opts.DefaultProduces, opts.DefaultConsumes = "http", "application/json", "application/json"
	if vSymbolic() {
		vStubReturn("(*github.com/go-swagger/go-swagger/generator.GenOpts).CheckOpts", nil)
		vStubReturn("(*github.com/go-swagger/go-swagger/generator.GenOpts).setTemplates", nil)
		vStubReturn("(*github.com/go-swagger/go-swagger/generator.GenOpts).validateAndFlattenSpec", vDocument(sw), nil)
	} else {
		dir, err := os.MkdirTemp("", "verifspec")
		if err != nil {
			panic(err)
		}
		defer os.RemoveAll(dir)
		b, err := json.Marshal(sw)
		if err != nil {
			panic(err)
		}
		opts.Spec = filepath.Join(dir, "swagger.json")
		if err := os.WriteFile(opts.Spec, b, 0o600); err != nil {
			panic(err)
		}
		opts.FlattenOpts = &analysis.FlattenOpts{Minimal: true}
		opts.templates = templates
		if target != "" {
			if err := opts.EnsureDefaults(); err != nil {
				panic(err)
			}
		}
	}
	ag, err := newAppGenerator("app", nil, nil, opts)
	vAssert(err == nil, "newAppGenerator failed")
	if err != nil {
		return nil
	}
	return ag
}

func vPlanApp(sw *spec.Swagger) (GenApp, error) {
	ag := vAppGenerator(sw)
	if ag == nil {
		return GenApp{}, errors.New("no app generator")
	}
	return ag.makeCodegenApp()
}
