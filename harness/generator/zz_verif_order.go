//go:build verif

package generator

import (
	"os"
	"path/filepath"
	"reflect"

	"github.com/go-openapi/analysis"
	"github.com/go-openapi/spec"
)

func init() {
	vRegister("VerifC07OrderSecurity", VerifC07OrderSecurity)
	vRegister("VerifC07OrderSchemes", VerifC07OrderSchemes)
	vRegister("VerifC07OrderParams", VerifC07OrderParams)
	vRegister("VerifC07OrderOperations", VerifC07OrderOperations)
}

// run f once in canonical map order and once with map site k rotated; results must be equal
func vOrderIndependent(name string, sites int, f func() interface{}) {
	r1 := f()
	k := vChoice(name+".site", sites)
	vMapOrderSite(k)
	r2 := f()
	vMapOrderSite(-1)
	vCover(name)
	vAssert(reflect.DeepEqual(r1, r2), name+": result depends on map iteration order")
}

func vSecSchemes() map[string]spec.SecurityScheme {
	m := map[string]spec.SecurityScheme{}
	names := []string{"a", "b", "c"}
	n := vParam("schemes")
	for i := 0; i < n; i++ {
		s := spec.SecurityScheme{}
		s.Type = []string{"basic", "apiKey", "oauth2"}[vChoice("type", 3)]
		if s.Type == "oauth2" {
			s.Scopes = map[string]string{}
			ns := vChoice("nscopes", 3)
			for j := 0; j < ns; j++ {
				s.Scopes[[]string{"read", "write"}[j]] = "d"
			}
		}
		m[names[i]] = s
	}
	return m
}

func VerifC07OrderSecurity() {
	m := vSecSchemes()
	if vKnown("C07-G2", vHasTwoScopes(m)) {
		return
	}
	vOrderIndependent("gatherSecuritySchemes", 4, func() interface{} {
		return gatherSecuritySchemes(m, "app", "principal", "o", false)
	})
	reqs := []map[string][]string{{}}
	for _, k := range []string{"a", "b"} {
		if vBool2("req." + k) {
			reqs[0][k] = []string{"read"}
		}
	}
	if vKnown("C07-G2b", len(reqs[0]) > 1) {
		return
	}
	vOrderIndependent("securityRequirements", 2, func() interface{} {
		return securityRequirements(reqs)
	})
}

func vHasTwoScopes(m map[string]spec.SecurityScheme) bool {
	for _, s := range m {
		if len(s.Scopes) > 1 {
			return true
		}
	}
	return false
}

func VerifC07OrderSchemes() {
	words := []string{"http", "https", "ws"}
	pick := func(tag string) []string {
		var out []string
		for _, w := range words {
			if vBool2(tag + "." + w) {
				out = append(out, w)
			}
		}
		return out
	}
	sw := &spec.Swagger{}
	sw.Schemes = pick("spec")
	op := spec.Operation{}
	op.Schemes = pick("op")
	vOrderIndependent("gatherURISchemes", 3, func() interface{} {
		a, b := gatherURISchemes(sw, op)
		return [][]string{a, b}
	})
	left := pick("tags")
	vOrderIndependent("intersectTags", 2, func() interface{} { return intersectTags(left, []string{"http", "ws"}) })
}

func VerifC07OrderParams() {
	params := map[string]spec.Parameter{}
	names := []string{"id", "ID", "timeout", "name"}
	ins := []string{"query", "header", "path"}
	n := vParam("params")
	for i := 0; i < n; i++ {
		p := spec.Parameter{}
		p.Name = names[vChoice("name", len(names))]
		p.In = ins[vChoice("in", len(ins))]
		key := p.In + "#" + p.Name
		if _, dup := params[key]; dup {
			vAssume(false)
		}
		params[key] = p
	}
	if vKnown("C07-G6", vCaseCollision(params)) {
		return
	}
	vOrderIndependent("paramMappings", 3, func() interface{} {
		m, t := paramMappings(params)
		return []interface{}{m, t}
	})
}

func VerifC07OrderOperations() {
	n := vParam("ops")
	sw := &spec.Swagger{}
	sw.Swagger = "2.0"
	sw.Paths = &spec.Paths{Paths: map[string]spec.PathItem{}}
	type key struct{ m, p string }
	seen := map[key]bool{}
	ids := map[string]bool{}
	for i := 0; i < n; i++ {
		method := []string{"GET", "POST"}[vChoice("method", 2)]
		path := vOpPaths[vChoice("path", 3)]
		id := []string{"", "GetA", "x"}[vChoice("id", 3)]
		if seen[key{method, path}] || (id != "" && ids[id]) {
			vAssume(false)
		}
		seen[key{method, path}] = true
		ids[id] = true
		pi := sw.Paths.Paths[path]
		op := &spec.Operation{}
		op.ID = id
		vSetOp(&pi, method, op)
		sw.Paths.Paths[path] = pi
	}
	doc := analysis.New(sw)
	if vKnown("C07-G1", vPathKeyCollision(sw)) {
		return
	}
	vOrderIndependent("gatherOperations", 4, func() interface{} {
		got := gatherOperations(doc, nil)
		var out []string
		for _, k := range []string{"GetA", "x", "PostA", "GetAB", "PostAB"} {
			if o, ok := got[k]; ok {
				out = append(out, k+"="+o.Method+" "+o.Path)
			}
		}
		return []interface{}{len(got), out}
	})
}

// two parameter names that differ only in case (known finding G6)
func vCaseCollision(params map[string]spec.Parameter) bool {
	var names []string
	for _, k := range []string{"query", "header", "path"} {
		for _, n := range []string{"id", "ID", "timeout", "name"} {
			if p, ok := params[k+"#"+n]; ok {
				names = append(names, p.Name)
			}
		}
	}
	for i := range names {
		for j := 0; j < i; j++ {
			if names[i] != names[j] && pascalize(names[i]) == pascalize(names[j]) {
				return true
			}
		}
	}
	return false
}

// known finding G1 (see vKeyCollision) on a built spec
func vPathKeyCollision(sw *spec.Swagger) bool {
	var ins []vOpIn
	for _, p := range vOpPaths {
		pi, ok := sw.Paths.Paths[p]
		if !ok {
			continue
		}
		if pi.Get != nil {
			ins = append(ins, vOpIn{"GET", p, pi.Get.ID})
		}
		if pi.Post != nil {
			ins = append(ins, vOpIn{"POST", p, pi.Post.ID})
		}
	}
	return vKeyCollision(ins)
}

func init() { vRegister("VerifC07Mime", VerifC07Mime) }

// C07: the serializer chosen for a media type does not depend on the iteration order of the table of patterns
func VerifC07Mime() {
	prefix := []string{"application/", "text/"}[vChoice("prefix", 2)]
	tail := vBytes("tail", vParam("tail"))
	for i := 0; i < len(tail); i++ {
		c := tail[i]
		vAssume(vOr(vAnd(c >= 'a', c <= 'z'), vOr(c == '+', c == '-')))
	}
	tn := prefix + tail
	n1, ok1 := wellKnownMime(tn)
	k := vChoice("site.rotation", 1)
	vMapOrderSite(k)
	n2, ok2 := wellKnownMime(tn)
	vMapOrderSite(-1)
	vCover("looked-up")
	vAssert(ok1 == ok2 && n1 == n2, "the serializer picked for a media type depends on map iteration order")
}

func init() { vRegister("VerifC07XOrderIsolation", VerifC07XOrderIsolation) }

// C07 (no shared state between runs): the amended copy of the spec that --keep-spec-order works
// on belongs to the run that made it. Two preparations - of specs that happen to share their
// file name - never hand out the same path, and the second one leaves the first one's file as it was.
func VerifC07XOrderIsolation() {
	sameBase := vBool2("sameFileName")
	var pathA, pathB string
	if vSymbolic() {
		vFSInit()
		pathA, pathB = "/specs/a/swagger.yml", "/specs/b/swagger.yml"
		if !sameBase {
			pathB = "/specs/b/other.yml"
		}
		vStubReturn("github.com/go-openapi/swag.LoadFromFileOrHTTP", []byte("x"), nil)
		vStubReturn("github.com/go-swagger/go-swagger/generator.BytesToYAMLv2Doc", nil, nil)
		vStubReturnN("gopkg.in/yaml.v2.Marshal", 0, []byte("document of the first run"), nil)
		vStubReturnN("gopkg.in/yaml.v2.Marshal", 1, []byte("document of the second run"), nil)
	} else {
		root, err := os.MkdirTemp("", "verifc07")
		if err != nil {
			panic(err)
		}
		defer os.RemoveAll(root)
		_ = os.MkdirAll(filepath.Join(root, "a"), 0o755)
		_ = os.MkdirAll(filepath.Join(root, "b"), 0o755)
		pathA = filepath.Join(root, "a", "swagger.yml")
		pathB = filepath.Join(root, "b", "swagger.yml")
		if !sameBase {
			pathB = filepath.Join(root, "b", "other.yml")
		}
		_ = os.WriteFile(pathA, []byte("swagger: '2.0'\ninfo: {title: first, version: '1'}\npaths: {}\n"), 0o600)
		_ = os.WriteFile(pathB, []byte("swagger: '2.0'\ninfo: {title: second, version: '2'}\npaths: {}\n"), 0o600)
	}
	read := func(p string) string {
		if vSymbolic() {
			s, _ := vFSRead(p)
			return s
		}
		b, _ := os.ReadFile(p)
		return string(b)
	}
	outA := WithAutoXOrder(pathA)
	before := read(outA)
	outB := WithAutoXOrder(pathB)
	after := read(outA)
	vCover("prepared")
	if !vSymbolic() {
		defer os.RemoveAll(filepath.Dir(outA))
		defer os.RemoveAll(filepath.Dir(outB))
	}
	vAssert(outA != outB, "two preparations of different specs share one working file")
	vAssert(before != "" && before == after, "preparing a second spec changed the working copy of the first one")
	vAssert(read(outB) != before, "the second run works on the first run's document")
}

func init() { vRegister("VerifC07Serializers", VerifC07Serializers) }

// C07: the consumers/producers planned for an application do not depend on the order in which
// the analysed spec lists its media types (go-openapi/analysis dumps the keys of a map), nor on
// the iteration order of makeSerializers' own maps: same groups, same media types, same spelling.
func VerifC07Serializers() {
	vocab := []string{"application/json", "application/JSON", "text/plain", "Text/Plain; charset=utf-8", "application/vnd.acme+json", "application/xml"}
	var fwd []string
	for _, m := range vocab {
		if vBool2("has." + m) {
			fwd = append(fwd, m)
		}
	}
	rev := make([]string, 0, len(fwd))
	for i := len(fwd) - 1; i >= 0; i-- {
		rev = append(rev, fwd[i])
	}
	a := &appGenerator{Name: "app", Receiver: "o"}
	known := func(media string) (string, bool) {
		c, ok := knownConsumers[media]
		return c, ok
	}
	print := func(gs GenSerGroups, json bool) string {
		out := ""
		if json {
			out = "json;"
		}
		for _, g := range gs {
			out += g.Name + "=" + g.Implementation + "["
			for _, s := range g.AllSerializers {
				out += s.MediaType + "(" + s.Name + ")"
			}
			out += "]"
		}
		return out
	}
	g1, j1 := a.makeSerializers(fwd, known)
	r1 := print(g1, j1)
	g2, j2 := a.makeSerializers(rev, known)
	r2 := print(g2, j2)
	k := vChoice("site", 3)
	vMapOrderSite(k)
	g3, j3 := a.makeSerializers(fwd, known)
	vMapOrderSite(-1)
	r3 := print(g3, j3)
	vCover("planned")
	vAssert(r1 == r2, "the planned serializers depend on the order in which the media types are listed")
	vAssert(r1 == r3, "the planned serializers depend on map iteration order")
}
