//go:build verif

package restapi

// (derived from harness/gen/c06/restapi/zz_verif_fullstack.go for a server generated with
// --principal models.Principal: the API's callbacks and handlers are typed, the generated
// AuthenticatorsFor wraps them in adapter closures)
// C06 through the REAL stack, symbolically: the generated API (router, security wiring, operation
// handlers, parameter binders) and go-openapi/runtime's middleware are interpreted as they are;
// nothing is stubbed. Inputs: which credentials a request carries and whether they are good.

import (
	"net/http"
	"net/url"
	"strings"

	oaerrors "github.com/go-openapi/errors"
	"github.com/go-openapi/loads"
	"github.com/go-openapi/runtime/middleware"

	"verifgen/models"
	"verifgen/restapi/operations"
)

func init() { vRegister("VerifGenFullStackTyped", VerifGenFullStackTyped) }

type vRec struct {
	h    http.Header
	code int
}

func (r *vRec) Header() http.Header         { return r.h }
func (r *vRec) Write(b []byte) (int, error) { return len(b), nil }
func (r *vRec) WriteHeader(c int)           { r.code = c }

func VerifGenFullStackTyped() {
	op := vChoice("op", 6) // 4 maybeThings (key OR anonymous), 5 rootThing on "/" (global: key); 0 listThings (global: key), 1 dropThings (oauth[write] OR basic+qkey), 2 openThing (none), 3 adminThings (oauth[admin,read])
	// credentials presented and whether each is good
	hasKey, goodKey := vBool("key.present"), vBool("key.good")
	hasQ, goodQ := vBool("qkey.present"), vBool("qkey.good")
	hasBasic, goodBasic := vBool("basic.present"), vBool("basic.good")
	hasBearer, goodBearer := vBool("bearer.present"), vBool("bearer.good")
	validParams := vBool("params.valid")

	// the spec the generated server embeds, decoded as the generated main program does
	doc, derr := loads.Embedded(SwaggerJSON, FlatSwaggerJSON)
	vAssert(derr == nil, "the embedded spec cannot be loaded")
	if derr != nil {
		return
	}
	api := operations.NewTAPI(doc)
	api.Logger = func(string, ...interface{}) {}
	alice := &models.Principal{Name: "alice"}
	tok := func(good bool) func(string) (*models.Principal, error) {
		return func(t string) (*models.Principal, error) {
			if good {
				return alice, nil
			}
			return nil, oaerrors.Unauthenticated("x")
		}
	}
	api.KeyAuth = tok(goodKey)
	api.QkeyAuth = tok(goodQ)
	api.BasicAuth = func(u, p string) (*models.Principal, error) {
		if goodBasic {
			return alice, nil
		}
		return nil, oaerrors.Unauthenticated("x")
	}
	var scopesAsked []string
	api.OauthAuth = func(t string, scopes []string) (*models.Principal, error) {
		scopesAsked = scopes
		if goodBearer {
			return alice, nil
		}
		return nil, oaerrors.Unauthenticated("x")
	}
	called := false
	which := ""
	var got *models.Principal
	api.ListThingsHandler = operations.ListThingsHandlerFunc(func(p operations.ListThingsParams, pr *models.Principal) middleware.Responder {
		which = "listThings"
		called, got = true, pr
		return middleware.NotImplemented("x")
	})
	api.DropThingsHandler = operations.DropThingsHandlerFunc(func(p operations.DropThingsParams, pr *models.Principal) middleware.Responder {
		which = "dropThings"
		called, got = true, pr
		return middleware.NotImplemented("x")
	})
	api.AdminThingsHandler = operations.AdminThingsHandlerFunc(func(p operations.AdminThingsParams, pr *models.Principal) middleware.Responder {
		which = "adminThings"
		called, got = true, pr
		return middleware.NotImplemented("x")
	})
	api.OpenThingHandler = operations.OpenThingHandlerFunc(func(p operations.OpenThingParams) middleware.Responder {
		which = "openThing"
		called, got = true, nil
		return middleware.NotImplemented("x")
	})
	api.MaybeThingsHandler = operations.MaybeThingsHandlerFunc(func(p operations.MaybeThingsParams, pr *models.Principal) middleware.Responder {
		which = "maybeThings"
		called, got = true, pr
		return middleware.NotImplemented("x")
	})
	api.RootThingHandler = operations.RootThingHandlerFunc(func(p operations.RootThingParams, pr *models.Principal) middleware.Responder {
		which = "rootThing"
		called, got = true, pr
		return middleware.NotImplemented("x")
	})
	api.Init()
	h := api.Context().RoutesHandler(nil) // the API handler without the documentation middlewares (they copy their options through encoding/gob)
	method, path := "GET", "/api/things"
	if op == 1 {
		method = "DELETE"
	}
	if op == 2 {
		path = "/api/open"
	}
	if op == 3 {
		method = "POST"
	}
	if op == 4 {
		method = "PUT"
	}
	if op == 5 {
		path = "/api"
	}
	query := url.Values{}
	if validParams {
		query.Set("q", "ab")
	}
	if hasQ {
		query.Set("api_key", "k")
	}
	req := &http.Request{Method: method, Header: http.Header{}, URL: &url.URL{Path: path, RawQuery: query.Encode()}, Host: "h"}
	if hasKey {
		req.Header.Set("X-Key", "k")
	}
	if hasBasic {
		req.SetBasicAuth("u", "p")
	} else if hasBearer {
		req.Header.Set("Authorization", "Bearer t")
	}
	rec := &vRec{h: http.Header{}}
	h.ServeHTTP(rec, req)
	vCover("served")
	vObserve("handler.reached", called)
	// the effective requirement of each operation, as a predicate over the credentials
	var authorized bool
	switch op {
	case 0, 5:
		authorized = vAnd(hasKey, goodKey)
	case 4:
		// optional authentication: a presented key must be good, no key means anonymous
		authorized = vOr(!hasKey, goodKey)
	case 1:
		bearer := vAnd(vAnd(!hasBasic, hasBearer), goodBearer)
		basicAndQ := vAnd(vAnd(hasBasic, goodBasic), vAnd(hasQ, goodQ))
		authorized = vOr(bearer, basicAndQ)
	case 3:
		authorized = vAnd(vAnd(!hasBasic, hasBearer), goodBearer)
	default:
		authorized = true
	}
	// the token authenticator is asked for exactly the scopes the operation lists
	if scopesAsked != nil {
		wantScopes := "write"
		if op == 3 {
			wantScopes = "admin,read"
		}
		vAssert(strings.Join(scopesAsked, ",") == wantScopes, "the oauth2 authenticator is not asked for the scopes the operation requires")
	}
	want := vAnd(authorized, validParams)
	vAssert(called == want, "the handler is reached exactly by requests that satisfy an alternative of the effective requirement (and are valid)")
	if !called && op != 2 {
		if vNot(authorized) {
			vAssert(rec.code == 401 || rec.code == 403, "a request satisfying no alternative is not answered 401/403")
		}
	}
	if called {
		vAssert(which == []string{"listThings", "dropThings", "openThing", "adminThings", "maybeThings", "rootThing"}[op], "the request is routed to the handler of another operation")
	}
	if called && op == 4 {
		if hasKey {
			vAssert(got == alice, "with optional authentication the principal of a presented credential is not handed to the handler")
		} else {
			vAssert(got == nil, "an anonymous request is handed a principal")
		}
	}
	if called && op != 2 && op != 4 {
		vAssert(got == alice, "the principal handed to the handler is not the authenticator's")
	}
}
