//go:build verif

package restapi

// C08 through the REAL stack: every operation of the spec (eight: with and without operationId, on
// the root path under a basePath, with a path parameter, with an inline body) has a handler slot of
// its own in the generated API and a request for its method and path reaches exactly that handler.

import (
	"net/http"
	"net/url"
	"strings"

	"github.com/go-openapi/loads"
	"github.com/go-openapi/runtime/middleware"

	"verifgen/restapi/operations"
)

func init() { vRegister("VerifGenEveryOperationRouted", VerifGenEveryOperationRouted) }

type vBody struct{ r *strings.Reader }

func (b vBody) Read(p []byte) (int, error) { return b.r.Read(p) }
func (b vBody) Close() error               { return nil }

func VerifGenEveryOperationRouted() {
	op := vChoice("op", 8)
	id := vBytes("widget.id", 2)
	idOK := len(id) > 0
	for i := 0; i < len(id); i++ {
		c := id[i]
		idOK = vAnd(idOK, vOr(vAnd(c >= 'a', c <= 'z'), vAnd(c >= '0', c <= '9')))
	}
	vAssume(idOK)
	trailing := vBool2("trailing.slash")
	doc, derr := loads.Embedded(SwaggerJSON, FlatSwaggerJSON)
	vAssert(derr == nil, "the embedded spec cannot be loaded")
	if derr != nil {
		return
	}
	api := operations.NewTAPI(doc)
	api.Logger = func(string, ...interface{}) {}
	yes := func(string) (interface{}, error) { return "alice", nil }
	api.KeyAuth, api.QkeyAuth = yes, yes
	api.BasicAuth = func(u, p string) (interface{}, error) { return "alice", nil }
	api.OauthAuth = func(t string, scopes []string) (interface{}, error) { return "alice", nil }
	reached := []string{}
	hit := func(name string) middleware.Responder {
		reached = append(reached, name)
		return middleware.NotImplemented("x")
	}
	api.ListThingsHandler = operations.ListThingsHandlerFunc(func(p operations.ListThingsParams, pr interface{}) middleware.Responder { return hit("GET /things") })
	api.DropThingsHandler = operations.DropThingsHandlerFunc(func(p operations.DropThingsParams, pr interface{}) middleware.Responder { return hit("DELETE /things") })
	api.AdminThingsHandler = operations.AdminThingsHandlerFunc(func(p operations.AdminThingsParams, pr interface{}) middleware.Responder { return hit("POST /things") })
	api.MaybeThingsHandler = operations.MaybeThingsHandlerFunc(func(p operations.MaybeThingsParams, pr interface{}) middleware.Responder { return hit("PUT /things") })
	api.RootThingHandler = operations.RootThingHandlerFunc(func(p operations.RootThingParams, pr interface{}) middleware.Responder { return hit("GET /") })
	api.OpenThingHandler = operations.OpenThingHandlerFunc(func(p operations.OpenThingParams) middleware.Responder { return hit("GET /open") })
	api.PostReportsHandler = operations.PostReportsHandlerFunc(func(p operations.PostReportsParams) middleware.Responder { return hit("POST /reports") })
	gotID := ""
	api.GetWidgetsIDHandler = operations.GetWidgetsIDHandlerFunc(func(p operations.GetWidgetsIDParams) middleware.Responder {
		gotID = p.ID
		return hit("GET /widgets/{id}")
	})
	api.Init()
	h := api.Context().RoutesHandler(nil)

	names := []string{"GET /things", "DELETE /things", "POST /things", "PUT /things", "GET /", "GET /open", "POST /reports", "GET /widgets/{id}"}
	want := names[op]
	parts := strings.SplitN(want, " ", 2)
	method, path := parts[0], "/api"+parts[1]
	if op == 4 {
		path = "/api"
		if trailing {
			path = "/api/"
		}
	}
	if op == 7 {
		path = "/api/widgets/" + id
	}
	query := url.Values{}
	query.Set("q", "ab")
	query.Set("api_key", "k")
	req := &http.Request{Method: method, Header: http.Header{}, URL: &url.URL{Path: path, RawQuery: query.Encode()}, Host: "h"}
	req.Header.Set("X-Key", "k")
	if op == 1 {
		req.SetBasicAuth("u", "p")
	} else {
		req.Header.Set("Authorization", "Bearer t")
	}
	if op == 6 {
		req.Header.Set("Content-Type", "application/json")
		body := `{"rows":[{"n":1}]}`
		req.Body = vBody{strings.NewReader(body)}
		req.ContentLength = int64(len(body))
	}
	rec := &vRec{h: http.Header{}}
	h.ServeHTTP(rec, req)
	vCover("routed")
	vAssert(len(reached) == 1, "a request for an operation of the spec does not reach exactly one handler")
	if len(reached) == 1 {
		vAssert(reached[0] == want, "a request for an operation of the spec reaches the handler of another operation")
	}
	if op == 7 && len(reached) == 1 {
		vAssert(gotID == id, "the path parameter is not handed to the handler")
	}
}
