//go:build verif

package restapi

// C10 on a GENERATED server: the two documents the server embeds, decoded the way the server's
// main program decodes them, state what the input spec (harness/gen/c06/swagger.yml) states.

import (
	"sort"
	"strings"

	"github.com/go-openapi/loads"
	"github.com/go-openapi/spec"
)

func init() { vRegister("VerifGenEmbeddedSpec", VerifGenEmbeddedSpec) }

func vReqText(reqs []map[string][]string) string {
	var alts []string
	for _, alt := range reqs {
		var parts []string
		for name, scopes := range alt {
			parts = append(parts, name+"["+strings.Join(scopes, ",")+"]")
		}
		sort.Strings(parts)
		alts = append(alts, strings.Join(parts, "&"))
	}
	return strings.Join(alts, " | ")
}

func vCheckDoc(sw *spec.Swagger, which string) {
	vAssert(sw != nil && sw.Swagger == "2.0" && sw.BasePath == "/api", which+": version or basePath differ from the input")
	if sw == nil {
		return
	}
	vAssert(sw.Info != nil && sw.Info.Title == "t" && sw.Info.Version == "1", which+": info differs from the input")
	vAssert(len(sw.SecurityDefinitions) == 4, which+": not the four security definitions of the input")
	if d, ok := sw.SecurityDefinitions["key"]; ok && d != nil {
		vAssert(d.Type == "apiKey" && d.In == "header" && d.Name == "X-Key", which+": security definition 'key' differs from the input")
	} else {
		vAssert(false, which+": security definition 'key' is missing")
	}
	if d, ok := sw.SecurityDefinitions["qkey"]; ok && d != nil {
		vAssert(d.Type == "apiKey" && d.In == "query" && d.Name == "api_key", which+": security definition 'qkey' differs from the input")
	} else {
		vAssert(false, which+": security definition 'qkey' is missing")
	}
	if d, ok := sw.SecurityDefinitions["oauth"]; ok && d != nil {
		vAssert(d.Type == "oauth2" && d.Flow == "accessCode" && len(d.Scopes) == 2, which+": security definition 'oauth' differs from the input")
	} else {
		vAssert(false, which+": security definition 'oauth' is missing")
	}
	vAssert(vReqText(sw.Security) == "key[]", which+": the global security requirement differs from the input")
	vAssert(sw.Paths != nil && len(sw.Paths.Paths) == 5, which+": not the five paths of the input")
	if sw.Paths == nil {
		return
	}
	things, open, root := sw.Paths.Paths["/things"], sw.Paths.Paths["/open"], sw.Paths.Paths["/"]
	type want struct {
		op       *spec.Operation
		id       string
		security string
		own      bool
	}
	for _, w := range []want{
		{things.Get, "listThings", "", false},
		{things.Delete, "dropThings", "oauth[write] | basic[]&qkey[]", true},
		{things.Post, "adminThings", "oauth[admin,read]", true},
		{open.Get, "openThing", "", true},
		{things.Put, "maybeThings", "key[] | ", true},
		{root.Get, "rootThing", "", false},
	} {
		vAssert(w.op != nil, which+": operation "+w.id+" is missing")
		if w.op == nil {
			continue
		}
		vAssert(w.op.ID == w.id, which+": operation id of "+w.id+" differs from the input")
		if w.own {
			vAssert(w.op.Security != nil && vReqText(w.op.Security) == w.security, which+": the security requirement of "+w.id+" differs from the input")
		} else {
			vAssert(w.op.Security == nil, which+": "+w.id+" gained a security requirement of its own")
		}
		vAssert(len(w.op.Parameters) == 1, which+": parameters of "+w.id+" differ from the input")
		if len(w.op.Parameters) == 1 {
			p := w.op.Parameters[0]
			vAssert(p.Name == "q" && p.In == "query" && p.Required && p.Type == "string" && p.MinLength != nil && *p.MinLength == 2, which+": parameter q of "+w.id+" differs from the input")
		}
		vAssert(w.op.Responses != nil && len(w.op.Responses.StatusCodeResponses) == 1, which+": responses of "+w.id+" differ from the input")
	}
	vAssert(things.Patch == nil && root.Post == nil && open.Post == nil && open.Delete == nil, which+": operations the input does not have")
	// an operation the input gives no id keeps none (ids the generator derives are its own business)
	w := sw.Paths.Paths["/widgets/{id}"]
	vAssert(w.Get != nil && w.Get.ID == "", which+": an operation without operationId in the input has one")
	// an inline body with an array of anonymous objects is still described: inline, or through a $ref the document can resolve
	r := sw.Paths.Paths["/reports"]
	vAssert(r.Post != nil && len(r.Post.Parameters) == 1 && r.Post.Parameters[0].Schema != nil, which+": the body parameter of postReports differs from the input")
	if r.Post != nil && len(r.Post.Parameters) == 1 && r.Post.Parameters[0].Schema != nil {
		rows, has := r.Post.Parameters[0].Schema.Properties["rows"]
		vAssert(has && rows.Items != nil && rows.Items.Schema != nil, which+": the rows property of the body differs from the input")
		if has && rows.Items != nil && rows.Items.Schema != nil {
			item := rows.Items.Schema
			if ref := item.Ref.String(); ref != "" {
				d, ok := sw.Definitions[strings.TrimPrefix(ref, "#/definitions/")]
				vAssert(ok, which+": the body refers to a definition the document does not contain")
				if ok {
					item = &d
				}
			}
			_, hasN := item.Properties["n"]
			vAssert(hasN, which+": the items of the body no longer have their property")
		}
	}
}

func VerifGenEmbeddedSpec() {
	doc, err := loads.Embedded(SwaggerJSON, FlatSwaggerJSON)
	vCover("decoded")
	vAssert(err == nil, "the embedded documents cannot be decoded")
	if err != nil {
		return
	}
	vCheckDoc(doc.OrigSpec(), "original document")
	vCheckDoc(doc.Spec(), "flattened document")
}
