//go:build verif

package restapi

// C03/C04 through the REAL stack for a file parameter: a multipart upload reaches the handler as a
// readable stream holding exactly the bytes of the part - whether the multipart parser kept the
// part in memory or, with the documented knob <Operation>MaxParseMemory lowered, wrote it to a
// temporary file (of the engine's in-memory file system; natively a real one).

import (
	"io"
	"net/http"
	"net/url"
	"strings"

	"github.com/go-openapi/loads"
	"github.com/go-openapi/runtime/middleware"

	"verifgen/restapi/operations"
)

func init() { vRegister("VerifGenUploadStack", VerifGenUploadStack) }

func VerifGenUploadStack() {
	onDisk := vBool2("part.spilled.to.disk")
	withDoc := vBool2("doc.present")
	content := vBytes("doc.content", 3)
	note := vBytes("form.note", 2)
	vAssume(vAnd(vAlnum(content), vAlnum(note)))

	doc, derr := loads.Embedded(SwaggerJSON, FlatSwaggerJSON)
	vAssert(derr == nil, "the embedded spec cannot be loaded")
	if derr != nil {
		return
	}
	vFSInit() // symbolically, temporary files are files of the in-memory file system
	saved := operations.PostUploadMaxParseMemory
	defer func() { operations.PostUploadMaxParseMemory = saved }()
	if onDisk {
		// the parser keeps this much of the file parts in memory: with 0 every non-empty file part goes to disk
		operations.PostUploadMaxParseMemory = 0
	}
	api := operations.NewTAPI(doc)
	api.Logger = func(string, ...interface{}) {}
	called := false
	readErr := error(nil)
	got, gotNote := "", ""
	var bound *http.Request
	api.PostUploadHandler = operations.PostUploadHandlerFunc(func(p operations.PostUploadParams) middleware.Responder {
		called = true
		bound = p.HTTPRequest
		if p.Doc != nil {
			b, err := io.ReadAll(p.Doc)
			got, readErr = string(b), err
		}
		if p.Note != nil {
			gotNote = *p.Note
		}
		return middleware.NotImplemented("x")
	})
	api.Init()
	h := api.Context().RoutesHandler(nil)

	body := "--XBOUNDARYX\r\nContent-Disposition: form-data; name=\"note\"\r\n\r\n" + note + "\r\n"
	if withDoc {
		body += "--XBOUNDARYX\r\nContent-Disposition: form-data; name=\"doc\"; filename=\"a.txt\"\r\nContent-Type: text/plain\r\n\r\n" + content + "\r\n"
	}
	body += "--XBOUNDARYX--\r\n"
	req := &http.Request{Method: "POST", Header: http.Header{}, URL: &url.URL{Path: "/api/uploads"}, Host: "h"}
	req.Header.Set("Content-Type", "multipart/form-data; boundary=XBOUNDARYX")
	req.Body = vFormBody{strings.NewReader(body)}
	req.ContentLength = int64(len(body))
	rec := &vRec{h: http.Header{}}
	h.ServeHTTP(rec, req)
	if bound != nil && bound.MultipartForm != nil {
		_ = bound.MultipartForm.RemoveAll() // the temporary files of the parser (natively: real ones)
	}
	vCover("served")
	vAssert(called == withDoc, "the handler is reached exactly by uploads that carry the required file part")
	if !called {
		vAssert(rec.code >= 400 && rec.code < 500, "an upload without the required file is not answered with a 4xx")
		return
	}
	vAssert(readErr == nil, "the uploaded file handed to the handler cannot be read")
	vAssert(got == content, "the uploaded file handed to the handler does not hold the bytes of the part")
	vAssert(gotNote == note, "a form field next to the file is not the one of the request")
}
