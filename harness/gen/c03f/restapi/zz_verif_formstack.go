//go:build verif

package restapi

// C03 through the REAL stack for form parameters: the same two fields sent as
// application/x-www-form-urlencoded and as multipart/form-data (no file part) must be bound and
// validated alike; net/http's form parsing (mime, mime/multipart) is interpreted as it is.

import (
	"net/http"
	"net/url"
	"strings"

	"github.com/go-openapi/loads"
	"github.com/go-openapi/runtime/middleware"

	"verifgen/restapi/operations"
)

func init() { vRegister("VerifGenFormStack", VerifGenFormStack) }

type vFormBody struct{ r *strings.Reader }

func (b vFormBody) Read(p []byte) (int, error) { return b.r.Read(p) }
func (b vFormBody) Close() error               { return nil }

func VerifGenFormStack() {
	multipart := vBool2("multipart")
	name := vBytes("form.name", 3)
	hasName := vBool2("form.name.present")
	size := vBytes("form.size", 3)
	hasSize := vBool2("form.size.present")
	vAssume(vAnd(vAlnum(name), vAlnum(size)))

	doc, derr := loads.Embedded(SwaggerJSON, FlatSwaggerJSON)
	vAssert(derr == nil, "the embedded spec cannot be loaded")
	if derr != nil {
		return
	}
	api := operations.NewTAPI(doc)
	api.Logger = func(string, ...interface{}) {}
	called := false
	var got operations.PostFormParams
	api.PostFormHandler = operations.PostFormHandlerFunc(func(p operations.PostFormParams) middleware.Responder {
		called, got = true, p
		return middleware.NotImplemented("x")
	})
	api.Init()
	h := api.Context().RoutesHandler(nil)

	body, ctype := "", "application/x-www-form-urlencoded"
	if multipart {
		ctype = "multipart/form-data; boundary=XBOUNDARYX"
		part := func(field, value string) string {
			return "--XBOUNDARYX\r\nContent-Disposition: form-data; name=\"" + field + "\"\r\n\r\n" + value + "\r\n"
		}
		body = part("z", "1")
		if hasName {
			body += part("name", name)
		}
		if hasSize {
			body += part("size", size)
		}
		body += "--XBOUNDARYX--\r\n"
	} else {
		body = "z=1"
		if hasName {
			body += "&name=" + name
		}
		if hasSize {
			body += "&size=" + size
		}
	}
	req := &http.Request{Method: "POST", Header: http.Header{}, URL: &url.URL{Path: "/api/forms"}, Host: "h"}
	req.Header.Set("Content-Type", ctype)
	req.Body = vFormBody{strings.NewReader(body)}
	req.ContentLength = int64(len(body))
	rec := &vRec{h: http.Header{}}
	h.ServeHTTP(rec, req)
	vCover("served")

	valid := vAnd(hasName, len(name) >= 2)
	sv, sok := vDigits(size)
	sizePresent := vAnd(hasSize, len(size) > 0)
	valid = vAnd(valid, vOr(!sizePresent, vAnd(sok, sv <= 100)))
	vAssert(called == valid, "the handler is reached exactly by form requests that satisfy the declared parameters")
	if !called {
		vAssert(rec.code >= 400 && rec.code < 500, "an invalid form request is not answered with a 4xx")
		return
	}
	vAssert(got.Name == name, "the required form field handed to the handler is not the one of the request")
	if sizePresent {
		vAssert(got.Size != nil && int64(*got.Size) == sv, "the optional form field handed to the handler is not the one of the request")
	} else {
		vAssert(got.Size != nil && *got.Size == 20, "an absent optional form field does not hold the default of the spec")
	}
}
