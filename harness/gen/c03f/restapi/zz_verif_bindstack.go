//go:build verif

package restapi

// C03 through the REAL stack, symbolically: router (path pattern with a symbolic segment), the
// extraction of raw values from URL, header and path by go-openapi/runtime and the generated
// BindRequest, the generated binders/validators, the handler. Nothing is stubbed.

import (
	"net/http"
	"net/url"
	"time"

	"github.com/go-openapi/loads"
	"github.com/go-openapi/runtime/middleware"

	"verifgen/restapi/operations"
)

func init() { vRegister("VerifGenBindStack", VerifGenBindStack) }

type vRec struct {
	h    http.Header
	code int
}

func (r *vRec) Header() http.Header         { return r.h }
func (r *vRec) Write(b []byte) (int, error) { return len(b), nil }
func (r *vRec) WriteHeader(c int)           { r.code = c }

func vAlnum(s string) bool {
	ok := true
	for i := 0; i < len(s); i++ {
		c := s[i]
		ok = vAnd(ok, vOr(vOr(vAnd(c >= 'a', c <= 'z'), vAnd(c >= 'A', c <= 'Z')), vAnd(c >= '0', c <= '9')))
	}
	return ok
}

// reference reading of a decimal integer without sign
func vDigits(s string) (int64, bool) {
	if len(s) == 0 {
		return 0, false
	}
	var v int64
	for i := 0; i < len(s); i++ {
		c := s[i]
		if c < '0' || c > '9' {
			return 0, false
		}
		v = v*10 + int64(c-'0')
	}
	return v, true
}

func VerifGenBindStack() {
	// one group of parameters is symbolic at a time (the others hold fixed valid values): the
	// groups are bound independently, so their product adds paths but no behaviour
	focus := vChoice("focus", 3)
	id, q, hasQ := "1", "ab", true
	n, hasN := "", false
	mode, hasMode := "", false
	ntags, t0, t1 := 0, "x", "y"
	switch focus {
	case 0:
		id = vBytes("path.id", 2)
		q = vBytes("query.q", 3)
		hasQ = vBool2("query.q.present")
		vAssume(vAnd(vAnd(vAlnum(id), len(id) > 0), vAlnum(q)))
	case 1:
		n = vBytes("query.n", 2)
		hasN = vBool2("query.n.present")
		mode = vBytes("header.X-Mode", 1)
		hasMode = vBool2("header.X-Mode.present")
		vAssume(vAnd(vAlnum(n), vAlnum(mode)))
	default:
		ntags = vChoice("query.tags", 3)
		t0, t1 = vBytes("tag0", 2), vBytes("tag1", 1)
		vAssume(vAnd(vAnd(vAlnum(t0), len(t0) > 0), vAnd(vAlnum(t1), len(t1) > 0)))
	}

	doc, derr := loads.Embedded(SwaggerJSON, FlatSwaggerJSON)
	vAssert(derr == nil, "the embedded spec cannot be loaded")
	if derr != nil {
		return
	}
	api := operations.NewTAPI(doc)
	api.Logger = func(string, ...interface{}) {}
	called := false
	var got operations.GetItemParams
	api.GetItemHandler = operations.GetItemHandlerFunc(func(p operations.GetItemParams) middleware.Responder {
		called, got = true, p
		return middleware.NotImplemented("x")
	})
	api.Init()
	h := api.Context().RoutesHandler(nil)

	// the values are letters and digits: the query string needs no escaping
	raw := "z=1"
	if hasQ {
		raw += "&q=" + q
	}
	if hasN {
		raw += "&n=" + n
	}
	if ntags == 1 {
		raw += "&tags=" + t0
	}
	if ntags == 2 {
		raw += "&tags=" + t0 + "%7C" + t1
	}
	req := &http.Request{Method: "GET", Header: http.Header{}, URL: &url.URL{Path: "/api/items/" + id, RawQuery: raw}, Host: "h"}
	if hasMode {
		req.Header.Set("X-Mode", mode)
	}
	rec := &vRec{h: http.Header{}}
	h.ServeHTTP(rec, req)
	vCover("served")

	// reference: what the declaration accepts
	idv, idok := vDigits(id)
	valid := vAnd(idok, idv <= 5)
	valid = vAnd(valid, vAnd(hasQ, len(q) >= 2))
	nv, nok := vDigits(n)
	nPresent := vAnd(hasN, len(n) > 0)
	valid = vAnd(valid, vOr(!nPresent, vAnd(nok, nv >= 1)))
	modePresent := vAnd(hasMode, len(mode) > 0)
	valid = vAnd(valid, vOr(!modePresent, vOr(vStrEq(mode, "a"), vStrEq(mode, "b"))))
	vAssert(called == valid, "the handler is reached exactly by requests that satisfy the declared parameters")
	if !called {
		vAssert(rec.code >= 400 && rec.code < 500, "an invalid request is not answered with a 4xx")
		return
	}
	vAssert(int64(got.ID) == idv, "the path parameter handed to the handler is not the one of the request")
	vAssert(got.Q == q, "the required query parameter handed to the handler is not the one of the request")
	if nPresent {
		vAssert(got.N != nil && int64(*got.N) == nv, "the optional query parameter handed to the handler is not the one of the request")
	} else {
		vAssert(got.N != nil && *got.N == 3, "an absent optional parameter does not hold the default of the spec")
	}
	if modePresent {
		vAssert(got.XMode != nil && *got.XMode == mode, "the header parameter handed to the handler is not the one of the request")
	} else {
		vAssert(got.XMode == nil, "an absent header parameter holds a value")
	}
	// absent parameters of formats backed by Go types of their own hold the default of the spec
	vAssert(got.Wait != nil && time.Duration(*got.Wait) == 90*time.Minute, "an absent duration parameter does not hold the default of the spec")
	vAssert(got.Blob != nil && string(*got.Blob) == "ab", "an absent byte parameter does not hold the default of the spec")
	vAssert(got.Day != nil && time.Time(*got.Day).Equal(time.Date(2021, 3, 14, 0, 0, 0, 0, time.UTC)), "an absent date parameter does not hold the default of the spec")
	vAssert(len(got.Tags) == ntags, "the array parameter has another number of items than the request")
	if ntags > 0 && len(got.Tags) > 0 {
		vAssert(got.Tags[0] == t0, "an item of the array parameter is not the one of the request")
	}
	if ntags > 1 && len(got.Tags) > 1 {
		vAssert(got.Tags[1] == t1, "an item of the array parameter is not the one of the request")
	}
}
