//go:build verif

package operations

import (
	"net/http"
	"net/url"
	"time"

	"github.com/go-openapi/runtime"
)

// vCapture is a runtime.ClientRequest that only remembers what the generated client wrote
type vCapture struct {
	query, header, form map[string][]string
	path                map[string]string
	body                interface{}
}

func vNewCapture() *vCapture {
	return &vCapture{query: map[string][]string{}, header: map[string][]string{}, form: map[string][]string{}, path: map[string]string{}}
}

func (c *vCapture) SetHeaderParam(n string, v ...string) error { c.header[n] = v; return nil }
func (c *vCapture) GetHeaderParams() http.Header               { return nil }
func (c *vCapture) SetQueryParam(n string, v ...string) error  { c.query[n] = v; return nil }
func (c *vCapture) SetFormParam(n string, v ...string) error   { c.form[n] = v; return nil }
func (c *vCapture) SetPathParam(n string, v string) error      { c.path[n] = v; return nil }
func (c *vCapture) GetQueryParams() url.Values                 { return nil }
func (c *vCapture) SetFileParam(string, ...runtime.NamedReadCloser) error {
	return nil
}
func (c *vCapture) SetBodyParam(b interface{}) error { c.body = b; return nil }
func (c *vCapture) SetTimeout(time.Duration) error   { return nil }
func (c *vCapture) GetMethod() string                { return "" }
func (c *vCapture) GetPath() string                  { return "" }
func (c *vCapture) GetBody() []byte                  { return nil }
func (c *vCapture) GetBodyParam() interface{}        { return nil }
func (c *vCapture) GetFileParam() map[string][]runtime.NamedReadCloser { return nil }

// what the server's BindRequest would extract for parameter n: the raw values and whether the key is there
func (c *vCapture) get(kind, n string) ([]string, bool) {
	switch kind {
	case "query":
		v, ok := c.query[n]
		return v, ok
	case "header":
		v, ok := c.header[n]
		return v, ok
	case "form":
		v, ok := c.form[n]
		return v, ok
	default:
		v, ok := c.path[n]
		if !ok {
			return nil, false
		}
		return []string{v}, true
	}
}
