//go:build verif

package operations

// C03/C04 (bodies) on GENERATED code: the generated client hands a body to the transport, the
// JSON producer/consumer of go-openapi/runtime (interpreted; encoding/json is the engine's
// text-level model) carry it, the generated server's BindRequest decodes and validates it.

import (
	"bytes"
	"io"
	"net/http"

	"github.com/go-openapi/runtime"
	"github.com/go-openapi/runtime/middleware"

	cops "verifgen/client/operations"
	"verifgen/models"
)

func init() {
	vRegister("VerifGenBodyObject", VerifGenBodyObject)
	vRegister("VerifGenBodyArray", VerifGenBodyArray)
	vRegister("VerifGenBodyMap", VerifGenBodyMap)
}

func vAlnum(s string) bool {
	ok := true
	for i := 0; i < len(s); i++ {
		c := s[i]
		ok = vAnd(ok, vOr(vOr(vAnd(c >= 'a', c <= 'z'), vAnd(c >= 'A', c <= 'Z')), vAnd(c >= '0', c <= '9')))
	}
	return ok
}

// what the client transport does with a body: produce JSON; what the server runtime does: hand
// the bytes to BindRequest with the JSON consumer
func vCarry(body interface{}) (*http.Request, *middleware.MatchedRoute, error) {
	var buf bytes.Buffer
	if body != nil {
		if err := runtime.JSONProducer().Produce(&buf, body); err != nil {
			return nil, nil, err
		}
	}
	hr := &http.Request{Method: "POST", Header: http.Header{}}
	hr.ContentLength = int64(buf.Len())
	hr.Body = io.NopCloser(&buf)
	route := &middleware.MatchedRoute{}
	route.Consumer = runtime.JSONConsumer()
	return hr, route, nil
}

func vMakeThing(tag string) (*models.Thing, bool) {
	name := vBytes(tag+".name", 2)
	vAssume(vAlnum(name))
	th := &models.Thing{Name: &name}
	th.Count = []int32{0, 7, 8}[vChoice(tag+".count", 3)]
	th.Flag = vBool(tag + ".flag")
	n := vChoice(tag+".tags", 3)
	t0, t1 := vBytes(tag+".tag0", 1), vBytes(tag+".tag1", 1)
	vAssume(vAnd(vAlnum(t0), vAlnum(t1)))
	if n > 0 {
		th.Tags = []string{t0}
	}
	if n > 1 {
		th.Tags = append(th.Tags, t1)
	}
	valid := vAnd(len(name) >= 1, th.Count <= 7)
	if n > 1 {
		valid = vAnd(valid, !vStrEq(t0, t1))
	}
	return th, valid
}

// fewer degrees of freedom, for bodies holding several objects
func vMakeThingLite(tag string) (*models.Thing, bool) {
	name := vBytes(tag+".name", 1)
	vAssume(vAlnum(name))
	th := &models.Thing{Name: &name}
	th.Count = []int32{7, 8}[vChoice(tag+".count", 2)]
	return th, vAnd(len(name) >= 1, th.Count <= 7)
}

func vSameThing(a, b *models.Thing) bool {
	if a == nil || b == nil {
		return a == nil && b == nil
	}
	ok := vAnd(a.Name != nil && b.Name != nil, true)
	if a.Name != nil && b.Name != nil {
		ok = vAnd(ok, *a.Name == *b.Name)
	}
	ok = vAnd(ok, vAnd(a.Count == b.Count, a.Flag == b.Flag))
	ok = vAnd(ok, len(a.Tags) == len(b.Tags))
	for i := 0; i < len(a.Tags) && i < len(b.Tags); i++ {
		ok = vAnd(ok, a.Tags[i] == b.Tags[i])
	}
	return ok
}

// an object body: accepted exactly when it satisfies the schema, and then equal to what the client was given
func VerifGenBodyObject() {
	th, valid := vMakeThing("thing")
	cp := cops.NewOpAParams()
	cp.Body = th
	req := vNewCapture()
	vAssert(cp.WriteToRequest(req, nil) == nil, "the client fails to write a body")
	hr, route, err := vCarry(req.body)
	vAssert(err == nil, "the body cannot be produced")
	if err != nil {
		return
	}
	o := NewOpAParams()
	berr := o.BindRequest(hr, route)
	vCover("body")
	vAssert(vImplies(berr == nil, valid), "the server accepts a body the schema rejects")
	vAssert(vImplies(valid, berr == nil), "the server rejects a body the schema accepts")
	if berr == nil {
		vAssert(vSameThing(th, o.Body), "the handler does not get the body the client was given")
	}
}

// an optional array body
func VerifGenBodyArray() {
	n := vChoice("items", 4)
	e0, e1, e2 := vBytes("e0", 1), vBytes("e1", 1), vBytes("e2", 1)
	vAssume(vAnd(vAlnum(e0), vAnd(vAlnum(e1), vAlnum(e2))))
	all := []string{e0, e1, e2}
	var items []string
	for i := 0; i < n; i++ {
		items = append(items, all[i])
	}
	cp := cops.NewOpBParams()
	cp.Body = items
	req := vNewCapture()
	vAssert(cp.WriteToRequest(req, nil) == nil, "the client fails to write a body")
	hr, route, err := vCarry(req.body)
	if err != nil {
		return
	}
	o := NewOpBParams()
	berr := o.BindRequest(hr, route)
	vCover("body")
	valid := n <= 2
	for i := 0; i < n; i++ {
		valid = vAnd(valid, len(all[i]) >= 1)
	}
	vAssert(vImplies(berr == nil, valid), "the server accepts an array body the schema rejects")
	vAssert(vImplies(valid, berr == nil), "the server rejects an array body the schema accepts")
	if berr == nil && n > 0 {
		vAssert(len(o.Body) == n, "the handler gets an array body of another length")
		for i := 0; i < n && i < len(o.Body); i++ {
			vAssert(o.Body[i] == all[i], "an item of the array body reaches the handler changed")
		}
	}
}

// a map body whose values are objects
func VerifGenBodyMap() {
	n := vChoice("members", 3)
	a, validA := vMakeThingLite("a")
	b, validB := vMakeThingLite("b")
	body := map[string]models.Thing{}
	if n > 0 {
		body["x"] = *a
	}
	if n > 1 {
		body["y"] = *b
	}
	cp := cops.NewOpCParams()
	cp.Body = body
	req := vNewCapture()
	vAssert(cp.WriteToRequest(req, nil) == nil, "the client fails to write a body")
	hr, route, err := vCarry(req.body)
	if err != nil {
		return
	}
	o := NewOpCParams()
	berr := o.BindRequest(hr, route)
	vCover("body")
	valid := true
	if n > 0 {
		valid = vAnd(valid, validA)
	}
	if n > 1 {
		valid = vAnd(valid, validB)
	}
	vAssert(vImplies(berr == nil, valid), "the server accepts a map body the schema rejects")
	vAssert(vImplies(valid, berr == nil), "the server rejects a map body the schema accepts")
	if berr == nil {
		vAssert(len(o.Body) == n, "the handler gets a map body with another number of members")
		if n > 0 {
			got, has := o.Body["x"]
			vAssert(has && vSameThing(a, &got), "a member of the map body reaches the handler changed")
		}
		if n > 1 {
			got, has := o.Body["y"]
			vAssert(has && vSameThing(b, &got), "a member of the map body reaches the handler changed")
		}
	}
}
