//go:build verif

package operations

// C04 (responses) on GENERATED code: the generated client's response readers against what the
// generated server's responders write. The HTTP transport is cut out: a fake
// runtime.ClientResponse carries the status code (symbolic) and the header values.

import (
	"io"
	"net/http"
	"strings"

	"github.com/go-openapi/runtime"

	sops "verifgen/restapi/operations"
)

func init() {
	vRegister("VerifGenResponseDispatch", VerifGenResponseDispatch)
	vRegister("VerifGenResponseHeaders", VerifGenResponseHeaders)
}

type vFakeResponse struct {
	code    int
	headers http.Header
}

func (r *vFakeResponse) Code() int      { return r.code }
func (r *vFakeResponse) Message() string { return "status" }
func (r *vFakeResponse) GetHeader(n string) string {
	v := r.headers[http.CanonicalHeaderKey(n)]
	if len(v) == 0 {
		return ""
	}
	return v[0]
}
func (r *vFakeResponse) GetHeaders(n string) []string { return r.headers[http.CanonicalHeaderKey(n)] }
func (r *vFakeResponse) Body() io.ReadCloser           { return io.NopCloser(strings.NewReader("")) }

var vNoBody = runtime.ConsumerFunc(func(io.Reader, interface{}) error { return nil })

// for every status code a server may answer with: declared success codes come back as the typed
// result, declared error codes and the default as the typed error (2xx through the default: as a
// result), undeclared codes without a default as a generic API error carrying that code
func VerifGenResponseDispatch() {
	code := vInt("status", 100, 599)
	resp := &vFakeResponse{code: code, headers: http.Header{}}
	switch vChoice("operation", 3) {
	case 0:
		res, err := (&OpAReader{}).ReadResponse(resp, vNoBody)
		vCover("dispatched")
		switch {
		case code == 200:
			_, ok := res.(*OpAOK)
			vAssert(ok && err == nil, "a declared 200 is not returned as its typed result")
		case code == 204:
			_, ok := res.(*OpANoContent)
			vAssert(ok && err == nil, "a declared 204 is not returned as its typed result")
		case code == 299:
			vAssert(res != nil && err == nil, "a declared, unregistered 2xx code is not returned as a result")
		case code == 404:
			_, ok := err.(*OpANotFound)
			vAssert(ok && res == nil, "a declared 404 is not returned as its typed error")
		default:
			if code/100 == 2 {
				d, ok := res.(*OpADefault)
				vAssert(ok && err == nil && d.Code() == code, "an undeclared 2xx answered through the default response is not returned as a result carrying its code")
			} else {
				d, ok := err.(*OpADefault)
				vAssert(ok && res == nil && d.Code() == code, "a code answered through the default response is not returned as the typed default error carrying that code")
			}
		}
	case 1:
		res, err := (&OpBReader{}).ReadResponse(resp, vNoBody)
		vCover("dispatched")
		switch {
		case code == 201:
			_, ok := res.(*OpBCreated)
			vAssert(ok && err == nil, "a declared 201 is not returned as its typed result")
		case code == 422:
			_, ok := err.(*OpBUnprocessableEntity)
			vAssert(ok && res == nil, "a declared 422 is not returned as its typed error")
		default:
			ae, ok := err.(*runtime.APIError)
			vAssert(ok && res == nil && ae.Code == code, "an undeclared code is not returned as a generic API error carrying that code")
		}
	default:
		res, err := (&OpCReader{}).ReadResponse(resp, vNoBody)
		vCover("dispatched")
		if code/100 == 2 {
			d, ok := res.(*OpCDefault)
			vAssert(ok && err == nil && d.Code() == code, "a 2xx answered through a default-only operation is not a result carrying its code")
		} else {
			d, ok := err.(*OpCDefault)
			vAssert(ok && res == nil && d.Code() == code, "a non-2xx answered through a default-only operation is not the typed error carrying its code")
		}
	}
}

type vRecorder struct {
	h    http.Header
	code int
}

func (r *vRecorder) Header() http.Header         { return r.h }
func (r *vRecorder) Write(b []byte) (int, error) { return len(b), nil }
func (r *vRecorder) WriteHeader(c int)           { r.code = c }

var vNoProducer = runtime.ProducerFunc(func(io.Writer, interface{}) error { return nil })

// the header values a handler puts into a typed response come back equal in the client's typed result
func VerifGenResponseHeaders() {
	rate := []int32{0, 1, -7, 2147483647}[vChoice("X-Rate", 4)]
	name := vBytes("X-Name", 3)
	flag := vBool("X-Flag")
	n := vInt("X-Tags.n", 0, 2)
	t0, t1 := vBytes("X-Tags.0", 2), vBytes("X-Tags.1", 2)
	vAssume(vAnd(len(t0) > 0, len(t1) > 0))
	vAssume(vAnd(vNoBlankOrPipe(t0), vNoBlankOrPipe(t1)))
	var tags []string
	if n > 0 {
		tags = append(tags, t0)
	}
	if n > 1 {
		tags = append(tags, t1)
	}
	// headers that declare a default: the zero value is a value like any other
	remaining := []int32{0, 100, 5}[vChoice("X-Remaining", 3)]
	cache := vBool("X-Cache")
	ratio := []float64{0, 0.5, 2}[vChoice("X-Ratio", 3)]
	srv := sops.NewOpAOK().WithXRate(rate).WithXName(name).WithXFlag(flag).WithXTags(tags).WithXRemaining(remaining).WithXCache(cache).WithXRatio(ratio)
	rec := &vRecorder{h: http.Header{}}
	srv.WriteResponse(rec, vNoProducer)
	vAssert(rec.code == 200, "the responder of the 200 response writes another status")
	resp := &vFakeResponse{code: rec.code, headers: rec.h}
	res, err := (&OpAReader{}).ReadResponse(resp, vNoBody)
	vCover("headers")
	ok, isOK := res.(*OpAOK)
	vAssert(isOK && err == nil, "the client cannot read what the server's responder wrote")
	if !isOK || err != nil {
		return
	}
	vAssert(ok.XRate == rate, "an integer header does not come back with the value the handler set")
	vAssert(ok.XName == name, "a string header does not come back with the value the handler set")
	vAssert(ok.XFlag == flag, "a boolean header does not come back with the value the handler set")
	vAssert(ok.XRemaining == remaining, "an integer header with a default does not come back with the value the handler set")
	vAssert(ok.XCache == cache, "a boolean header with a default does not come back with the value the handler set")
	vAssert(ok.XRatio == ratio, "a number header with a default does not come back with the value the handler set")
	vAssert(len(ok.XTags) == n, "an array header comes back with a different number of items")
	if n > 0 && len(ok.XTags) > 0 {
		vAssert(ok.XTags[0] == t0, "an item of an array header comes back changed")
	}
	if n > 1 && len(ok.XTags) > 1 {
		vAssert(ok.XTags[1] == t1, "an item of an array header comes back changed")
	}
}

func vNoBlankOrPipe(s string) bool {
	ok := true
	for i := 0; i < len(s); i++ {
		for _, c := range []byte("| \t\n\r\v\f,") {
			ok = vAnd(ok, s[i] != c)
		}
	}
	return ok
}
