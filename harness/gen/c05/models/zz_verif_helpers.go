//go:build verif

package models

// every byte is a letter or a digit (bytes JSON writes verbatim)
func vAlnum(s string) bool {
	ok := true
	for i := 0; i < len(s); i++ {
		c := s[i]
		ok = vAnd(ok, vOr(vOr(vAnd(c >= 'a', c <= 'z'), vAnd(c >= 'A', c <= 'Z')), vAnd(c >= '0', c <= '9')))
	}
	return ok
}
