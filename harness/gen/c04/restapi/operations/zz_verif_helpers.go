//go:build verif

package operations

import (
	"errors"
	"reflect"
	"strconv"
	"strings"

	"github.com/go-openapi/strfmt"
	"github.com/mitchellh/mapstructure"
)

// vCheckVerdict: the generated binder and the reference semantics must agree
func vCheckVerdict(accepted, ref bool, name string) {
	vAssert(vImplies(accepted, ref), name+": the generated binder accepts a request value the parameter declaration rejects")
	vAssert(vImplies(ref, accepted), name+": the generated binder rejects a request value the parameter declaration accepts")
}

func vHasPrefixRef(s, lit string) bool { return strings.HasPrefix(s, lit) }

func vSame[T comparable](a, b T) bool { return a == b }

// no byte of s is one of chars
func vNoneOf(s, chars string) bool {
	ok := true
	for i := 0; i < len(s); i++ {
		for j := 0; j < len(chars); j++ {
			ok = vAnd(ok, s[i] != chars[j])
		}
	}
	return ok
}

// reference reading of a decimal integer: [+-]?digits+ (no sign for unsigned types)
func vParseIntRef(s string, unsigned bool) (int64, bool) {
	i, neg := 0, false
	if len(s) > 0 && !unsigned {
		if s[0] == '-' {
			neg, i = true, 1
		} else if s[0] == '+' {
			i = 1
		}
	}
	if i >= len(s) {
		return 0, false
	}
	var v int64
	for ; i < len(s); i++ {
		c := s[i]
		if c < '0' || c > '9' {
			return 0, false
		}
		v = v*10 + int64(c-'0')
	}
	if neg {
		v = -v
	}
	return v, true
}

// reference reading of a boolean: the words swag.ConvertBool documents as true, in any case
func vTruthyRef(s string) bool {
	r := false
	for _, w := range []string{"true", "1", "yes", "ok", "y", "on", "selected", "checked", "t", "enabled"} {
		r = vOr(r, strings.EqualFold(s, w))
	}
	return r
}

// vFloatText: the raw text of a number. Symbolically float parsing is a stub answering with the
// arbitrary float f (or a syntax error); natively the text is the formatting of f (or garbage)
func vFloatText(conv string, f float64, ok bool) string {
	is32 := strings.HasSuffix(conv, "32")
	if vSymbolic() {
		var e error
		if !ok {
			e = errors.New("invalid syntax")
			f = 0
		}
		if is32 {
			vStubReturn(conv, float32(f), e)
		} else {
			vStubReturn(conv, f, e)
		}
		return "1"
	}
	if !ok {
		return "x"
	}
	if is32 {
		return strconv.FormatFloat(float64(float32(f)), 'g', -1, 32)
	}
	return strconv.FormatFloat(f, 'g', -1, 64)
}

// vFormats is the format registry handed to the binders: whether a text parses as / is a
// well-formed value of a named format are oracle bits of the run
type vFormats struct{ parses, valid bool }

func (f vFormats) Add(string, strfmt.Format, strfmt.Validator) bool { return false }
func (f vFormats) DelByName(string) bool                            { return false }
func (f vFormats) GetType(string) (reflect.Type, bool)              { return nil, false }
func (f vFormats) ContainsName(string) bool                         { return true }
func (f vFormats) Validates(name, data string) bool                 { return f.valid }
func (f vFormats) Parse(name, data string) (interface{}, error) {
	if !f.parses {
		return nil, errors.New("does not parse")
	}
	switch name {
	case "uuid":
		v := strfmt.UUID(data)
		return &v, nil
	case "email":
		v := strfmt.Email(data)
		return &v, nil
	case "hostname":
		v := strfmt.Hostname(data)
		return &v, nil
	}
	return nil, errors.New("unknown format")
}
func (f vFormats) MapStructureHookFunc() mapstructure.DecodeHookFunc { return nil }
