//go:build verif

package models

// C05 on a GENERATED composed type with properties declared next to allOf (renamed with x-go-name)
// and on named aliases of formatted types (duration, date, uuid, byte), which need their own
// (un)marshalling methods because a redeclared Go type does not inherit them.

import (
	"encoding/json"
	"time"

	"github.com/go-openapi/strfmt"
)

func init() {
	vRegister("VerifGenAllOfSiblings", VerifGenAllOfSiblings)
	vRegister("VerifGenFormatAlias", VerifGenFormatAlias)
}

func VerifGenAllOfSiblings() {
	label, alias, kind := vBytes("label", 2), vBytes("alias", 2), vBytes("kind", 2)
	vAssume(vAnd(vAlnum(label), vAnd(vAlnum(alias), vAlnum(kind))))
	b := Badge{}
	b.Label = label
	b.Alias = alias
	b.Kind = &kind
	b.Weight = []int32{0, 7}[vChoice("weight", 2)]
	txt, err := json.Marshal(b)
	vAssert(err == nil, "a composed type cannot be encoded")
	if err != nil {
		return
	}
	var back Badge
	err = json.Unmarshal(txt, &back)
	vCover("allof-siblings")
	vAssert(err == nil, "a composed type cannot decode what it encoded")
	if err != nil {
		return
	}
	vAssert(back.Label == label, "a property of an allOf member is not restored")
	vAssert(back.Alias == alias, "a renamed property declared next to allOf is not restored")
	vAssert(back.Kind != nil && *back.Kind == kind, "a required renamed property declared next to allOf is not restored")
	vAssert(back.Weight == b.Weight, "a number declared next to allOf is not restored")
	txt2, err := json.Marshal(back)
	vAssert(err == nil && string(txt) == string(txt2), "encoding the re-decoded composed type does not reproduce the text")

	// a document written by hand with the JSON keys of the schema
	doc := `{"label":"` + label + `","nick-name":"` + alias + `","@kind":"` + kind + `","weight":7}`
	var hand Badge
	err = json.Unmarshal([]byte(doc), &hand)
	vAssert(err == nil, "a document with the schema's keys is refused by a composed type")
	if err != nil {
		return
	}
	vAssert(hand.Label == label && hand.Alias == alias && hand.Kind != nil && *hand.Kind == kind && hand.Weight == 7,
		"a composed type does not read the schema's keys")
}

func VerifGenFormatAlias() {
	durs := []time.Duration{0, 90 * time.Minute, 1500 * time.Millisecond}
	// one draw decides the three durations: (limit, grace, inline) rotate through the values
	k := vChoice("durations", 3)
	lim := Timeout(durs[k])
	t := Timing{Limit: &lim}
	t.Grace = Timeout(durs[(k+1)%3])
	t.Inline = strfmt.Duration(durs[(k+2)%3])
	withDay := vBool2("day")
	if withDay {
		t.Day = Day(strfmt.Date(time.Date(2021, 3, 14, 0, 0, 0, 0, time.UTC)))
	}
	id := vBytes("ident", 2)
	vAssume(vAlnum(id))
	t.Ident = Ident(id)
	blob := []string{"", "a", "\x00\xffz"}[vChoice("blob", 3)]
	t.Blob = Blob(blob)

	txt, err := json.Marshal(t)
	vAssert(err == nil, "an object of formatted aliases cannot be encoded")
	if err != nil {
		return
	}
	var back Timing
	err = json.Unmarshal(txt, &back)
	vCover("format-alias")
	vAssert(err == nil, "an object of formatted aliases cannot decode what it encoded")
	if err != nil {
		return
	}
	vAssert(back.Limit != nil && *back.Limit == lim, "a required duration alias is not restored")
	vAssert(back.Grace == t.Grace, "a duration alias is not restored")
	vAssert(back.Inline == t.Inline, "an inline duration is not restored")
	vAssert(time.Time(back.Day).Equal(time.Time(t.Day)), "a date alias is not restored")
	vAssert(string(back.Ident) == id, "a uuid alias is not restored")
	vAssert(string(back.Blob) == blob, "a byte alias is not restored")

	// the alias alone: the schema says string, so the text is a JSON string
	one, err := json.Marshal(lim)
	vAssert(err == nil && len(one) > 1 && one[0] == '"', "a duration alias is not encoded as a JSON string")
	var lim2 Timeout
	err = json.Unmarshal(one, &lim2)
	vAssert(err == nil && lim2 == lim, "a duration alias does not decode its own text")
	var day2 Day
	err = json.Unmarshal([]byte(`"2021-03-14"`), &day2)
	vAssert(err == nil && time.Time(day2).Equal(time.Date(2021, 3, 14, 0, 0, 0, 0, time.UTC)), "a date alias does not decode a date")
}

func init() { vRegister("VerifGenInlineNestedAllOf", VerifGenInlineNestedAllOf) }

// a property composed in place of an allOf that itself holds an allOf: the generator invents a
// named struct (with its own MarshalJSON / UnmarshalJSON) for the inner composition and embeds it
// in an anonymous struct next to the outer member's fields; every member must survive encoding
func VerifGenInlineNestedAllOf() {
	a := vBytes("a", 2)
	vAssume(vAlnum(a))
	n := Nest{}
	n.Multi.A = a
	n.Multi.B = []int32{0, 5}[vChoice("b", 2)]
	n.Multi.C = vBool("c")
	txt, err := json.Marshal(n)
	vAssert(err == nil, "a nested composition cannot be encoded")
	if err != nil {
		return
	}
	var back Nest
	err = json.Unmarshal(txt, &back)
	vCover("nested-allof")
	vAssert(err == nil, "a nested composition cannot decode what it encoded")
	if err != nil {
		return
	}
	vAssert(back.Multi.A == a && back.Multi.B == n.Multi.B, "a member of the inner composition is not restored")
	if vKnown("C05-G15", n.Multi.C && !back.Multi.C) {
		return
	}
	vAssert(back.Multi.C == n.Multi.C, "a member declared next to an inner composition is lost on encoding")
}

func init() { vRegister("VerifGenAbsentFormatted", VerifGenAbsentFormatted) }

// a document that leaves optional formatted members out: decoding and encoding may drop zero
// values but must not add members the document did not have
func VerifGenAbsentFormatted() {
	name := vBytes("name", 2)
	vAssume(vAlnum(name))
	withSpan := vBool2("span")
	// the required date holds the zero value of its type: it is never omitted
	doc := `{"name":"` + name + `","since":"0001-01-01"}`
	if withSpan {
		doc = `{"name":"` + name + `","since":"0001-01-01","span":"1h30m0s"}`
	}
	var s Stamp
	err := json.Unmarshal([]byte(doc), &s)
	vAssert(err == nil, "a document without its optional formatted members is refused")
	if err != nil {
		return
	}
	txt, err := json.Marshal(s)
	vCover("absent-formatted")
	vAssert(err == nil, "a decoded document cannot be encoded")
	if err != nil {
		return
	}
	var generic map[string]json.RawMessage
	err = json.Unmarshal(txt, &generic)
	vAssert(err == nil, "the encoded text is not an object")
	if err != nil {
		return
	}
	_, hasName := generic["name"]
	vAssert(hasName, "a required member is not written")
	since, hasSince := generic["since"]
	vAssert(hasSince && string(since) == `"0001-01-01"`, "a required date holding the zero value is omitted or changed")
	_, hasSpan := generic["span"]
	vAssert(hasSpan == withSpan, "an optional duration is added or lost")
	_, hasMail := generic["mail"]
	_, hasCount := generic["count"]
	vAssert(!hasMail && !hasCount, "an absent optional string or integer member is added on encoding")
	_, hasBorn := generic["born"]
	_, hasAt := generic["at"]
	_, hasOid := generic["oid"]
	if vKnown("C05-G16", hasBorn || hasAt || hasOid) {
		return
	}
	vAssert(!hasBorn && !hasAt && !hasOid, "a member the document did not have is added on encoding")
}
