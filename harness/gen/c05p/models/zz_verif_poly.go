//go:build verif

package models

// C05 on GENERATED polymorphic types and tuples (text-level model of encoding/json in the engine,
// the real package natively): what is encoded decodes back - through the base type - into the
// same concrete subtype with the same values, and tuples keep every position.

import (
	"bytes"
	"encoding/json"

	"github.com/go-openapi/runtime"
)

func init() {
	vRegister("VerifGenPolymorphic", VerifGenPolymorphic)
	vRegister("VerifGenTuple", VerifGenTuple)
}

func vAlnum(s string) bool {
	ok := true
	for i := 0; i < len(s); i++ {
		c := s[i]
		ok = vAnd(ok, vOr(vOr(vAnd(c >= 'a', c <= 'z'), vAnd(c >= 'A', c <= 'Z')), vAnd(c >= '0', c <= '9')))
	}
	return ok
}

func vMakePet(tag string) (Pet, int) {
	name := vBytes(tag+".name", 2)
	vAssume(vAlnum(name))
	kind := vChoice(tag+".subtype", 2)
	if kind == 0 {
		c := &Cat{}
		c.SetName(&name)
		c.Lives = []int32{0, 9}[vChoice(tag+".lives", 2)]
		return c, 0
	}
	d := &Dog{}
	d.SetName(&name)
	b := vBool(tag + ".barks")
	d.Barks = &b
	return d, 1
}

func vSamePet(a, b Pet) bool {
	if a == nil || b == nil {
		return a == nil && b == nil
	}
	ok := a.PetType() == b.PetType()
	if a.Name() == nil || b.Name() == nil {
		ok = vAnd(ok, a.Name() == nil && b.Name() == nil)
	} else {
		ok = vAnd(ok, *a.Name() == *b.Name())
	}
	switch x := a.(type) {
	case *Cat:
		y, isCat := b.(*Cat)
		if !isCat {
			return false
		}
		ok = vAnd(ok, x.Lives == y.Lives)
	case *Dog:
		y, isDog := b.(*Dog)
		if !isDog {
			return false
		}
		if x.Barks == nil || y.Barks == nil {
			ok = vAnd(ok, x.Barks == nil && y.Barks == nil)
		} else {
			ok = vAnd(ok, *x.Barks == *y.Barks)
		}
	default:
		return false
	}
	return ok
}

// a subtype written directly, read back through the base type; and inside a container, as a
// single member and as array elements
func VerifGenPolymorphic() {
	p, kind := vMakePet("pet")
	txt, err := json.Marshal(p)
	vAssert(err == nil, "a subtype cannot be encoded")
	if err != nil {
		return
	}
	back, err := UnmarshalPet(bytes.NewBuffer(txt), runtime.JSONConsumer())
	vCover("polymorphic")
	vAssert(err == nil, "what a subtype encodes cannot be decoded through the base type")
	if err != nil {
		return
	}
	want := "Cat"
	if kind == 1 {
		want = "canine"
	}
	vAssert(back.PetType() == want, "the discriminator value is not kept")
	vAssert(vSamePet(p, back), "decoding through the base type does not restore the concrete subtype with its values")

	// inside a container
	z := &Zoo{}
	withStar := vBool2("zoo.star")
	n := vChoice("zoo.animals", 3)
	if withStar {
		z.SetStar(p)
	}
	var q Pet
	if n > 0 {
		animals := []Pet{p}
		if n > 1 {
			q, _ = vMakePet("second")
			animals = append(animals, q)
		}
		z.SetAnimals(animals)
	}
	ztxt, err := json.Marshal(z)
	vAssert(err == nil, "a container of polymorphic values cannot be encoded")
	if err != nil {
		return
	}
	var z2 Zoo
	err = json.Unmarshal(ztxt, &z2)
	vAssert(err == nil, "a container of polymorphic values cannot decode what it encoded")
	if err != nil {
		return
	}
	if withStar {
		vAssert(vSamePet(p, z2.Star()), "a polymorphic member is not restored")
	} else {
		vAssert(z2.Star() == nil, "an absent polymorphic member comes back as a value")
	}
	vAssert(len(z2.Animals()) == n, "an array of polymorphic values comes back with another length")
	if n > 0 && len(z2.Animals()) > 0 {
		vAssert(vSamePet(p, z2.Animals()[0]), "an element of an array of polymorphic values is not restored")
	}
	if n > 1 && len(z2.Animals()) > 1 {
		vAssert(vSamePet(q, z2.Animals()[1]), "an element of an array of polymorphic values is not restored")
	}
	ztxt2, err := json.Marshal(z2)
	vAssert(err == nil && string(ztxt) == string(ztxt2), "encoding the re-decoded container does not reproduce the text")
}

// tuples: every position keeps its value, for a short and a 12-position tuple
func VerifGenTuple() {
	s0 := vBytes("p0", 2)
	vAssume(vAlnum(s0))
	i1 := []int32{0, -4}[vChoice("p1", 2)]
	b2 := vBool("p2")
	r := Row{P0: &s0, P1: &i1, P2: &b2}
	txt, err := json.Marshal(r)
	vAssert(err == nil, "a tuple cannot be encoded")
	if err != nil {
		return
	}
	var r2 Row
	err = json.Unmarshal(txt, &r2)
	vCover("tuple")
	vAssert(err == nil, "a tuple cannot decode what it encoded")
	if err != nil {
		return
	}
	vAssert(r2.P0 != nil && *r2.P0 == s0, "tuple position 0 is not restored")
	vAssert(r2.P1 != nil && *r2.P1 == i1, "tuple position 1 is not restored")
	vAssert(r2.P2 != nil && *r2.P2 == b2, "tuple position 2 is not restored")

	sa, sb := vBytes("w.a", 1), vBytes("w.b", 1)
	vAssume(vAnd(vAlnum(sa), vAlnum(sb)))
	vAssume(vAnd(len(sa) > 0, len(sb) > 0))
	vAssume(!vStrEq(sa, sb))
	ns := []int32{1, 3, 5, 7, 9, 11}
	w := Wide{P0: &sa, P1: &ns[0], P2: &sb, P3: &ns[1], P4: &sa, P5: &ns[2], P6: &sb, P7: &ns[3], P8: &sa, P9: &ns[4], P10: &sb, P11: &ns[5]}
	wtxt, err := json.Marshal(w)
	vAssert(err == nil, "a wide tuple cannot be encoded")
	if err != nil {
		return
	}
	q := func(t string) string { return "\"" + t + "\"" }
	vAssert(string(wtxt) == "["+q(sa)+",1,"+q(sb)+",3,"+q(sa)+",5,"+q(sb)+",7,"+q(sa)+",9,"+q(sb)+",11]",
		"the positions of the encoded tuple are not those of the schema's item list")
	var w2 Wide
	err = json.Unmarshal(wtxt, &w2)
	vAssert(err == nil, "a wide tuple cannot decode what it encoded")
	if err != nil {
		return
	}
	strs := []*string{w2.P0, w2.P2, w2.P4, w2.P6, w2.P8, w2.P10}
	ints := []*int32{w2.P1, w2.P3, w2.P5, w2.P7, w2.P9, w2.P11}
	for i := 0; i < 6; i++ {
		wantS := sa
		if i%2 == 1 {
			wantS = sb
		}
		vAssert(strs[i] != nil && *strs[i] == wantS, "a text position of a wide tuple is not restored")
		vAssert(ints[i] != nil && *ints[i] == ns[i], "a number position of a wide tuple is not restored")
	}
	wtxt2, err := json.Marshal(w2)
	vAssert(err == nil && string(wtxt) == string(wtxt2), "encoding the re-decoded tuple does not reproduce the text")
}
