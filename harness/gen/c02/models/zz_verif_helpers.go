//go:build verif

package models

import (
	"reflect"
	"strings"

	"github.com/go-openapi/strfmt"
	"github.com/mitchellh/mapstructure"
)

// vCheckVerdict: the generated validator and the reference semantics must agree
func vCheckVerdict(accepted, ref bool, name string) {
	vAssert(vImplies(accepted, ref), name+": the generated Validate accepts a document the schema rejects")
	vAssert(vImplies(ref, accepted), name+": the generated Validate rejects a document the schema accepts")
}

// reference for the pattern ^lit
func vHasPrefixRef(s, lit string) bool { return strings.HasPrefix(s, lit) }

func vSame[T comparable](a, b T) bool { return a == b }

// vFormats is the format registry handed to Validate: whether a text is well-formed for a named
// format is an oracle bit of the run (the strfmt validators themselves are not the subject)
type vFormats struct{ ok bool }

func (f vFormats) Add(string, strfmt.Format, strfmt.Validator) bool { return false }
func (f vFormats) DelByName(string) bool                            { return false }
func (f vFormats) GetType(string) (reflect.Type, bool)              { return nil, false }
func (f vFormats) ContainsName(string) bool                         { return true }
func (f vFormats) Validates(name, data string) bool                 { return f.ok }
func (f vFormats) Parse(string, string) (interface{}, error)        { return nil, nil }
func (f vFormats) MapStructureHookFunc() mapstructure.DecodeHookFunc { return nil }
