//go:build verif

package models

import "strings"

// vCheckVerdict: the generated validator and the reference semantics must agree
func vCheckVerdict(accepted, ref bool, name string) {
	vAssert(vImplies(accepted, ref), name+": the generated Validate accepts a document the schema rejects")
	vAssert(vImplies(ref, accepted), name+": the generated Validate rejects a document the schema accepts")
}

// reference for the pattern ^lit
func vHasPrefixRef(s, lit string) bool { return strings.HasPrefix(s, lit) }

func vSame[T comparable](a, b T) bool { return a == b }
