//go:build verif

package commands

// C15, the file step: "the JSON report can be fed back verbatim as an ignore file". The JSON report
// of a list of differences (real ReportAllDiffs) is written to a file and read back by the real
// readIgnores: every entry comes back field by field, so that it matches the difference it was
// made from and FilterIgnores leaves nothing. Info texts are symbolic (blanks at the edges,
// letter case), codes and locations come from small vocabularies.

import (
	"io"
	"os"
	"path/filepath"

	"github.com/go-swagger/go-swagger/cmd/swagger/commands/diff"
)

func init() { vRegister("VerifC15IgnoreFile", VerifC15IgnoreFile) }

func vInfoText(tag string) string {
	s := vBytes(tag, 2)
	ok := true
	for i := 0; i < len(s); i++ {
		c := s[i]
		ok = vAnd(ok, vOr(vOr(c == ' ', c == 'a'), vOr(c == 'A', c == '-')))
	}
	vAssume(ok)
	return s
}

func VerifC15IgnoreFile() {
	n := 1 + vChoice("entries", 2)
	var ds diff.SpecDifferences
	if n == 2 {
		// a fixed first entry; the drawn one follows
		ds = append(ds, diff.SpecDifference{Code: diff.AddedEndpoint, Compatibility: diff.NonBreaking, DiffInfo: "x",
			DifferenceLocation: diff.DifferenceLocation{URL: "/a", Method: "get"}})
	}
	for i := len(ds); i < n; i++ {
		d := diff.SpecDifference{}
		d.Code = []diff.SpecChangeCode{diff.DeletedEndpoint, diff.ChangedHostURL, diff.AddedRequiredParam, diff.DeletedOptionalParam}[vChoice("code", 4)]
		d.Compatibility = []diff.Compatibility{diff.Breaking, diff.NonBreaking, diff.Warning}[vChoice("compat", 3)]
		d.DiffInfo = vInfoText("info")
		d.DifferenceLocation.URL = []string{"/a", "/b "}[vChoice("url", 2)]
		d.DifferenceLocation.Method = []string{"get", "POST"}[vChoice("method", 2)]
		d.DifferenceLocation.Response = vChoice("response", 2) * 200
		if vBool2("node") {
			d.DifferenceLocation.Node = &diff.Node{Field: "p", TypeName: "string", IsArray: vBool2("node.array")}
			if vBool2("node.child") {
				d.DifferenceLocation.Node.ChildNode = &diff.Node{Field: "q", TypeName: "integer"}
			}
		}
		ds = append(ds, d)
	}
	report, err, _ := ds.ReportAllDiffs(true)
	vAssert(err == nil && report != nil, "the JSON report cannot be written")
	if err != nil || report == nil {
		return
	}
	text, rerr := io.ReadAll(report)
	vAssert(rerr == nil, "the JSON report cannot be read")
	var path string
	if vSymbolic() {
		vFSInit()
		vFSDir("/w")
		path = "/w/ignore.json"
		vFSFile(path, string(text))
	} else {
		dir, derr := os.MkdirTemp("", "verifc15")
		if derr != nil {
			panic(derr)
		}
		defer os.RemoveAll(dir)
		path = filepath.Join(dir, "ignore.json")
		if werr := os.WriteFile(path, text, 0o600); werr != nil {
			panic(werr)
		}
	}
	c := &DiffCommand{IgnoreFile: path}
	back, err := c.readIgnores()
	vCover("read")
	vAssert(err == nil, "the JSON report is refused as an ignore file")
	if err != nil {
		return
	}
	vAssert(len(back) == n, "the ignore file yields another number of entries than the report had")
	if len(back) != n {
		return
	}
	for i := 0; i < n; i++ {
		a, b := ds[i], back[i]
		vAssert(a.DiffInfo == b.DiffInfo, "the info text of an entry read from the ignore file is not the reported one")
		vAssert(a.Code == b.Code && a.Compatibility == b.Compatibility, "code or compatibility of an entry read from the ignore file is not the reported one")
		vAssert(a.DifferenceLocation.URL == b.DifferenceLocation.URL && a.DifferenceLocation.Method == b.DifferenceLocation.Method && a.DifferenceLocation.Response == b.DifferenceLocation.Response,
			"the location of an entry read from the ignore file is not the reported one")
		vAssert(b.Matches(a), "an entry read from the ignore file does not match the difference it was written from")
	}
	vAssert(len(ds.FilterIgnores(back)) == 0, "ignoring every reported difference leaves a non-empty report")
}
