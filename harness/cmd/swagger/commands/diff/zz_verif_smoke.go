//go:build verif

package diff

func init() {
	vRegister("VerifSmokeFloat", VerifSmokeFloat)
	vRegister("VerifSmokeTable", VerifSmokeTable)
}

// engine smoke test: CompareFloatValues mirrors under swap
func VerifSmokeFloat() {
	a, b := vF64("a"), vF64("b")
	an, bn := vBool("anil"), vBool("bnil")
	pa := vMaybeNil(an, &a)
	pb := vMaybeNil(bn, &b)
	d1 := CompareFloatValues("Maximum", pa, pb, WidenedType, NarrowedType)
	d2 := CompareFloatValues("Maximum", pb, pa, WidenedType, NarrowedType)
	vObserve("n1", len(d1))
	vObserve("n2", len(d2))
	vAssert(len(d1) == len(d2), "same count both ways")
	if len(d1) == 1 {
		vCover("one-diff")
		c1, c2 := d1[0].Change, d2[0].Change
		vObserve("c1", int(c1))
		vAssert(vOr(vAnd(c1 == WidenedType, c2 == NarrowedType), vOr(vAnd(c1 == NarrowedType, c2 == WidenedType),
			vOr(vAnd(c1 == AddedConstraint, c2 == DeletedConstraint), vAnd(c1 == DeletedConstraint, c2 == AddedConstraint)))), "mirror")
	}
}

func VerifSmokeTable() {
	code := SpecChangeCode(vInt("code", 0, 53))
	resp := vBool("resp")
	where := Request
	if resp {
		where = Response
	}
	c := getCompatibilityForChange(code, where)
	vObserve("compat", int(c))
	if code == NarrowedType && !resp {
		vCover("narrowed")
		vAssert(c == Breaking, "narrowed request type must be breaking")
	}
}
