//go:build verif

package diff

import "github.com/go-openapi/spec"

func init() {
	vRegister("VerifC13Numeric", VerifC13Numeric)
	vRegister("VerifC13PolicyTable", VerifC13PolicyTable)
}

// C13, numeric query parameter: whenever some request value is accepted by the old
// definition and rejected by the new one, the real analysis must report >=1 Breaking change.
func VerifC13Numeric() {
	old := vMakeNumDef("old", vParam("enum") == 1)
	new := vMakeNumDef("new", vParam("enum") == 1)
	w := vF64("witness")
	vAssume(old.accepts(w))
	vAssume(vNot(new.accepts(w)))
	vCover("witness-exists")
	vObserve("typefmt", old.typ+"."+old.format+">"+new.typ+"."+new.format)
	vObserve("exclDiffer", vOr(old.exMax != new.exMax, old.exMin != new.exMin))
	vObserve("reqChange", old.required != new.required)

	if vKnown("C13-D2", vOr(old.exMax != new.exMax, old.exMin != new.exMin)) {
		return
	}
	if vKnown("C13-D15", vAnd(old.typ == "integer" && old.format == "" && new.typ == "integer" && new.format == "int32", vNot(vInFormatRange("integer", "int32", w)))) {
		return
	}
	s1 := vSpecWithParams(vQueryParam("p", old.typ, old.format, old.required, old.validations()))
	s2 := vSpecWithParams(vQueryParam("p", new.typ, new.format, new.required, new.validations()))
	diffs, err := Compare(s1, s2)
	vAssert(err == nil, "Compare returned an error")
	vObserve("ndiffs", len(diffs))
	vObserve("breaking", diffs.BreakingChangeCount())
	vAssert(vBreaking(diffs), "request value accepted by old numeric parameter and rejected by new one, but no Breaking change reported")
}

// C13, classification table (DESIGN.md A.2)
func VerifC13PolicyTable() {
	code := SpecChangeCode(vInt("code", 0, 53))
	resp := vBool("response")
	loc := DifferenceLocation{URL: "/a", Method: "get"}
	if resp {
		loc.Response = 200
	}
	ds := SpecDifferences{}.addDiff(SpecDifference{DifferenceLocation: loc, Code: code})
	c := ds[0].Compatibility
	vObserve("compat", int(c))
	reqBreaking := []SpecChangeCode{DeletedEndpoint, DeletedConsumesFormat, AddedRequiredParam, AddedRequiredProperty,
		ChangedOptionalToRequired, NarrowedType, ChangedType, DeletedEnumValue, AddedConstraint, ChangedCollectionFormat}
	respBreaking := []SpecChangeCode{DeletedResponse, DeletedProperty, DeletedResponseHeader, AddedEnumValue, DeletedEndpoint}
	must := false
	if resp {
		for _, k := range respBreaking {
			must = vOr(must, code == k)
		}
	} else {
		for _, k := range reqBreaking {
			must = vOr(must, code == k)
		}
	}
	vCover("table")
	vAssert(vImplies(must, c == Breaking), "change kind that the documentation lists as breaking is not classified Breaking")
	vAssert(vImplies(c == Breaking, ds.BreakingChangeCount() == 1), "Breaking entry not counted")
}

func init() {
	vRegister("VerifC13String", VerifC13String)
	vRegister("VerifC13TypeChange", VerifC13TypeChange)
}

// C13, string query parameter (lengths, pattern, enum, format)
func VerifC13String() {
	old := vMakeStrDef("old", vParam("formats") == 1)
	new := vMakeStrDef("new", vParam("formats") == 1)
	w := vMakeStrWitness()
	vAssume(old.accepts(w))
	vAssume(vNot(new.accepts(w)))
	vCover("witness-exists")
	vObserve("fmt", old.format+">"+new.format)
	vObserve("enumN", old.enumN*10+new.enumN)
	vObserve("maxLenNarrowed", vAnd(new.hasMaxL, vOr(!old.hasMaxL, new.maxL < old.maxL)))
	vObserve("patternChanged", vNot(vStrEq(old.pattern, new.pattern)))

	s1 := vSpecWithParams(vQueryParam("p", "string", old.format, old.required, old.validations()))
	s2 := vSpecWithParams(vQueryParam("p", "string", new.format, new.required, new.validations()))
	diffs, err := Compare(s1, s2)
	vAssert(err == nil, "Compare returned an error")
	vObserve("ndiffs", len(diffs))
	vObserve("breaking", diffs.BreakingChangeCount())
	vAssert(vBreaking(diffs), "request value accepted by old string parameter and rejected by new one, but no Breaking change reported")
}

// C13, primitive type/format change of a query parameter without other constraints.
// The raw request value is abstracted by what it parses as.
func VerifC13TypeChange() {
	types := []string{"string", "integer", "number", "boolean"}
	t1 := types[vChoice("old.type", 4)]
	t2 := types[vChoice("new.type", 4)]
	f1, f2 := "", ""
	if t1 == "integer" {
		f1 = []string{"", "int32", "int64"}[vChoice("old.format", 3)]
	}
	if t2 == "integer" {
		f2 = []string{"", "int32", "int64"}[vChoice("new.format", 3)]
	}
	if t1 == "number" {
		f1 = []string{"", "float", "double"}[vChoice("old.format", 3)]
	}
	if t2 == "number" {
		f2 = []string{"", "float", "double"}[vChoice("new.format", 3)]
	}
	isNum, isBool := vBool("w.isNumber"), vBool("w.isBool")
	val := vF64("w.value") // numeric value when isNum
	vAssume(vNot(vAnd(isNum, isBool)))
	acc := func(t, f string) bool {
		switch t {
		case "string":
			return true
		case "boolean":
			return isBool
		case "integer":
			return vAnd(isNum, vAnd(vIsIntegral(val), vInFormatRange(t, f, val)))
		default:
			return vAnd(isNum, vInFormatRange(t, f, val))
		}
	}
	vAssume(acc(t1, f1))
	vAssume(vNot(acc(t2, f2)))
	vCover("witness-exists")
	vObserve("change", t1+"."+f1+">"+t2+"."+f2)
	if vKnown("C13-D15", vAnd(t1 == "integer" && f1 == "" && t2 == "integer" && f2 == "int32", true)) {
		return
	}
	s1 := vSpecWithParams(vQueryParam("p", t1, f1, false, spec.CommonValidations{}))
	s2 := vSpecWithParams(vQueryParam("p", t2, f2, false, spec.CommonValidations{}))
	diffs, _ := Compare(s1, s2)
	vObserve("ndiffs", len(diffs))
	vAssert(vBreaking(diffs), "parameter type/format narrowed (some raw value no longer parses) but no Breaking change reported")
}

func init() {
	vRegister("VerifC13Body", VerifC13Body)
	vRegister("VerifC13ResponseEdits", VerifC13ResponseEdits)
}

func vSymbolizeAll(root *vNode, defs vDefs, tag string) {
	vSymbolize(root, tag)
	for _, k := range vDefNames {
		if n, ok := defs[k]; ok {
			vSymbolize(n, tag+"."+k)
		}
	}
}

// C13, request body: schema templates (inline, $ref, nested $ref, allOf, arrays, cycles) with all
// constraint values and required flags symbolic on both sides, plus one structural edit on the new side.
func VerifC13Body() {
	t := vChoice("template", vParam("templates"))
	e := vChoice("edit", vNumEdits)
	focus := 0
	if e == 0 {
		focus = vChoice("focus", 8)
	}
	focus2 := -1
	if e == 0 && vParam("pairs") == 1 {
		focus2 = vChoice("focus2", 9) - 1
	}
	bg := vBool2("background")
	rootA, defsA, rootB, defsB, ok := vPair2(t, e, focus, focus2, bg)
	if !ok {
		vAssume(false)
	}
	if vKnown("C13-D16", e == 3 && vDeepLastKind(rootA, defsA) == vkInt) {
		return
	}
	w := vWitnessFor(rootA, defsA, "w", 4)
	vAssume(vAccepts(rootA, defsA, w, 4))
	vAssume(vNot(vAccepts(rootB, defsB, w, 4)))
	vCover("witness-exists")
	vObserve("template", t)
	vObserve("edit", e)
	vObserve("focus", focus)
	diffs, _ := Compare(vSpecWithBody(rootA, defsA), vSpecWithBody(rootB, defsB))
	vObserve("ndiffs", len(diffs))
	vAssert(vBreaking(diffs), "request body accepted by the old schema and rejected by the new one, but no Breaking change reported")
}

// C13, response side: the edits the statement lists as breaking for clients
func VerifC13ResponseEdits() {
	t := vChoice("template", vParam("templates"))
	kind := vChoice("edit", 4)
	bg := vBool2("background")
	vObserve("template", t)
	vObserve("edit", kind)
	var rootA, rootB *vNode
	var defsA, defsB vDefs
	ok := true
	switch kind {
	case 0: // a response property is removed (first object)
		rootA, defsA, rootB, defsB, ok = vPair(t, 1, 0, bg)
	case 1: // a nested response property is removed (deepest object)
		rootA, defsA, rootB, defsB, ok = vPair(t, 5, 0, bg)
	default:
		rootA, defsA, rootB, defsB, ok = vPair(t, 0, vChoice("focus", 8), bg)
	}
	if !ok {
		vAssume(false)
	}
	s1 := vSpecWithResponse(rootA, defsA)
	s2 := vSpecWithResponse(rootB, defsB)
	switch kind {
	case 2: // the response code is removed (another one stays)
		r := s2.Paths.Paths["/a"].Get.Responses.StatusCodeResponses
		r[404] = r[200]
		delete(r, 200)
	case 3: // a response header is removed
		r := s1.Paths.Paths["/a"].Get.Responses.StatusCodeResponses
		resp := r[200]
		h := spec.Header{}
		h.Type = "string"
		resp.Headers = map[string]spec.Header{"X-Rate": h}
		r[200] = resp
	}
	vCover("edit-applied")
	diffs, _ := Compare(s1, s2)
	vObserve("ndiffs", len(diffs))
	vAssert(vBreaking(diffs), "response code/property/header removed but no Breaking change reported")
}

func vDeepLastKind(root *vNode, defs vDefs) int {
	o := vDeepObj(root, defs, 4)
	if o == nil || len(o.props) == 0 {
		return -1
	}
	return o.props[len(o.props)-1].node.kind
}

func init() {
	vRegister("VerifC13ArrayParam", VerifC13ArrayParam)
	vRegister("VerifC13Presence", VerifC13Presence)
}

type vArrDef struct {
	hasMaxI, hasMinI bool
	maxI, minI       int64
	cf               string // "", csv, pipes
	itemInt          bool   // items are integers (with maximum) or strings (with maxLength)
	hasItemMax       bool
	itemMax          float64
	hasItemMaxL      bool
	itemMaxL         int64
}

func vMakeArrDef(tag string) vArrDef {
	d := vArrDef{}
	d.hasMaxI, d.hasMinI = vBool(tag+".hasMaxItems"), vBool(tag+".hasMinItems")
	d.maxI, d.minI = vI64(tag+".maxItems"), vI64(tag+".minItems")
	vAssume(vAnd(d.maxI >= 0, d.minI >= 0))
	if vParam("arrlite") == 1 {
		d.itemInt = true
	} else {
		d.cf = []string{"", "csv", "pipes"}[vChoice(tag+".collectionFormat", 3)]
		d.itemInt = vBool2(tag + ".itemsAreIntegers")
	}
	if d.itemInt {
		d.hasItemMax, d.itemMax = vBool(tag+".items.hasMax"), vF64(tag+".items.max")
	} else {
		d.hasItemMaxL, d.itemMaxL = vBool(tag+".items.hasMaxLen"), vI64(tag+".items.maxLen")
		vAssume(d.itemMaxL >= 0)
	}
	return d
}

func (d vArrDef) param() spec.Parameter {
	p := spec.Parameter{}
	p.Name, p.In, p.Type = "p", "query", "array"
	p.CollectionFormat = d.cf
	mx, mn := d.maxI, d.minI
	p.MaxItems = vMaybeNil(!d.hasMaxI, &mx)
	p.MinItems = vMaybeNil(!d.hasMinI, &mn)
	it := &spec.Items{}
	if d.itemInt {
		it.Type = "integer"
		v := d.itemMax
		it.Maximum = vMaybeNil(!d.hasItemMax, &v)
	} else {
		it.Type = "string"
		v := d.itemMaxL
		it.MaxLength = vMaybeNil(!d.hasItemMaxL, &v)
	}
	p.Items = it
	return p
}

// witness: the raw value splits into n items under the OLD collectionFormat; every item is the same value
func (d vArrDef) accepts(oldCF string, n int64, itemIsInt bool, itemNum float64, itemLen int64) bool {
	eff := func(s string) string {
		if s == "" {
			return "csv"
		}
		return s
	}
	if eff(d.cf) != eff(oldCF) {
		return false // some raw value splits differently: treated as rejected
	}
	ok := vAnd(vOr(!d.hasMaxI, n <= d.maxI), vOr(!d.hasMinI, n >= d.minI))
	var item bool
	if d.itemInt {
		item = vAnd(itemIsInt, vOr(!d.hasItemMax, itemNum <= d.itemMax))
	} else {
		item = vOr(!d.hasItemMaxL, itemLen <= d.itemMaxL)
	}
	return vAnd(ok, vOr(n == 0, item))
}

// C13, array query parameter: item counts, collectionFormat, item type and item constraints
func VerifC13ArrayParam() {
	old, new := vMakeArrDef("old"), vMakeArrDef("new")
	n := vI64("w.count")
	vAssume(n >= 0)
	itemIsInt := vBool("w.itemIsInteger")
	itemNum := vF64("w.itemValue")
	vAssume(vIsIntegral(itemNum))
	itemLen := vI64("w.itemLength")
	vAssume(itemLen >= 1)
	vAssume(old.accepts(old.cf, n, itemIsInt, itemNum, itemLen))
	vAssume(vNot(new.accepts(old.cf, n, itemIsInt, itemNum, itemLen)))
	vCover("witness-exists")
	vObserve("cf", old.cf+">"+new.cf)
	vObserve("itemsInt", old.itemInt)
	vObserve("countsDiffer", vOr(vOr(old.hasMaxI != new.hasMaxI, old.hasMinI != new.hasMinI), vOr(old.maxI != new.maxI, old.minI != new.minI)))
	if vKnown("C13-D19", vAnd(old.itemInt && !new.itemInt, new.hasItemMaxL)) {
		return
	}
	diffs, _ := Compare(vSpecWithParams(old.param()), vSpecWithParams(new.param()))
	vObserve("ndiffs", len(diffs))
	vAssert(vBreaking(diffs), "array value accepted by the old parameter and rejected by the new one, but no Breaking change reported")
}

// C13, presence edits: endpoints, methods, parameters added/required/moved, consumed media types
func VerifC13Presence() {
	edit := vChoice("edit", 8)
	mkOp := func(params ...spec.Parameter) *spec.Operation {
		op := &spec.Operation{}
		op.Parameters = params
		op.Responses = &spec.Responses{}
		op.Responses.StatusCodeResponses = map[int]spec.Response{200: {ResponseProps: spec.ResponseProps{Description: "ok"}}}
		return op
	}
	q := func(name string, required bool) spec.Parameter {
		return vQueryParam(name, "string", "", required, spec.CommonValidations{})
	}
	baseReq := vBool2("otherParamRequired")
	s1 := vSpecWithOp("/a", mkOp(q("p", baseReq)))
	s2 := vSpecWithOp("/a", mkOp(q("p", baseReq)))
	s1.Consumes = []string{"application/json", "application/xml"}
	s2.Consumes = []string{"application/json", "application/xml"}
	add := func(sw *spec.Swagger, path, method string, op *spec.Operation) {
		pi := sw.Paths.Paths[path]
		if method == "post" {
			pi.Post = op
		} else {
			pi.Get = op
		}
		sw.Paths.Paths[path] = pi
	}
	switch edit {
	case 0: // an endpoint is removed
		add(s1, "/b", "get", mkOp())
	case 1: // a method of an endpoint is removed
		add(s1, "/a", "post", mkOp())
	case 2: // a required parameter is added
		s2 = vSpecWithOp("/a", mkOp(q("p", baseReq), q("n", true)))
		s2.Consumes = s1.Consumes
	case 3: // an optional parameter becomes required
		s1 = vSpecWithOp("/a", mkOp(q("p", baseReq), q("n", false)))
		s2 = vSpecWithOp("/a", mkOp(q("p", baseReq), q("n", true)))
		s1.Consumes, s2.Consumes = []string{"application/json"}, []string{"application/json"}
	case 4: // a required parameter moves from query to header
		h := q("n", true)
		h.In = "header"
		s1 = vSpecWithOp("/a", mkOp(q("p", baseReq), q("n", true)))
		s2 = vSpecWithOp("/a", mkOp(q("p", baseReq), h))
		s1.Consumes, s2.Consumes = []string{"application/json"}, []string{"application/json"}
	case 5: // a consumed media type is removed (spec level)
		s2.Consumes = []string{"application/json"}
	case 6: // a consumed media type is removed (operation level)
		o1, o2 := mkOp(q("p", baseReq)), mkOp(q("p", baseReq))
		o1.Consumes = []string{"application/json", "application/xml"}
		o2.Consumes = []string{"application/json"}
		s1, s2 = vSpecWithOp("/a", o1), vSpecWithOp("/a", o2)
	default: // a path-level required parameter is added
		pi := s2.Paths.Paths["/a"]
		pi.Parameters = []spec.Parameter{q("n", true)}
		s2.Paths.Paths["/a"] = pi
	}
	vCover("edited")
	vObserve("edit", edit)
	diffs, _ := Compare(s1, s2)
	vObserve("ndiffs", len(diffs))
	vAssert(vBreaking(diffs), "an edit the documentation lists as breaking for requests produced no Breaking change")
}

func init() { vRegister("VerifC13NumericEnum", VerifC13NumericEnum) }

// C13, numeric parameter whose enum changes (any two subsets of {1,2,3}, incl. none), bounds held absent
func VerifC13NumericEnum() {
	typ, format := vNumType("type")
	mk := func(tag string) vNumDef {
		d := vNumDef{typ: typ, format: format}
		d.enumN = vChoice(tag+".enumN", 3)
		for i := 0; i < d.enumN; i++ {
			d.enum[i] = vChoice(tag+".enum", 3)
		}
		if d.enumN == 2 {
			vAssume(d.enum[0] < d.enum[1])
		}
		return d
	}
	old, new := mk("old"), mk("new")
	w := vF64("witness")
	vAssume(old.accepts(w))
	vAssume(vNot(new.accepts(w)))
	vCover("witness-exists")
	s1 := vSpecWithParams(vQueryParam("p", old.typ, old.format, false, old.validations()))
	s2 := vSpecWithParams(vQueryParam("p", new.typ, new.format, false, new.validations()))
	diffs, _ := Compare(s1, s2)
	vObserve("ndiffs", len(diffs))
	vAssert(vBreaking(diffs), "numeric value accepted by the old enum and rejected by the new one, but no Breaking change reported")
}

func init() { vRegister("VerifC13Override", VerifC13Override) }

// C13: a parameter declared at path level and overridden by the operation: the operation's declaration is the
// effective one on both sides, so narrowing it is breaking (and what the path level says is irrelevant)
func VerifC13Override() {
	old := vMakeNumDef("old", false)
	new := vMakeNumDef("new", false)
	shared := vMakeNumDef("pathlevel", false)
	w := vF64("witness")
	vAssume(old.accepts(w))
	vAssume(vNot(new.accepts(w)))
	if vKnown("C13-D2", vOr(old.exMax != new.exMax, old.exMin != new.exMin)) {
		return
	}
	vCover("witness-exists")
	mk := func(d vNumDef) *spec.Swagger {
		sw := vSpecWithParams(vQueryParam("p", d.typ, d.format, d.required, d.validations()))
		pi := sw.Paths.Paths["/a"]
		pi.Parameters = []spec.Parameter{vQueryParam("p", shared.typ, shared.format, shared.required, shared.validations())}
		sw.Paths.Paths["/a"] = pi
		return sw
	}
	diffs, _ := Compare(mk(old), mk(new))
	vObserve("ndiffs", len(diffs))
	vAssert(vBreaking(diffs), "the operation-level override of a path-level parameter was narrowed but no Breaking change reported")
}

func init() { vRegister("VerifC13Media", VerifC13Media) }

// C13 for consumed media types: the list in effect for an operation is its own list or, without
// one, the list of the spec. Whenever a request body type that the old operation accepted is no
// longer in the new list in effect, a Breaking difference is reported - whichever of the two
// levels the lists are written at, on either side.
func VerifC13Media() {
	a, b := vMetaSpec("a", 10), vMetaSpec("b", 10)
	effective := func(sw *spec.Swagger) []string {
		if op := sw.Paths.Paths["/a"].Get; op != nil && op.Consumes != nil {
			return op.Consumes
		}
		return sw.Consumes
	}
	ea, eb := effective(a), effective(b)
	removed := false
	for _, m := range ea {
		still := false
		for _, n := range eb {
			if m == n {
				still = true
			}
		}
		if !still {
			removed = true
		}
	}
	vCover("compared")
	diffs, err := Compare(a, b)
	vAssert(err == nil, "Compare failed")
	breaking := false
	for _, d := range diffs {
		if d.Compatibility == Breaking {
			breaking = true
		}
	}
	vObserve("removed", removed)
	vAssert(!removed || breaking, "a media type the operation no longer consumes is not reported as a breaking change")
}
