//go:build verif

package diff

func init() {
	vRegister("VerifC13Numeric", VerifC13Numeric)
	vRegister("VerifC13PolicyTable", VerifC13PolicyTable)
}

// C13, numeric query parameter: whenever some request value is accepted by the old
// definition and rejected by the new one, the real analysis must report >=1 Breaking change.
func VerifC13Numeric() {
	old := vMakeNumDef("old", vParam("enum") == 1)
	new := vMakeNumDef("new", vParam("enum") == 1)
	w := vF64("witness")
	vAssume(old.accepts(w))
	vAssume(vNot(new.accepts(w)))
	vCover("witness-exists")
	vObserve("typefmt", old.typ+"."+old.format+">"+new.typ+"."+new.format)
	vObserve("exclDiffer", vOr(old.exMax != new.exMax, old.exMin != new.exMin))
	vObserve("reqChange", old.required != new.required)

	if vKnown("C13-D2", vOr(old.exMax != new.exMax, old.exMin != new.exMin)) {
		return
	}
	if vKnown("C13-D15", vAnd(old.typ == "integer" && old.format == "" && new.typ == "integer" && new.format == "int32", vNot(vInFormatRange("integer", "int32", w)))) {
		return
	}
	s1 := vSpecWithParams(vQueryParam("p", old.typ, old.format, old.required, old.validations()))
	s2 := vSpecWithParams(vQueryParam("p", new.typ, new.format, new.required, new.validations()))
	diffs, err := Compare(s1, s2)
	vAssert(err == nil, "Compare returned an error")
	vObserve("ndiffs", len(diffs))
	vObserve("breaking", diffs.BreakingChangeCount())
	vAssert(vBreaking(diffs), "request value accepted by old numeric parameter and rejected by new one, but no Breaking change reported")
}

// C13, classification table (DESIGN.md A.2)
func VerifC13PolicyTable() {
	code := SpecChangeCode(vInt("code", 0, 53))
	resp := vBool("response")
	loc := DifferenceLocation{URL: "/a", Method: "get"}
	if resp {
		loc.Response = 200
	}
	ds := SpecDifferences{}.addDiff(SpecDifference{DifferenceLocation: loc, Code: code})
	c := ds[0].Compatibility
	vObserve("compat", int(c))
	reqBreaking := []SpecChangeCode{DeletedEndpoint, DeletedConsumesFormat, AddedRequiredParam, AddedRequiredProperty,
		ChangedOptionalToRequired, NarrowedType, ChangedType, DeletedEnumValue, AddedConstraint, ChangedCollectionFormat}
	respBreaking := []SpecChangeCode{DeletedResponse, DeletedProperty, DeletedResponseHeader, AddedEnumValue, DeletedEndpoint}
	must := false
	if resp {
		for _, k := range respBreaking {
			must = vOr(must, code == k)
		}
	} else {
		for _, k := range reqBreaking {
			must = vOr(must, code == k)
		}
	}
	vCover("table")
	vAssert(vImplies(must, c == Breaking), "change kind that the documentation lists as breaking is not classified Breaking")
	vAssert(vImplies(c == Breaking, ds.BreakingChangeCount() == 1), "Breaking entry not counted")
}
