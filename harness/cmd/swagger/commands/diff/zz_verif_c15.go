//go:build verif

package diff

import (
	"bytes"
	"strings"
)

func init() {
	vRegister("VerifC15Matches", VerifC15Matches)
	vRegister("VerifC15Filter", VerifC15Filter)
	vRegister("VerifC15Codec", VerifC15Codec)
	vRegister("VerifC15Reports", VerifC15Reports)
}

func vNodeChain(tag string) *Node {
	depth := vChoice(tag+".depth", 3)
	var first, last *Node
	for i := 0; i < depth; i++ {
		n := &Node{Field: vOneOf(tag+".field", "p", "q"), TypeName: vOneOf(tag+".type", "", "string"), IsArray: vBool(tag + ".isArray")}
		if first == nil {
			first = n
		} else {
			last.ChildNode = n
		}
		last = n
	}
	return first
}

func vDifference(tag string) SpecDifference {
	d := SpecDifference{}
	d.Code = SpecChangeCode(vInt(tag+".code", 0, 53))
	d.Compatibility = Compatibility(vInt(tag+".compat", 0, 2))
	d.DiffInfo = vOneOf(tag+".info", "", "a", "b", "A", " a")
	d.DifferenceLocation.URL = vOneOf(tag+".url", "/a", "/b")
	d.DifferenceLocation.Method = vOneOf(tag+".method", "get", "post")
	d.DifferenceLocation.Response = vInt(tag+".response", 0, 2) * 200
	d.DifferenceLocation.Node = vNodeChain(tag + ".node")
	return d
}

// reference: field-wise equality of two differences (what the JSON report carries)
func vNodesEqual(a, b *Node) bool {
	if a == nil || b == nil {
		return a == nil && b == nil
	}
	return vAnd(vAnd(vStrEq(a.Field, b.Field), vStrEq(a.TypeName, b.TypeName)), vAnd(a.IsArray == b.IsArray, vNodesEqual(a.ChildNode, b.ChildNode)))
}

func vDiffsEqual(a, b SpecDifference) bool {
	return vAnd(vAnd(vAnd(a.Code == b.Code, a.Compatibility == b.Compatibility), vAnd(vStrEq(a.DiffInfo, b.DiffInfo), vStrEq(a.DifferenceLocation.URL, b.DifferenceLocation.URL))),
		vAnd(vAnd(vStrEq(a.DifferenceLocation.Method, b.DifferenceLocation.Method), a.DifferenceLocation.Response == b.DifferenceLocation.Response),
			vNodesEqual(a.DifferenceLocation.Node, b.DifferenceLocation.Node)))
}

// an ignore entry matches a difference exactly when all reported fields are equal
func VerifC15Matches() {
	a, b := vDifference("a"), vDifference("b")
	vCover("built")
	vAssert(a.Matches(a), "a difference does not match itself")
	m := a.Matches(b)
	vObserve("matches", m)
	vAssert(m == vDiffsEqual(a, b), "Matches disagrees with field-wise equality of the two report entries")
}

// ignoring a sub-multiset of the reported differences removes exactly those entries
func VerifC15Filter() {
	n := vParam("entries")
	var ds SpecDifferences
	for i := 0; i < n; i++ {
		d := SpecDifference{}
		d.Code = SpecChangeCode(vInt("d.code", 0, 53))
		d.DiffInfo = vOneOf("d.info", "", "a")
		d.DifferenceLocation.URL = "/a"
		d.DifferenceLocation.Method = vOneOf("d.method", "get", "post")
		d.DifferenceLocation.Node = vNodeChain("d.node")
		// reported differences carry the compatibility the policy assigns to their code
		ds = ds.addDiff(d)
	}
	var ignores SpecDifferences
	var ignored []bool
	for i := 0; i < n; i++ {
		ig := vBool2("ignore")
		ignored = append(ignored, ig)
		if ig {
			ignores = append(ignores, ds[i])
		}
	}
	vCover("built")
	out := ds.FilterIgnores(ignores)
	// expected: entry i stays iff it equals no ignored entry
	var want SpecDifferences
	for i := 0; i < n; i++ {
		hit := false
		for j := 0; j < n; j++ {
			if ignored[j] {
				hit = vOr(hit, vDiffsEqual(ds[i], ds[j]))
			}
		}
		if !hit { // fork: keeps list shapes concrete
			want = append(want, ds[i])
		}
	}
	vObserve("kept", len(out))
	vAssert(len(out) == len(want), "FilterIgnores keeps a wrong number of entries")
	if len(out) == len(want) {
		for i := range out {
			vAssert(vDiffsEqual(out[i], want[i]), "FilterIgnores kept or reordered the wrong entry")
		}
	}
	if len(ignores) == n {
		vAssert(len(out) == 0, "ignoring every reported difference leaves a non-empty report")
	}
}

// the JSON names of codes and compatibilities identify them: marshal then unmarshal is the identity
func VerifC15Codec() {
	c := SpecChangeCode(vInt("code", 0, 53))
	b, err := c.MarshalJSON()
	vAssert(err == nil, "MarshalJSON failed")
	var c2 SpecChangeCode
	err = c2.UnmarshalJSON(b)
	vCover("code")
	vAssert(err == nil, "a marshalled change code cannot be read back")
	vAssert(c2 == c, "a change code reads back as a different code")

	k := Compatibility(vInt("compat", 0, 2))
	b, err = k.MarshalJSON()
	vAssert(err == nil, "MarshalJSON failed")
	var k2 Compatibility
	err = k2.UnmarshalJSON(b)
	vAssert(err == nil, "a marshalled compatibility cannot be read back")
	vAssert(k2 == k, "a compatibility reads back as a different value")
}

func vReportText(r interface{}) string {
	if b, ok := r.(*bytes.Buffer); ok {
		return b.String()
	}
	return ""
}

// exit status and the three report forms agree on the same set of differences
func VerifC15Reports() {
	n := vParam("entries")
	var ds SpecDifferences
	codes := []SpecChangeCode{DeletedProperty, AddedProperty, AddedExtension}
	for i := 0; i < n; i++ {
		d := SpecDifference{}
		d.Code = codes[i%3]
		d.Compatibility = Compatibility(vInt("d.compat", 0, 2))
		d.DifferenceLocation.URL = "/a"
		d.DifferenceLocation.Method = "get"
		d.DifferenceLocation.Node = &Node{Field: []string{"p", "q", "r", "s", "t"}[i%5]} // distinct locations: every entry renders differently
		ds = append(ds, d)
	}
	breaking := 0
	for i := range ds {
		if ds[i].Compatibility == Breaking {
			breaking++
		}
	}
	vObserve("breaking", breaking)
	vCover("built")

	// text report
	out, err, warn := ds.ReportAllDiffs(false)
	vAssert(err == nil, "text report failed")
	vAssert((warn != nil) == (breaking > 0), "text report: exit status is not 'non-zero exactly when a Breaking difference exists'")
	text := vReportText(out)
	for i := range ds {
		vAssert(strings.Contains(text, ds[i].String()+"\n"), "a difference is missing from the text report")
	}
	// breaking-only report
	out, err, warn = ds.ReportCompatibility()
	vAssert(err == nil, "breaking-only report failed")
	vAssert((warn != nil) == (breaking > 0), "breaking-only report: exit status is not 'non-zero exactly when a Breaking difference exists'")
	text = vReportText(out)
	for i := range ds {
		vAssert(strings.Contains(text, ds[i].String()+"\n") == (ds[i].Compatibility == Breaking), "breaking-only report does not list exactly the Breaking differences")
	}
	// JSON report: exit status
	if vKnown("C15-D13", breaking > 0) {
		return
	}
	_, err, warn = ds.ReportAllDiffs(true)
	vAssert(err == nil, "JSON report failed")
	vAssert((warn != nil) == (breaking > 0), "JSON report: exit status is not 'non-zero exactly when a Breaking difference exists'")
}
