//go:build verif

package diff

import (
	"reflect"

	"github.com/go-openapi/spec"
)

func init() {
	vRegister("VerifC07DiffOrder", VerifC07DiffOrder)
	vRegister("VerifC07DiffsTo", VerifC07DiffsTo)
}

// the list of differences (order included: the JSON report is written in this order, and an
// ignore file must keep matching) does not depend on map iteration order
func VerifC07DiffOrder() {
	kind := vChoice("kind", 7)
	var a, b *spec.Swagger
	switch kind {
	case 0: // spec-level aspects
		aspect := vChoice("aspect", 12)
		a, b = vMetaSpec("a", aspect), vMetaSpec("b", aspect)
	case 1: // two properties / definitions
		t := vChoice("template", vNumTemplates)
		e := vChoice("edit", vNumEdits)
		rootA, defsA, rootB, defsB, ok := vPair(t, e, 0, true)
		if !ok {
			vAssume(false)
		}
		a, b = vSpecBoth(rootA, defsA, 0), vSpecBoth(rootB, defsB, 0)
	case 2: // string parameter with enums (any two subsets of three words)
		mk := func(tag string) spec.CommonValidations {
			cv := spec.CommonValidations{}
			for _, w := range vEnumWords {
				if vBool2(tag + "." + w) {
					cv.Enum = append(cv.Enum, w)
				}
			}
			return cv
		}
		a = vSpecWithParams(vQueryParam("p", "string", "", false, mk("a")))
		b = vSpecWithParams(vQueryParam("p", "string", "", false, mk("b")))
	case 4: // recursive definitions, response code replaced
		t := 6 + vChoice("template", 4)
		rootA, defsA, rootB, defsB, ok := vPair(t, 0, vChoice("focus", 8), true)
		if !ok {
			vAssume(false)
		}
		a, b = vSpecWithResponse(rootA, defsA), vSpecWithResponse(rootB, defsB)
		mv := vBool2("move200")
		if vKnown("C07-D17", t == 9 && mv) {
			return
		}
		if mv {
			r := b.Paths.Paths["/a"].Get.Responses.StatusCodeResponses
			r[404] = r[200]
			delete(r, 200)
		}
	case 5: // definitions no operation refers to, one of them referring to another one that changed
		mk := func(changed bool) *spec.Swagger {
			sw := vSpecWithParams()
			leafT := "string"
			if changed {
				leafT = "integer"
			}
			leaf := spec.Schema{}
			leaf.Type = spec.StringOrArray{"object"}
			lp := spec.Schema{}
			lp.Type = spec.StringOrArray{leafT}
			leaf.Properties = map[string]spec.Schema{"v": lp}
			holder := spec.Schema{}
			holder.Type = spec.StringOrArray{"object"}
			holder.Properties = map[string]spec.Schema{"leaf": *spec.RefSchema("#/definitions/Leaf")}
			other := spec.Schema{}
			other.Type = spec.StringOrArray{"object"}
			other.Properties = map[string]spec.Schema{"w": lp}
			sw.Definitions = spec.Definitions{"Holder": holder, "Leaf": leaf}
			if vBool2("third") {
				sw.Definitions["Other"] = other
			}
			return sw
		}
		a, b = mk(false), mk(true)
	case 6: // two (or three) responses of one operation refer to the same definition, which changed
		mk := func(changed bool) *spec.Swagger {
			leafT := "string"
			if changed {
				leafT = "integer"
			}
			leaf := spec.Schema{}
			leaf.Type = spec.StringOrArray{"object"}
			lp := spec.Schema{}
			lp.Type = spec.StringOrArray{leafT}
			leaf.Properties = map[string]spec.Schema{"v": lp}
			op := &spec.Operation{}
			op.Responses = &spec.Responses{}
			r := spec.Response{}
			r.Description = "ok"
			r.Schema = spec.RefSchema("#/definitions/Leaf")
			op.Responses.StatusCodeResponses = map[int]spec.Response{200: r, 201: r}
			if vBool2("third.response") {
				op.Responses.StatusCodeResponses[404] = r
			}
			sw := vSpecWithOp("/a", op)
			sw.Definitions = spec.Definitions{"Leaf": leaf}
			return sw
		}
		a, b = mk(false), mk(true)
	default: // two parameters added/removed
		p := vQueryParam("p", "string", "", false, spec.CommonValidations{})
		q := vQueryParam("q", "string", "", vBool2("q.required"), spec.CommonValidations{})
		a = vSpecWithParams()
		b = vSpecWithParams(p, q)
		if vBool2("swap") {
			a, b = b, a
		}
	}
	vObserve("kind", kind)
	d1, _ := Compare(a, b)
	k := vChoice("site", vParam("sites"))
	vMapOrderSite(k)
	d2, _ := Compare(a, b)
	vMapOrderSite(-1)
	vCover("compared")
	vObserve("n", len(d1))
	vAssert(reflect.DeepEqual(d1, d2), "the list of differences depends on map iteration order")
}

func VerifC07DiffsTo() {
	words := []string{"a", "b", "c"}
	pick := func(tag string) []string {
		var out []string
		for _, w := range words {
			if vBool2(tag + "." + w) {
				out = append(out, w)
			}
		}
		return out
	}
	from, to := pick("from"), pick("to")
	f := func() interface{} {
		ad, de, co := fromStringArray(from).DiffsTo(to)
		return [][]string{ad, de, co}
	}
	r1 := f()
	vMapOrderSite(0)
	r2 := f()
	vMapOrderSite(-1)
	vCover("compared")
	vAssert(reflect.DeepEqual(r1, r2), "added/deleted/common lists depend on map iteration order")
}
