//go:build verif

package diff

import "github.com/go-openapi/spec"

func init() {
	vRegister("VerifC12Identity", VerifC12Identity)
	vRegister("VerifC12IdentityParams", VerifC12IdentityParams)
	vRegister("VerifC12Total", VerifC12Total)
}

// all slots symbolic (presence flags too), values shared by both copies
func vFreeAll(root *vNode, defs vDefs, tag string) {
	for i, sl := range vAllSlots(root, defs) {
		vFillSlot(sl, tag+".s"+string(rune('0'+i)), true, true)
	}
}

// extra shapes that are valid Swagger but unusual
func vOddTemplate(t int) (*vNode, vDefs) {
	obj := func(ps ...vProp) *vNode { return &vNode{kind: vkObj, props: ps} }
	p := func(name string, n *vNode) vProp { return vProp{name: name, node: n} }
	ref := func(name string) *vNode { return &vNode{kind: vkRef, ref: name} }
	switch t {
	case 0: // untyped schema
		return &vNode{kind: vkUntyped}, vDefs{}
	case 1: // object with an untyped property
		return obj(p("p", &vNode{kind: vkUntyped})), vDefs{}
	case 2: // array without items
		return &vNode{kind: vkArr}, vDefs{}
	case 3: // $ref to an untyped definition
		return ref("X"), vDefs{"X": &vNode{kind: vkUntyped}}
	case 4: // property that is an array without items
		return obj(p("p", &vNode{kind: vkArr})), vDefs{}
	case 5: // properties only, no type: object
		return &vNode{kind: vkUntyped, props: []vProp{p("p", vLeaf(vkInt))}}, vDefs{}
	case 6: // allOf only
		return &vNode{kind: vkAllOf, ref: "X"}, vDefs{"X": obj(p("p", vLeaf(vkStr)))}
	case 7: // tuple with three positions
		return &vNode{kind: vkTuple, tuple: []*vNode{vLeaf(vkStr), vLeaf(vkInt), vLeaf(vkStr)}}, vDefs{}
	case 8: // tuple with two positions
		return &vNode{kind: vkTuple, tuple: []*vNode{vLeaf(vkStr), vLeaf(vkInt)}}, vDefs{}
	default: // property that is a one-position tuple
		return obj(p("p", &vNode{kind: vkTuple, tuple: []*vNode{vLeaf(vkInt)}})), vDefs{}
	}
}

const vNumOdd = 10

func vAnyTemplate(t int) (*vNode, vDefs) {
	if t < vNumTemplates {
		return vTemplate(t)
	}
	return vOddTemplate(t - vNumTemplates)
}

// spec with the schema used as request body AND as 200 response body
func vSpecBoth(root *vNode, defs vDefs, order int) *spec.Swagger {
	op := &spec.Operation{}
	op.Parameters = []spec.Parameter{vBodyParam(root.build())}
	op.Responses = &spec.Responses{}
	r := spec.Response{}
	r.Description = "ok"
	r.Schema = root.build()
	r2 := spec.Response{}
	r2.Description = "none"
	if order == 0 {
		op.Responses.StatusCodeResponses = map[int]spec.Response{200: r, 204: r2}
	} else {
		op.Responses.StatusCodeResponses = map[int]spec.Response{204: r2, 200: r}
	}
	sw := vSpecWithOp("/a", op)
	names := vDefNames
	if order == 1 {
		names = []string{"Y", "X"}
	}
	sw.Definitions = defs.build(names)
	return sw
}

// C12 identity: a spec compared with a structurally equal copy (separately built, maps filled
// in another order) yields no difference at all.
func VerifC12Identity() {
	t := vChoice("template", vNumTemplates+vNumOdd)
	root, defs := vAnyTemplate(t)
	vFreeAll(root, defs, "a")
	vObserve("template", t)
	if vKnown("C12-D10", vHasItemlessArray(root, defs)) {
		return
	}
	s1 := vSpecBoth(root, defs, 0)
	s2 := vSpecBoth(root, defs, 1)
	vCover("built")
	diffs, err := Compare(s1, s2)
	vAssert(err == nil, "Compare failed on identical specs")
	vObserve("ndiffs", len(diffs))
	vAssert(len(diffs) == 0, "a spec differs from a structurally equal copy of itself")
}

func vHasItemlessArray(root *vNode, defs vDefs) bool {
	var has func(n *vNode) bool
	has = func(n *vNode) bool {
		if n == nil {
			return false
		}
		if n.kind == vkArr && n.items == nil {
			return true
		}
		if has(n.items) {
			return true
		}
		for _, p := range n.props {
			if has(p.node) {
				return true
			}
		}
		return false
	}
	if has(root) {
		return true
	}
	for _, k := range vDefNames {
		if has(defs[k]) {
			return true
		}
	}
	return false
}

// C12 identity for simple parameters: same parameters listed in another order, enum lists permuted,
// path-level parameter shared by the operation.
func VerifC12IdentityParams() {
	n := vMakeNumDef("n", vParam("enum") == 1)
	s := vMakeStrDef("s", vParam("strformats") == 1)
	pn := vQueryParam("n", n.typ, n.format, n.required, n.validations())
	ps := vQueryParam("s", "string", s.format, s.required, s.validations())
	ph := vQueryParam("h", "string", "", false, spec.CommonValidations{})
	ph.In = "header"
	// a second parameter called "n" in another location, and an array parameter with an array default
	pn2 := vQueryParam("n", "string", "", false, spec.CommonValidations{})
	pn2.In = "header"
	pa := vQueryParam("arr", "array", "", false, spec.CommonValidations{})
	pa.Items = &spec.Items{}
	pa.Items.Type = "integer"
	if vBool2("arrayDefault") {
		pa.Default = []interface{}{1, 2}
		if vKnown("C12-D20", true) {
			return
		}
	}
	// the second copy is built separately: no pointer is shared between the two documents
	pnB := vQueryParam("n", n.typ, n.format, n.required, n.validations())
	if vBool2("multipleOf") {
		m := vF64("n.multipleOf")
		vAssume(m > 0)
		m1, m2 := m, m
		pn.MultipleOf, pnB.MultipleOf = &m1, &m2
	}
	ps2 := vQueryParam("s", "string", s.format, s.required, s.validations())
	// a default next to any required flag (required + default is legal swagger 2.0)
	if vBool2("defaults") {
		pn.Default, pnB.Default = 1.0, 1.0
		if len(ps.Enum) == 0 {
			ps.Default, ps2.Default = "x", "x"
		}
	}
	if len(ps.Enum) == 2 {
		ps2.Enum = []interface{}{ps.Enum[1], ps.Enum[0]}
		vCover("enum-permuted")
	}
	s1 := vSpecWithParams(pn, ps, pn2, pa)
	s2 := vSpecWithParams(pa, pn2, ps2, pnB)
	// path-level shared parameter on both sides
	for _, sw := range []*spec.Swagger{s1, s2} {
		pi := sw.Paths.Paths["/a"]
		pi.Parameters = []spec.Parameter{ph}
		sw.Paths.Paths["/a"] = pi
	}
	vCover("built")
	diffs, _ := Compare(s1, s2)
	vObserve("ndiffs", len(diffs))
	vAssert(len(diffs) == 0, "a spec differs from a copy with reordered parameter/enum lists")
}

// C12 totality: two different specs never crash the analysis (panics are the violation;
// non-termination shows up as the step/recursion bound being hit).
func VerifC12Total() {
	t1 := vChoice("template1", vNumTemplates+vNumOdd)
	t2 := vChoice("template2", vNumTemplates+vNumOdd)
	rootA, defsA := vAnyTemplate(t1)
	rootB, defsB := vAnyTemplate(t2)
	vBackground(rootA, defsA, true, "a")
	vBackground(rootB, defsB, true, "b")
	vObserve("t1", t1)
	vObserve("t2", t2)
	s1 := vSpecBoth(rootA, defsA, 0)
	s2 := vSpecBoth(rootB, defsB, 0)
	if vChoice("drop204", 2) == 1 {
		delete(s1.Paths.Paths["/a"].Get.Responses.StatusCodeResponses, 204)
	}
	vCover("built")
	if vKnown("C12-D10", vOr(vHasItemlessArray(rootA, defsA), vHasItemlessArray(rootB, defsB))) {
		return
	}
	diffs, err := Compare(s1, s2)
	vAssert(err == nil, "Compare failed")
	vObserve("ndiffs", len(diffs))
}

func init() { vRegister("VerifC12IdentityArrayParam", VerifC12IdentityArrayParam) }

func VerifC12IdentityArrayParam() {
	a := vMakeArrDef("a")
	h := spec.Header{}
	h.Type = "integer"
	mx := vF64("header.max")
	h.Maximum = vMaybeNil(vBool("header.noMax"), &mx)
	mk := func() *spec.Swagger {
		sw := vSpecWithParams(a.param())
		r := sw.Paths.Paths["/a"].Get.Responses.StatusCodeResponses[200]
		r.Headers = map[string]spec.Header{"X-Rate": h}
		sw.Paths.Paths["/a"].Get.Responses.StatusCodeResponses[200] = r
		return sw
	}
	vCover("built")
	diffs, _ := Compare(mk(), mk())
	vObserve("ndiffs", len(diffs))
	vAssert(len(diffs) == 0, "a spec with an array parameter and a response header differs from itself")
}


func init() { vRegister("VerifC12IdentityRefNames", VerifC12IdentityRefNames) }

// C12 identity/totality for definition names that are not plain identifiers: blanks, non-ASCII
// letters, punctuation - referenced from a response, a body, a property and array items
func VerifC12IdentityRefNames() {
	name := []string{"X", "Book Receipt", "B\u00fccher", "Page\u00abB\u00bb", "a.b"}[vChoice("name", 5)] // (a name with '/' would need ~1 escaping in the $ref)
	where := vChoice("where", 4)
	build := func() *spec.Swagger {
		leaf := spec.Schema{}
		leaf.Type = spec.StringOrArray{"object"}
		leaf.Properties = map[string]spec.Schema{"v": *spec.StringProperty()}
		ref := spec.RefSchema("#/definitions/" + name)
		var used *spec.Schema
		switch where {
		case 0, 1:
			used = ref
		case 2:
			o := spec.Schema{}
			o.Type = spec.StringOrArray{"object"}
			o.Properties = map[string]spec.Schema{"p": *ref}
			used = &o
		default:
			used = spec.ArrayProperty(ref)
		}
		op := &spec.Operation{}
		if where == 1 {
			op.Parameters = []spec.Parameter{vBodyParam(used)}
		}
		op.Responses = &spec.Responses{}
		r := spec.Response{}
		r.Description = "ok"
		if where != 1 {
			r.Schema = used
		}
		op.Responses.StatusCodeResponses = map[int]spec.Response{200: r}
		sw := vSpecWithOp("/a", op)
		sw.Definitions = spec.Definitions{name: leaf}
		return sw
	}
	vCover("built")
	diffs, err := Compare(build(), build())
	vAssert(err == nil, "Compare failed on identical specs")
	vObserve("ndiffs", len(diffs))
	vAssert(len(diffs) == 0, "a spec whose definition names are not plain identifiers differs from itself")
}

func init() { vRegister("VerifC12Extensions", VerifC12Extensions) }

// C12 identity/totality with vendor extensions: an extension of any JSON type (boolean, text,
// number, null, list, object), under a usual key, at spec / path item / operation / parameter /
// response / header level, on either side: the comparison never crashes, and the same value on
// both sides is no difference.
func VerifC12Extensions() {
	key := []string{"x-a", "x-deprecated", "x-nullable", "x-internal"}[vChoice("key", 4)]
	where := vChoice("where", 6)
	val := func(k int) (interface{}, bool) {
		switch k {
		case 1:
			return true, true
		case 2:
			return "yes", true
		case 3:
			return 3.0, true
		case 4:
			return nil, true
		case 5:
			return []interface{}{1.0}, true
		case 6:
			return map[string]interface{}{"k": "v"}, true
		}
		return nil, false
	}
	build := func(k int) *spec.Swagger {
		p := vQueryParam("p", "string", "", false, spec.CommonValidations{})
		sw := vSpecWithParams(p)
		v, has := val(k)
		if !has {
			return sw
		}
		ext := spec.Extensions{key: v}
		pi := sw.Paths.Paths["/a"]
		switch where {
		case 0:
			sw.Extensions = ext
		case 1:
			pi.Extensions = ext
		case 2:
			pi.Get.Extensions = ext
		case 3:
			pi.Get.Parameters[0].Extensions = ext
		case 4:
			r := pi.Get.Responses.StatusCodeResponses[200]
			r.Extensions = ext
			pi.Get.Responses.StatusCodeResponses[200] = r
		default:
			r := pi.Get.Responses.StatusCodeResponses[200]
			h := spec.Header{}
			h.Type = "string"
			h.Extensions = ext
			r.Headers = map[string]spec.Header{"X-H": h}
			pi.Get.Responses.StatusCodeResponses[200] = r
		}
		sw.Paths.Paths["/a"] = pi
		return sw
	}
	ka, kb := vChoice("a.value", 7), vChoice("b.value", 7)
	a, b := build(ka), build(kb)
	vCover("built")
	diffs, err := Compare(a, b)
	vAssert(err == nil, "Compare failed on a spec with a vendor extension")
	vObserve("ndiffs", len(diffs))
	if ka == kb {
		vAssert(len(diffs) == 0, "a spec with a vendor extension differs from a copy of itself")
	}
	// an endpoint that disappears while it carries the extension (the deleted-endpoint classification reads the old side)
	if kb == 0 {
		delete(b.Paths.Paths, "/a")
		_, err = Compare(a, b)
		vAssert(err == nil, "Compare failed on a deleted endpoint with a vendor extension")
	}
}
