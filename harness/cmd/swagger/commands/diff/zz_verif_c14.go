//go:build verif

package diff

import (
	"strconv"

	"github.com/go-openapi/spec"
)

func init() {
	vRegister("VerifC14MirrorParams", VerifC14MirrorParams)
	vRegister("VerifC14MirrorSchema", VerifC14MirrorSchema)
	vRegister("VerifC14MirrorMeta", VerifC14MirrorMeta)
}

// direction classes (DESIGN.md A.1): class(code) and the class it must turn into when the
// arguments are swapped
const (
	vcAddProp = 100 + iota
	vcDelProp
	vcAddEndpoint
	vcDelEndpoint
)

func vClass(c SpecChangeCode) int {
	switch c {
	case AddedProperty, AddedRequiredProperty:
		return vcAddProp
	case DeletedProperty:
		return vcDelProp
	case AddedEndpoint:
		return vcAddEndpoint
	case DeletedEndpoint, DeletedDeprecatedEndpoint:
		return vcDelEndpoint
	}
	return int(c)
}

func vMirrorClass(k int) int {
	pairs := [][2]int{
		{vcAddProp, vcDelProp}, {vcAddEndpoint, vcDelEndpoint},
		{int(AddedOptionalParam), int(DeletedOptionalParam)}, {int(AddedRequiredParam), int(DeletedRequiredParam)},
		{int(AddedResponse), int(DeletedResponse)}, {int(AddedResponseHeader), int(DeletedResponseHeader)},
		{int(AddedEnumValue), int(DeletedEnumValue)}, {int(AddedConstraint), int(DeletedConstraint)},
		{int(AddedDescripton), int(DeletedDescripton)}, {int(AddedTag), int(DeletedTag)},
		{int(AddedExtension), int(DeletedExtension)}, {int(AddedDefault), int(DeletedDefault)},
		{int(AddedExample), int(DeletedExample)}, {int(AddedConsumesFormat), int(DeletedConsumesFormat)},
		{int(AddedProducesFormat), int(DeletedProducesFormat)}, {int(AddedSchemes), int(DeletedSchemes)},
		{int(AddedDefinition), int(DeletedDefinition)}, {int(WidenedType), int(NarrowedType)},
		{int(ChangedOptionalToRequired), int(ChangedRequiredToOptional)},
	}
	for _, p := range pairs {
		if k == p[0] {
			return p[1]
		}
		if k == p[1] {
			return p[0]
		}
	}
	return k
}

// same location = URL, method, response code and the chain of node field names
func vLocKey(d SpecDifference) string {
	k := d.DifferenceLocation.URL + "|" + d.DifferenceLocation.Method + "|" + strconv.Itoa(d.DifferenceLocation.Response)
	for n := d.DifferenceLocation.Node; n != nil; n = n.ChildNode {
		k += "/" + n.Field
	}
	return k
}

// the multiset {(location, class)} of ab must equal {(location, mirror(class))} of ba
func vCheckMirror(ab, ba SpecDifferences) {
	vObserve("nAB", len(ab))
	vObserve("nBA", len(ba))
	m := map[string]int{}
	for _, d := range ab {
		m[vLocKey(d)+"#"+strconv.Itoa(vClass(d.Code))]++
	}
	for _, d := range ba {
		m[vLocKey(d)+"#"+strconv.Itoa(vMirrorClass(vClass(d.Code)))]--
	}
	bad := ""
	for k, v := range m {
		if v != 0 && (bad == "" || k < bad) {
			bad = k
		}
	}
	vObserve("unmatched", bad)
	vAssert(len(ab) == len(ba), "swapping the arguments changes the number of differences")
	vAssert(bad == "", "a change is not mirrored at the same location when the arguments are swapped")
}

func VerifC14MirrorParams() {
	kind := vChoice("kind", 3)
	var p1, p2 spec.Parameter
	switch kind {
	case 0:
		a := vMakeNumDef("a", vParam("enum") == 1)
		b := vMakeNumDef("b", vParam("enum") == 1)
		p1 = vQueryParam("p", a.typ, a.format, a.required, a.validations())
		p2 = vQueryParam("p", b.typ, b.format, b.required, b.validations())
	case 1:
		a := vMakeStrDef("a", false)
		b := vMakeStrDef("b", false)
		p1 = vQueryParam("p", "string", a.format, a.required, a.validations())
		p2 = vQueryParam("p", "string", b.format, b.required, b.validations())
	default:
		p1 = vQueryParam("p", "string", "", false, spec.CommonValidations{})
		p2 = vQueryParam("p", "string", "", false, spec.CommonValidations{})
		p1.Description = vOneOf("a.desc", "", "x", "y")
		p2.Description = vOneOf("b.desc", "", "x", "y")
		p1.CollectionFormat = vOneOf("a.cf", "", "csv")
		p2.CollectionFormat = vOneOf("b.cf", "", "csv")
		// default / example: absent, present but empty, present
		switch vChoice("a.default", 3) {
		case 1:
			p1.Default = ""
		case 2:
			p1.Default = "d"
		}
		switch vChoice("b.default", 3) {
		case 1:
			p2.Default = ""
		case 2:
			p2.Default = "d"
		}
		switch vChoice("a.example", 3) {
		case 1:
			p1.Example = []interface{}{}
		case 2:
			p1.Example = "e"
		}
		switch vChoice("b.example", 3) {
		case 1:
			p2.Example = []interface{}{}
		case 2:
			p2.Example = "e"
		}
		if vKnown("C14-D8", vAnd(vNot(vStrEq(p1.Description, p2.Description)), vAnd(vNot(vStrEq(p1.Description, "")), vNot(vStrEq(p2.Description, ""))))) {
			return
		}
	}
	vCover("built")
	ab, _ := Compare(vSpecWithParams(p1), vSpecWithParams(p2))
	ba, _ := Compare(vSpecWithParams(p2), vSpecWithParams(p1))
	vCheckMirror(ab, ba)
}

func VerifC14MirrorSchema() {
	t := vChoice("template", vNumTemplates)
	e := vChoice("edit", vNumEdits)
	focus := 0
	if e == 0 {
		focus = vChoice("focus", 8)
	}
	bg := vBool2("background")
	rootA, defsA, rootB, defsB, ok := vPair(t, e, focus, bg)
	if !ok {
		vAssume(false)
	}
	vObserve("template", t)
	vObserve("edit", e)
	vObserve("focus", focus)
	vCover("built")
	ab, _ := Compare(vSpecBoth(rootA, defsA, 0), vSpecBoth(rootB, defsB, 0))
	ba, _ := Compare(vSpecBoth(rootB, defsB, 0), vSpecBoth(rootA, defsA, 0))
	vCheckMirror(ab, ba)
}

func vStrList(tag string) []string {
	switch vChoice(tag, 4) {
	case 0:
		return nil
	case 1:
		return []string{"application/json"}
	case 2:
		return []string{"application/xml"}
	}
	return []string{"application/json", "application/xml"}
}

// one aspect of the spec varies (independently on both sides), everything else is equal
func vMetaSpec(tag string, aspect int) *spec.Swagger {
	op := &spec.Operation{}
	op.Responses = &spec.Responses{}
	op.Responses.StatusCodeResponses = map[int]spec.Response{}
	r := spec.Response{}
	if aspect == 0 {
		r.Description = vOneOf(tag+".respdesc", "", "x")
		op.Description = vOneOf(tag+".opdesc", "", "x")
	}
	has200, has404 := true, false
	if aspect == 1 {
		has200, has404 = vBool2(tag+".has200"), vBool2(tag+".has404")
	}
	if has200 {
		op.Responses.StatusCodeResponses[200] = r
	}
	if has404 {
		op.Responses.StatusCodeResponses[404] = spec.Response{}
	}
	if aspect == 2 {
		op.Tags = vStrList(tag + ".tags")
	}
	// media types given for the operation (nil = the ones of the spec apply)
	if aspect == 10 {
		op.Consumes = vStrList(tag + ".op.consumes")
	}
	if aspect == 11 {
		op.Produces = vStrList(tag + ".op.produces")
	}
	sw := vSpecWithOp("/a", op)
	if aspect == 10 {
		sw.Consumes = vStrList(tag + ".consumes")
	}
	if aspect == 11 {
		sw.Produces = vStrList(tag + ".produces")
	}
	if aspect == 3 && vBool2(tag+".hasB") {
		pi := spec.PathItem{}
		pi.Get = &spec.Operation{}
		pi.Get.Deprecated = vBool2(tag + ".deprecated")
		pi.Get.Responses = &spec.Responses{}
		sw.Paths.Paths["/b"] = pi
	}
	switch aspect {
	case 4:
		sw.Consumes = vStrList(tag + ".consumes")
	case 5:
		sw.Produces = vStrList(tag + ".produces")
	case 6:
		sw.Schemes = vStrList(tag + ".schemes")
	case 7:
		if vBool2(tag + ".ext") {
			sw.Extensions = spec.Extensions{"x-a": vOneOf(tag+".extval", "1", "2")}
		}
		if vBool2(tag + ".opext") {
			op.Extensions = spec.Extensions{"x-b": "1"}
		}
	case 9: // path-level extension, a second method on the same path
		pi := sw.Paths.Paths["/a"]
		if vBool2(tag + ".pathext") {
			pi.Extensions = spec.Extensions{"x-p": "1"}
		}
		if vBool2(tag + ".hasPost") {
			pi.Post = &spec.Operation{}
			pi.Post.Responses = &spec.Responses{}
		}
		if vBool2(tag + ".hasPut") {
			pi.Put = &spec.Operation{}
			pi.Put.Responses = &spec.Responses{}
		}
		sw.Paths.Paths["/a"] = pi
	case 8:
		if vBool2(tag + ".defX") {
			sw.Definitions = spec.Definitions{"X": *vLeaf(vkStr).build()}
		}
	}
	return sw
}

func VerifC14MirrorMeta() {
	aspect := vChoice("aspect", 12)
	if vParam("mapsites") > 0 {
		vMapOrderSite(vChoice("mapsite", vParam("mapsites")+1) - 1)
	}
	a, b := vMetaSpec("a", aspect), vMetaSpec("b", aspect)
	vObserve("aspect", aspect)
	vCover("built")
	ab, _ := Compare(a, b)
	ba, _ := Compare(b, a)
	vCheckMirror(ab, ba)
}

func init() {
	vRegister("VerifC14MirrorArrayParam", VerifC14MirrorArrayParam)
	vRegister("VerifC14MirrorHeader", VerifC14MirrorHeader)
}

func VerifC14MirrorArrayParam() {
	a, b := vMakeArrDef("a"), vMakeArrDef("b")
	vCover("built")
	ab, _ := Compare(vSpecWithParams(a.param()), vSpecWithParams(b.param()))
	ba, _ := Compare(vSpecWithParams(b.param()), vSpecWithParams(a.param()))
	vCheckMirror(ab, ba)
}

// response headers: present/absent on each side, numeric bound on each side
func VerifC14MirrorHeader() {
	mk := func(tag string) *spec.Swagger {
		op := &spec.Operation{}
		op.Responses = &spec.Responses{}
		r := spec.Response{}
		r.Description = "ok"
		if vBool2(tag + ".hasHeader") {
			h := spec.Header{}
			h.Type = "integer"
			mx := vF64(tag + ".max")
			h.Maximum = vMaybeNil(vBool(tag+".noMax"), &mx)
			name := []string{"X-Rate", "x-rate"}[vChoice(tag+".headerName", 2)]
			r.Headers = map[string]spec.Header{name: h}
			if vBool2(tag + ".secondHeader") {
				r.Headers["X-Other"] = h
			}
		}
		op.Responses.StatusCodeResponses = map[int]spec.Response{200: r}
		return vSpecWithOp("/a", op)
	}
	a, b := mk("a"), mk("b")
	vCover("built")
	ab, _ := Compare(a, b)
	ba, _ := Compare(b, a)
	vCheckMirror(ab, ba)
}

func init() { vRegister("VerifC14DiffsTo", VerifC14DiffsTo) }

// C14 at the list differ behind tags, consumes/produces/schemes and enum values: what is added
// going from one list to the other is what is deleted going back (as sets; a list may hold the
// same text twice - enum values are compared by their printed text, "2" and 2 print alike), and
// the common part is the same both ways.
func VerifC14DiffsTo() {
	pick := func(tag string) []string {
		n := vChoice(tag+".len", 4)
		if n == 0 && vBool2(tag+".nil") {
			return nil
		}
		out := []string{}
		for i := 0; i < n; i++ {
			out = append(out, []string{"a", "b"}[vChoice(tag+".item", 2)])
		}
		return out
	}
	set := func(l []string) [2]bool {
		var s [2]bool
		for _, w := range l {
			s[int(w[0]-'a')] = true
		}
		return s
	}
	from, to := pick("from"), pick("to")
	ad1, de1, co1 := fromStringArray(from).DiffsTo(to)
	ad2, de2, co2 := fromStringArray(to).DiffsTo(from)
	vCover("compared")
	vAssert(set(ad1) == set(de2), "entries added one way are not the entries deleted the other way")
	vAssert(set(de1) == set(ad2), "entries deleted one way are not the entries added the other way")
	vAssert(set(co1) == set(co2), "the common entries differ between the two directions")
	// and they are what the two lists say
	sf, st := set(from), set(to)
	for i := 0; i < 2; i++ {
		vAssert(set(ad1)[i] == (st[i] && !sf[i]), "an entry is reported as added although the old list has it (or not reported although it is new)")
		vAssert(set(de1)[i] == (sf[i] && !st[i]), "an entry is reported as deleted although the new list has it (or not reported although it is gone)")
	}
}
