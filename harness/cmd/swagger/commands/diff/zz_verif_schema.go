//go:build verif

package diff

// A bounded family of body/response schemas described by small descriptor trees.
// The descriptor is what the reference semantics (accepts) is defined on; build()
// turns it into the spec.Schema handed to the real code.

import (
	"github.com/go-openapi/spec"
)

const (
	vkStr = iota
	vkInt
	vkObj
	vkArr
	vkRef
	vkAllOf   // allOf [ $ref ] plus own properties
	vkUntyped // no type at all
	vkTuple   // array whose items is a list of schemas
)

type vProp struct {
	name     string
	node     *vNode
	required bool
}

type vNode struct {
	kind int
	// leaves
	hasMax, hasMin bool
	max, min       float64
	hasMaxL        bool
	maxL           int64
	enumN          int // string leaf: enum {"a"} or {"a","b"}
	// object / allOf
	props []vProp
	// array
	items            *vNode
	hasMaxI, hasMinI bool
	maxI, minI       int64
	// ref / allOf
	ref  string
	desc string
	// tuple
	tuple []*vNode
}

type vDefs map[string]*vNode

// fresh symbolic constraint values for every leaf/array/required flag of the tree
func vSymbolize(n *vNode, tag string) {
	if n == nil {
		return
	}
	switch n.kind {
	case vkInt:
		n.hasMax, n.hasMin = vBool(tag+".hasMax"), vBool(tag+".hasMin")
		n.max, n.min = vF64(tag+".max"), vF64(tag+".min")
	case vkStr:
		n.hasMaxL = vBool(tag + ".hasMaxLen")
		n.maxL = vI64(tag + ".maxLen")
		vAssume(n.maxL >= 0)
	case vkObj, vkAllOf:
		for i := range n.props {
			n.props[i].required = vBool(tag + "." + n.props[i].name + ".required")
			vSymbolize(n.props[i].node, tag+"."+n.props[i].name)
		}
	case vkArr:
		n.hasMaxI, n.hasMinI = vBool(tag+".hasMaxItems"), vBool(tag+".hasMinItems")
		n.maxI, n.minI = vI64(tag+".maxItems"), vI64(tag+".minItems")
		vAssume(vAnd(n.maxI >= 0, n.minI >= 0))
		vSymbolize(n.items, tag+"[]")
	}
}

func vCopyNode(n *vNode) *vNode {
	if n == nil {
		return nil
	}
	c := *n
	c.props = nil
	for _, p := range n.props {
		c.props = append(c.props, vProp{p.name, vCopyNode(p.node), p.required})
	}
	c.items = vCopyNode(n.items)
	return &c
}

func vCopyDefs(d vDefs, names []string) vDefs {
	out := vDefs{}
	for _, k := range names {
		if n, ok := d[k]; ok {
			out[k] = vCopyNode(n)
		}
	}
	return out
}

func (n *vNode) build() *spec.Schema {
	s := &spec.Schema{}
	s.Description = n.desc
	switch n.kind {
	case vkStr:
		s.Type = spec.StringOrArray{"string"}
		mx := n.maxL
		s.MaxLength = vMaybeNil(!n.hasMaxL, &mx)
		if n.enumN >= 1 {
			s.Enum = append(s.Enum, "a")
		}
		if n.enumN >= 2 {
			s.Enum = append(s.Enum, "b")
		}
	case vkInt:
		s.Type = spec.StringOrArray{"integer"}
		mx, mn := n.max, n.min
		s.Maximum = vMaybeNil(!n.hasMax, &mx)
		s.Minimum = vMaybeNil(!n.hasMin, &mn)
	case vkObj:
		s.Type = spec.StringOrArray{"object"}
		n.buildProps(s)
	case vkArr:
		s.Type = spec.StringOrArray{"array"}
		if n.items != nil {
			s.Items = &spec.SchemaOrArray{Schema: n.items.build()}
		}
		mx, mn := n.maxI, n.minI
		s.MaxItems = vMaybeNil(!n.hasMaxI, &mx)
		s.MinItems = vMaybeNil(!n.hasMinI, &mn)
	case vkRef:
		s.Ref = spec.MustCreateRef("#/definitions/" + n.ref)
	case vkAllOf:
		s.AllOf = []spec.Schema{*spec.RefSchema("#/definitions/" + n.ref)}
		n.buildProps(s)
	case vkUntyped:
		n.buildProps(s)
	case vkTuple:
		s.Type = spec.StringOrArray{"array"}
		s.Items = &spec.SchemaOrArray{}
		for _, t := range n.tuple {
			s.Items.Schemas = append(s.Items.Schemas, *t.build())
		}
	}
	return s
}

func (n *vNode) buildProps(s *spec.Schema) {
	if len(n.props) > 0 {
		s.Properties = map[string]spec.Schema{}
	}
	for _, p := range n.props {
		s.Properties[p.name] = *p.node.build()
	}
	// required list: a property is listed iff its (symbolic) flag is set. The list shape
	// must stay concrete, so the fork is on the flag.
	for _, p := range n.props {
		if p.required {
			s.Required = append(s.Required, p.name)
		}
	}
}

func (d vDefs) build(names []string) spec.Definitions {
	out := spec.Definitions{}
	for _, k := range names {
		if n, ok := d[k]; ok {
			out[k] = *n.build()
		}
	}
	return out
}

// ---- witness values -----------------------------------------------------------------

type vVal struct {
	kind    int // vkStr, vkInt, vkObj, vkArr
	strLen  int64
	word    int // 0:"a" 1:"b" 2:other
	intVal  float64
	present []bool // per child
	names   []string
	child   []*vVal
	n       int64
	item    *vVal
}

// a JSON value shaped after node n (refs resolved through defs, bounded by fuel)
func vWitnessFor(n *vNode, defs vDefs, tag string, fuel int) *vVal {
	if n == nil || fuel == 0 {
		return nil
	}
	switch n.kind {
	case vkStr:
		v := &vVal{kind: vkStr, strLen: vI64(tag + ".len"), word: vInt(tag+".word", 0, 2)}
		vAssume(v.strLen >= 0)
		return v
	case vkInt:
		v := &vVal{kind: vkInt, intVal: vF64(tag + ".value")}
		vAssume(vIsIntegral(v.intVal))
		return v
	case vkObj, vkAllOf:
		v := &vVal{kind: vkObj}
		all := vAllProps(n, defs, fuel)
		for _, p := range all {
			c := vWitnessFor(p.node, defs, tag+"."+p.name, fuel-1)
			v.names = append(v.names, p.name)
			v.child = append(v.child, c)
			if c == nil {
				v.present = append(v.present, false)
			} else {
				v.present = append(v.present, vBool(tag+"."+p.name+".present"))
			}
		}
		return v
	case vkArr:
		v := &vVal{kind: vkArr, n: vI64(tag + ".count")}
		vAssume(v.n >= 0)
		v.item = vWitnessFor(n.items, defs, tag+"[]", fuel-1)
		if v.item == nil {
			vAssume(v.n == 0)
		}
		return v
	case vkRef:
		t, ok := defs[n.ref]
		if !ok {
			return nil
		}
		return vWitnessFor(t, defs, tag, fuel-1)
	}
	return nil
}

// properties of an object node including those inherited through allOf
func vAllProps(n *vNode, defs vDefs, fuel int) []vProp {
	if n == nil || fuel == 0 {
		return nil
	}
	switch n.kind {
	case vkObj:
		return n.props
	case vkAllOf:
		var out []vProp
		if t, ok := defs[n.ref]; ok {
			out = append(out, vAllProps(t, defs, fuel-1)...)
		}
		return append(out, n.props...)
	case vkRef:
		if t, ok := defs[n.ref]; ok {
			return vAllProps(t, defs, fuel-1)
		}
	}
	return nil
}

// reference semantics: does schema node n (with defs) accept JSON value v?
// fuel bounds $ref unfolding; when it runs out the sub-value is accepted (the
// witness generator never goes deeper than the same fuel).
func vAccepts(n *vNode, defs vDefs, v *vVal, fuel int) bool {
	if n == nil || v == nil || fuel == 0 {
		return true
	}
	switch n.kind {
	case vkUntyped:
		return true
	case vkStr:
		if v.kind != vkStr {
			return false
		}
		ok := vOr(!n.hasMaxL, v.strLen <= n.maxL)
		if n.enumN == 1 {
			ok = vAnd(ok, v.word == 0)
		}
		if n.enumN == 2 {
			ok = vAnd(ok, v.word <= 1)
		}
		return ok
	case vkInt:
		if v.kind != vkInt {
			return false
		}
		ok := vOr(!n.hasMax, v.intVal <= n.max)
		return vAnd(ok, vOr(!n.hasMin, v.intVal >= n.min))
	case vkRef:
		t, ok := defs[n.ref]
		if !ok {
			return true
		}
		return vAccepts(t, defs, v, fuel-1)
	case vkArr:
		if v.kind != vkArr {
			return false
		}
		ok := vOr(!n.hasMaxI, v.n <= n.maxI)
		ok = vAnd(ok, vOr(!n.hasMinI, v.n >= n.minI))
		if n.items != nil && v.item != nil {
			ok = vAnd(ok, vOr(v.n == 0, vAccepts(n.items, defs, v.item, fuel-1)))
		}
		return ok
	case vkObj, vkAllOf:
		if v.kind != vkObj {
			return false
		}
		ok := true
		for _, p := range vAllProps(n, defs, fuel) {
			idx := -1
			for i, nm := range v.names {
				if nm == p.name {
					idx = i
				}
			}
			if idx < 0 {
				// the value has no such member
				ok = vAnd(ok, !p.required)
				continue
			}
			ok = vAnd(ok, vOr(!p.required, v.present[idx]))
			ok = vAnd(ok, vOr(!v.present[idx], vAccepts(p.node, defs, v.child[idx], fuel-1)))
		}
		return ok
	}
	return true
}

// ---- templates ----------------------------------------------------------------------

func vLeaf(k int) *vNode { return &vNode{kind: k} }

var vDefNames = []string{"X", "Y"}

// body schema templates; returns root and definitions
func vTemplate(t int) (*vNode, vDefs) {
	obj := func(ps ...vProp) *vNode { return &vNode{kind: vkObj, props: ps} }
	p := func(name string, n *vNode) vProp { return vProp{name: name, node: n} }
	ref := func(name string) *vNode { return &vNode{kind: vkRef, ref: name} }
	switch t {
	case 0: // inline object with two leaves
		return obj(p("p", vLeaf(vkInt)), p("q", vLeaf(vkStr))), vDefs{}
	case 1: // $ref to object
		return ref("X"), vDefs{"X": obj(p("p", vLeaf(vkInt)), p("q", vLeaf(vkStr)))}
	case 2: // property is a $ref
		return obj(p("p", ref("X"))), vDefs{"X": obj(p("q", vLeaf(vkStr)))}
	case 3: // array of inline objects
		return &vNode{kind: vkArr, items: obj(p("p", vLeaf(vkInt)))}, vDefs{}
	case 4: // $ref -> property -> $ref (nested)
		return ref("X"), vDefs{"X": obj(p("p", ref("Y"))), "Y": obj(p("q", vLeaf(vkInt)))}
	case 5: // allOf [$ref X] + own property
		return &vNode{kind: vkAllOf, ref: "X", props: []vProp{p("q", vLeaf(vkStr))}}, vDefs{"X": obj(p("p", vLeaf(vkInt)))}
	case 6: // self-referential definition through array items
		return ref("X"), vDefs{"X": obj(p("p", &vNode{kind: vkArr, items: ref("X")}), p("q", vLeaf(vkInt)))}
	case 7: // array of $ref, nested array item constraint
		return &vNode{kind: vkArr, items: ref("X")}, vDefs{"X": obj(p("q", vLeaf(vkInt)))}
	case 8: // direct self reference through a property
		return ref("X"), vDefs{"X": obj(p("p", ref("X")), p("q", vLeaf(vkStr)))}
	case 9: // mutual recursion X <-> Y
		return ref("X"), vDefs{"X": obj(p("p", ref("Y"))), "Y": obj(p("p", ref("X")), p("q", vLeaf(vkInt)))}
	default: // inline object next to a definition nothing refers to (yet)
		return obj(p("p", vLeaf(vkInt))), vDefs{"X": obj(p("q", vLeaf(vkStr)))}
	}
}

const vNumTemplates = 11

// first object node reachable from the root (through refs / array items), in the given defs
func vFirstObj(n *vNode, defs vDefs, fuel int) *vNode {
	if n == nil || fuel == 0 {
		return nil
	}
	switch n.kind {
	case vkObj, vkAllOf:
		return n
	case vkRef:
		return vFirstObj(defs[n.ref], defs, fuel-1)
	case vkArr:
		return vFirstObj(n.items, defs, fuel-1)
	}
	return nil
}

// deepest object node following first properties
func vDeepObj(n *vNode, defs vDefs, fuel int) *vNode {
	o := vFirstObj(n, defs, fuel)
	if o == nil || fuel <= 1 {
		return o
	}
	for _, p := range o.props {
		if d := vDeepObj(p.node, defs, fuel-1); d != nil && d != o {
			return d
		}
	}
	return o
}

// structural edits applied to the NEW side; returns false when not applicable
func vApplyEdit(e int, root *vNode, defs vDefs) bool {
	switch e {
	case 0: // none
		return true
	case 1: // delete the first property of the first object
		o := vFirstObj(root, defs, 4)
		if o == nil || len(o.props) == 0 {
			return false
		}
		o.props = o.props[1:]
		return true
	case 2: // add a property r (required-ness symbolic) to the first object
		o := vFirstObj(root, defs, 4)
		if o == nil {
			return false
		}
		o.props = append(o.props, vProp{name: "r", node: vLeaf(vkStr)})
		return true
	case 3: // change the type of the deepest object's last property (int <-> string)
		o := vDeepObj(root, defs, 4)
		if o == nil || len(o.props) == 0 {
			return false
		}
		l := o.props[len(o.props)-1].node
		if l.kind == vkInt {
			*l = vNode{kind: vkStr}
		} else if l.kind == vkStr {
			*l = vNode{kind: vkInt}
		} else {
			return false
		}
		return true
	case 4: // add a required property to the deepest object
		o := vDeepObj(root, defs, 4)
		if o == nil {
			return false
		}
		o.props = append(o.props, vProp{name: "r", node: vLeaf(vkInt)})
		return true
	case 5: // delete the last property of the deepest object
		o := vDeepObj(root, defs, 4)
		if o == nil || len(o.props) == 0 {
			return false
		}
		o.props = o.props[:len(o.props)-1]
		return true
	case 6: // string leaf of the deepest object gains an enum
		o := vDeepObj(root, defs, 4)
		if o == nil {
			return false
		}
		for _, p := range o.props {
			if p.node.kind == vkStr {
				p.node.enumN = 1
				return true
			}
		}
		return false
	case 7: // add a required property to definition X
		o, ok := defs["X"]
		if !ok || (o.kind != vkObj && o.kind != vkAllOf) {
			return false
		}
		o.props = append(o.props, vProp{name: "r", node: vLeaf(vkInt)})
		return true
	case 8: // delete the first property of definition X
		o, ok := defs["X"]
		if !ok || len(o.props) == 0 {
			return false
		}
		o.props = o.props[1:]
		return true
	case 9: // replace the root $ref by the inlined definition
		if root.kind != vkRef {
			return false
		}
		t, ok := defs[root.ref]
		if !ok {
			return false
		}
		*root = *vCopyNode(t)
		return true
	case 10: // the inline root object becomes a composition over definition X, and X gains a property
		x, ok := defs["X"]
		if !ok || root.kind != vkObj || x.kind != vkObj {
			return false
		}
		own := root.props
		*root = vNode{kind: vkAllOf, ref: "X", props: own}
		x.props = append(x.props, vProp{name: "r", node: vLeaf(vkInt)})
		return true
	}
	return false
}

const vNumEdits = 11

func vBodyParam(s *spec.Schema) spec.Parameter {
	p := spec.Parameter{}
	p.Name = "body"
	p.In = "body"
	p.Required = true
	p.Schema = s
	return p
}

func vSpecWithBody(root *vNode, defs vDefs) *spec.Swagger {
	sw := vSpecWithParams(vBodyParam(root.build()))
	sw.Definitions = defs.build(vDefNames)
	return sw
}

func vSpecWithResponse(root *vNode, defs vDefs) *spec.Swagger {
	op := &spec.Operation{}
	op.Responses = &spec.Responses{}
	r := spec.Response{}
	r.Description = "ok"
	r.Schema = root.build()
	op.Responses.StatusCodeResponses = map[int]spec.Response{200: r}
	sw := vSpecWithOp("/a", op)
	sw.Definitions = defs.build(vDefNames)
	return sw
}

// ---- focus/background symbolisation --------------------------------------------------
// To keep the number of paths linear in the size of the schema, one run makes ONE slot
// (a leaf's constraint group, an array's item counts, or one property's required flag)
// independently symbolic on the old and the new side; every other slot has the same
// (symbolic, shared) values on both sides, with presence fixed by the background choice.

type vSlot struct {
	node *vNode
	prop int // >=0: required flag of node.props[prop]
}

func vSlotsOf(n *vNode, out []vSlot) []vSlot {
	if n == nil {
		return out
	}
	switch n.kind {
	case vkInt, vkStr:
		out = append(out, vSlot{n, -1})
	case vkArr:
		out = append(out, vSlot{n, -1})
		out = vSlotsOf(n.items, out)
	case vkObj, vkAllOf:
		for i := range n.props {
			out = append(out, vSlot{n, i})
			out = vSlotsOf(n.props[i].node, out)
		}
	}
	return out
}

func vAllSlots(root *vNode, defs vDefs) []vSlot {
	out := vSlotsOf(root, nil)
	for _, k := range vDefNames {
		if n, ok := defs[k]; ok {
			out = vSlotsOf(n, out)
		}
	}
	return out
}

// background: shared symbolic values, presence decided by bg
func vBackground(root *vNode, defs vDefs, bg bool, tag string) {
	for i, sl := range vAllSlots(root, defs) {
		vFillSlot(sl, tag+".s"+string(rune('0'+i)), bg, false)
	}
}

// fill one slot with symbolic values; free=true also makes the presence flags symbolic
func vFillSlot(sl vSlot, tag string, present bool, free bool) {
	n := sl.node
	if sl.prop >= 0 {
		if free {
			n.props[sl.prop].required = vBool(tag + ".required")
		} else {
			n.props[sl.prop].required = present
		}
		return
	}
	switch n.kind {
	case vkInt:
		n.hasMax, n.hasMin = present, present
		if free {
			n.hasMax, n.hasMin = vBool(tag+".hasMax"), vBool(tag+".hasMin")
		}
		n.max, n.min = vF64(tag+".max"), vF64(tag+".min")
	case vkStr:
		n.hasMaxL = present
		if free {
			n.hasMaxL = vBool(tag + ".hasMaxLen")
		}
		n.maxL = vI64(tag + ".maxLen")
		vAssume(n.maxL >= 0)
	case vkArr:
		n.hasMaxI, n.hasMinI = present, present
		if free {
			n.hasMaxI, n.hasMinI = vBool(tag+".hasMaxItems"), vBool(tag+".hasMinItems")
		}
		n.maxI, n.minI = vI64(tag+".maxItems"), vI64(tag+".minItems")
		vAssume(vAnd(n.maxI >= 0, n.minI >= 0))
	}
}

// vPair builds the old and new descriptor trees for template t:
//
//	edit == 0: the slot numbered focus (if in range) is independently symbolic on both sides
//	edit  > 0: structural edit on the new side (new nodes get free symbolic slots)
func vPair(t, edit, focus int, bg bool) (*vNode, vDefs, *vNode, vDefs, bool) {
	return vPair2(t, edit, focus, -1, bg)
}

func vPair2(t, edit, focus, focus2 int, bg bool) (*vNode, vDefs, *vNode, vDefs, bool) {
	rootA, defsA := vTemplate(t)
	vBackground(rootA, defsA, bg, "base")
	rootB, defsB := vCopyNode(rootA), vCopyDefs(defsA, vDefNames)
	if edit > 0 {
		before := len(vAllSlots(rootB, defsB))
		if !vApplyEdit(edit, rootB, defsB) {
			return nil, nil, nil, nil, false
		}
		// slots of nodes created by the edit are free
		after := vAllSlots(rootB, defsB)
		_ = before
		for i, sl := range after {
			if sl.prop >= 0 && sl.node.props[sl.prop].name == "r" {
				vFillSlot(sl, "new.r", true, true)
				vFillSlot(after[i+1], "new.r.leaf", true, true)
			}
		}
		if edit == 3 { // retyped leaf: fresh constraints
			o := vDeepObj(rootB, defsB, 4)
			vFillSlot(vSlot{o.props[len(o.props)-1].node, -1}, "new.retyped", true, true)
		}
		return rootA, defsA, rootB, defsB, true
	}
	sa, sb := vAllSlots(rootA, defsA), vAllSlots(rootB, defsB)
	if focus >= len(sa) {
		return nil, nil, nil, nil, false
	}
	vFillSlot(sa[focus], "old.focus", true, true)
	vFillSlot(sb[focus], "new.focus", true, true)
	if focus2 >= 0 {
		if focus2 >= len(sa) || focus2 <= focus {
			return nil, nil, nil, nil, false
		}
		vFillSlot(sa[focus2], "old.focus2", true, true)
		vFillSlot(sb[focus2], "new.focus2", true, true)
	}
	return rootA, defsA, rootB, defsB, true
}
