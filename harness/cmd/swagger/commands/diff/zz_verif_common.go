//go:build verif

package diff

// Shared builders for symbolic specs and the reference acceptance semantics
// (DESIGN.md Appendix A.3).

import (
	"github.com/go-openapi/spec"
)

// ---- numeric definition --------------------------------------------------------

type vNumDef struct {
	typ, format    string // typ in {integer, number}
	hasMax, hasMin bool
	max, min       float64
	exMax, exMin   bool
	enumN          int    // 0..2 enum values
	enum           [2]int // indices into {1,2,3}
	required       bool
}

var vEnumNums = []float64{1, 2, 3}

func vNumType(tag string) (string, string) {
	if vParam("numtypes") == 1 {
		return "integer", "int32"
	}
	if vParam("numtypes") == 3 {
		switch vChoice(tag+".type", 3) {
		case 0:
			return "integer", "int32"
		case 1:
			return "integer", "int64"
		default:
			return "number", ""
		}
	}
	switch vChoice(tag+".type", 6) {
	case 0:
		return "integer", ""
	case 1:
		return "integer", "int32"
	case 2:
		return "integer", "int64"
	case 3:
		return "number", ""
	case 4:
		return "number", "float"
	default:
		return "number", "double"
	}
}

func vMakeNumDef(tag string, withEnum bool) vNumDef {
	d := vNumDef{}
	d.typ, d.format = vNumType(tag)
	d.hasMax, d.hasMin = vBool(tag+".hasMax"), vBool(tag+".hasMin")
	d.max, d.min = vF64(tag+".max"), vF64(tag+".min")
	d.exMax, d.exMin = vBool(tag+".exMax"), vBool(tag+".exMin")
	d.required = vBool(tag + ".required")
	if withEnum {
		d.enumN = vChoice(tag+".enumN", 3)
		for i := 0; i < d.enumN; i++ {
			d.enum[i] = vChoice(tag+".enum", 3)
		}
		if d.enumN == 2 {
			vAssume(d.enum[0] != d.enum[1])
		}
	}
	return d
}

func (d vNumDef) validations() spec.CommonValidations {
	cv := spec.CommonValidations{}
	mx, mn := d.max, d.min
	cv.Maximum = vMaybeNil(!d.hasMax, &mx)
	cv.Minimum = vMaybeNil(!d.hasMin, &mn)
	cv.ExclusiveMaximum = d.exMax
	cv.ExclusiveMinimum = d.exMin
	for i := 0; i < d.enumN; i++ {
		cv.Enum = append(cv.Enum, vEnumNums[d.enum[i]])
	}
	return cv
}

// in range of the numeric format (reference validator: int32/int64/float ranges; double and no format: all finite values)
func vInFormatRange(typ, format string, w float64) bool {
	if typ == "integer" && format == "" {
		format = "int64" // an unformatted integer is read as the widest integer the tool chain generates (int64)
	}
	switch format {
	case "int32":
		return vAnd(w >= -2147483648, w <= 2147483647)
	case "int64":
		return vAnd(w >= -9223372036854775808, w < 9223372036854775808)
	case "float":
		return vAnd(w >= -3.4028234663852886e+38, w <= 3.4028234663852886e+38)
	}
	return true
}

// accepts: does definition d accept the numeric request value w?
func (d vNumDef) accepts(w float64) bool {
	ok := vInFormatRange(d.typ, d.format, w)
	if d.typ == "integer" {
		ok = vAnd(ok, vIsIntegral(w))
	}
	ok = vAnd(ok, vOr(!d.hasMax, vOr(w < d.max, vAnd(!d.exMax, w == d.max))))
	ok = vAnd(ok, vOr(!d.hasMin, vOr(w > d.min, vAnd(!d.exMin, w == d.min))))
	if d.enumN > 0 {
		in := false
		for i := 0; i < d.enumN; i++ {
			in = vOr(in, w == vEnumNums[d.enum[i]])
		}
		ok = vAnd(ok, in)
	}
	return ok
}

func vQueryParam(name string, typ, format string, required bool, cv spec.CommonValidations) spec.Parameter {
	p := spec.Parameter{}
	p.Name = name
	p.In = "query"
	p.Required = required
	p.Type = typ
	p.Format = format
	p.CommonValidations = cv
	return p
}

// one GET /a endpoint whose operation carries the given parameters and a 200 response
func vSpecWithParams(params ...spec.Parameter) *spec.Swagger {
	op := &spec.Operation{}
	op.Parameters = params
	op.Responses = &spec.Responses{}
	op.Responses.StatusCodeResponses = map[int]spec.Response{200: {ResponseProps: spec.ResponseProps{Description: "ok"}}}
	return vSpecWithOp("/a", op)
}

func vSpecWithOp(path string, op *spec.Operation) *spec.Swagger {
	sw := &spec.Swagger{}
	sw.Swagger = "2.0"
	sw.Info = &spec.Info{}
	sw.Info.Title = "t"
	sw.Info.Version = "1"
	sw.Paths = &spec.Paths{Paths: map[string]spec.PathItem{}}
	pi := spec.PathItem{}
	pi.Get = op
	sw.Paths.Paths[path] = pi
	return sw
}

func vBreaking(diffs SpecDifferences) bool { return diffs.BreakingChangeCount() > 0 }

// ---- string definition ------------------------------------------------------------

type vStrDef struct {
	format           string // "", password, date
	hasMaxL, hasMinL bool
	maxL, minL       int64
	pattern          string // "", a, b
	enumN            int
	enum             [2]int // indices into vEnumWords
	required         bool
}

var vEnumWords = []string{"a", "b", "c"}

func vMakeStrDef(tag string, withFormat bool) vStrDef {
	d := vStrDef{}
	if withFormat {
		d.format = []string{"", "password", "date"}[vChoice(tag+".format", 3)]
	}
	d.hasMaxL, d.hasMinL = vBool(tag+".hasMaxLen"), vBool(tag+".hasMinLen")
	d.maxL, d.minL = vI64(tag+".maxLen"), vI64(tag+".minLen")
	vAssume(vAnd(d.maxL >= 0, d.minL >= 0))
	if vParam("nopattern") == 1 {
		d.pattern = ""
	} else {
		d.pattern = []string{"", "a", "b"}[vChoice(tag+".pattern", 3)]
	} // concrete per path: the pattern text ends up in report strings that get sorted
	d.required = vBool(tag + ".required")
	d.enumN = vChoice(tag+".enumN", 3)
	for i := 0; i < d.enumN; i++ {
		if vParam("enumsubsets") == 1 {
			d.enum[i] = vChoice(tag+".enum", 3)
		} else {
			d.enum[i] = i // quick tier: the enums are {}, {a}, {a,b}
		}
	}
	if d.enumN == 2 {
		vAssume(d.enum[0] != d.enum[1])
	}
	return d
}

func (d vStrDef) validations() spec.CommonValidations {
	cv := spec.CommonValidations{}
	mx, mn := d.maxL, d.minL
	cv.MaxLength = vMaybeNil(!d.hasMaxL, &mx)
	cv.MinLength = vMaybeNil(!d.hasMinL, &mn)
	cv.Pattern = d.pattern
	for i := 0; i < d.enumN; i++ {
		cv.Enum = append(cv.Enum, vEnumWords[d.enum[i]])
	}
	return cv
}

// abstract string request value: its length, which enum word it is (3 = none of them),
// whether it matches pattern "a" / "b", whether it is a well-formed date
type vStrWitness struct {
	length int64
	word   int
	mA, mB bool
	isDate bool
}

func vMakeStrWitness() vStrWitness {
	w := vStrWitness{}
	w.length = vI64("w.len")
	vAssume(w.length >= 0)
	w.word = vInt("w.word", 0, 3)
	w.mA, w.mB, w.isDate = vBool("w.matchesA"), vBool("w.matchesB"), vBool("w.isDate")
	return w
}

func (d vStrDef) accepts(w vStrWitness) bool {
	ok := vOr(!d.hasMaxL, w.length <= d.maxL)
	ok = vAnd(ok, vOr(!d.hasMinL, w.length >= d.minL))
	ok = vAnd(ok, vOr(vStrEq(d.pattern, ""), vOr(vAnd(vStrEq(d.pattern, "a"), w.mA), vAnd(vStrEq(d.pattern, "b"), w.mB))))
	if d.enumN > 0 {
		in := false
		for i := 0; i < d.enumN; i++ {
			in = vOr(in, w.word == d.enum[i])
		}
		ok = vAnd(ok, in)
	}
	if d.format == "date" {
		ok = vAnd(ok, w.isDate)
	}
	return ok
}
