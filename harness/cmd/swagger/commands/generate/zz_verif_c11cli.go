//go:build verif

package generate

import (
	"github.com/go-swagger/go-swagger/generator"
)

func init() {
	vRegister("VerifC11CLIOptions", VerifC11CLIOptions)
}

// the command with its generation step replaced: the options handed to the generator are kept
type vCaptureServer struct {
	Server
	got *generator.GenOpts
}

func (c *vCaptureServer) generate(o *generator.GenOpts) error {
	c.got = o
	return nil
}

// C11 (command line): whatever the flags, the options the generator finally receives are coherent:
// the plan frozen by EnsureDefaults protects the configure file exactly when the option the
// templates see (RegenerateConfigureAPI) says it must not be regenerated - for contributed
// template sets, which override options, as for plain runs.
func VerifC11CLIOptions() {
	c := &vCaptureServer{}
	c.Shared.Template = vOneOf("template", "", "stratoscale")
	c.RegenerateConfigureAPI = vBool("regenerate-configureapi")
	c.ExcludeMain = vBool("exclude-main")
	c.SkipModels = vBool("skip-models")
	c.SkipOperations = vBool("skip-operations")
	c.SkipSupport = vBool("skip-support")
	c.Shared.AllowTemplateOverride = vBool("allow-template-override")
	c.Shared.Target = "."
	c.Name = "app"
	err := createSwagger(c)
	vCover("options")
	vAssert(err == nil, "createSwagger fails before generating")
	if err != nil || c.got == nil {
		return
	}
	o := c.got
	n := 0
	for _, t := range o.Sections.Application {
		if t.Name == "configure" {
			n++
			vAssert(t.SkipExists == !o.RegenerateConfigureAPI, "the configure file's protection disagrees with the RegenerateConfigureAPI option the generator runs with")
		} else {
			vAssert(!t.SkipExists, "a template other than configure is skipped when its file exists")
		}
	}
	vObserve("configure", n)
	vAssert(n == 1, "the server command does not plan exactly one configure file")
	if c.Shared.Template == "" {
		vAssert(o.RegenerateConfigureAPI == c.RegenerateConfigureAPI, "the --regenerate-configureapi flag is not what the generator sees")
		vAssert(o.IncludeMain == !c.ExcludeMain, "the --exclude-main flag is not what the generator sees")
	}
}
