//go:build verif

package commands

import (
	"bytes"
	"encoding/json"
	"io"
	"os"
	"path/filepath"
	"strings"

	"github.com/go-openapi/spec"
	"github.com/go-swagger/go-swagger/cmd/swagger/commands/diff"
)

func init() {
	vRegister("VerifC15Execute", VerifC15Execute)
}

const vDiffCmd = "(*github.com/go-swagger/go-swagger/cmd/swagger/commands.DiffCommand)."

func vOp(params ...spec.Parameter) *spec.Operation {
	op := &spec.Operation{}
	op.Parameters = params
	op.Responses = &spec.Responses{}
	op.Responses.StatusCodeResponses = map[int]spec.Response{200: {ResponseProps: spec.ResponseProps{Description: "ok"}}}
	return op
}

func vQ(name string, required bool) spec.Parameter {
	p := spec.QueryParam(name)
	p.Type = "string"
	p.Required = required
	return *p
}

func vSpecOf(withB, withS, withQ bool) *spec.Swagger {
	sw := &spec.Swagger{}
	sw.Swagger = "2.0"
	sw.Info = &spec.Info{}
	sw.Info.Title, sw.Info.Version = "t", "1"
	sw.Paths = &spec.Paths{Paths: map[string]spec.PathItem{}}
	ps := []spec.Parameter{vQ("r", false)}
	if withQ {
		ps = append(ps, vQ("q", true))
	}
	if withS {
		ps = append(ps, vQ("s", false))
	}
	a := spec.PathItem{}
	a.Get = vOp(ps...)
	sw.Paths.Paths["/a"] = a
	if withB {
		b := spec.PathItem{}
		b.Get = vOp()
		sw.Paths.Paths["/b"] = b
	}
	return sw
}

// C15 (command): for every report format and the --break switch, with any subset of the reported
// differences put into the ignore file, `swagger diff` fails exactly when a difference that is
// not ignored is classified Breaking.
func VerifC15Execute() {
	dropB := vBool2("change.endpointDeleted")
	addS := vBool2("change.optionalParamAdded")
	dropQ := vBool2("change.requiredParamDeleted")
	addQ := vBool2("change.requiredParamAdded")
	vAssume(!(dropQ && addQ))
	s1 := vSpecOf(true, false, !addQ)
	s2 := vSpecOf(!dropB, addS, !dropQ)
	c := &DiffCommand{}
	c.OnlyBreakingChanges = vBool2("break")
	c.Format = vOneOf("format", "txt", "json")
	c.Args.OldSpec, c.Args.NewSpec = "old.json", "new.json"

	diffs, err := diff.Compare(s1, s2)
	vAssert(err == nil, "Compare fails")
	n := len(diffs)
	vObserve("differences", n)
	vAssume(n <= 4)
	ignored := make([]bool, n)
	ign := diff.SpecDifferences{}
	for i := 0; i < n; i++ {
		ignored[i] = vBool("ignore")
		if ignored[i] {
			ign = append(ign, diffs[i])
		}
	}
	// the destination may already hold an older, longer report
	const oldReport = "OLD REPORT: a long list of differences of a previous run ... END-OF-OLD-REPORT"
	stale := vBool2("destinationExists")
	var runErr error
	report := ""
	if vSymbolic() {
		vFSInit()
		vFSDir("/out")
		c.Destination = "/out/report"
		if stale {
			vFSFile("/out/report", oldReport)
		}
		c.IgnoreFile = "ignore.json"
		vStubReturn(vDiffCmd+"getDiffs", diffs, nil)
		vStubReturn(vDiffCmd+"readIgnores", ign, nil)
		// the JSON text itself is produced by encoding/json (reflection): canned
		vStubReturn("github.com/go-swagger/go-swagger/cmd/swagger/commands/diff.JSONMarshal", []byte("[]"), nil)
		vStubReturn("github.com/go-swagger/go-swagger/cmd/swagger/commands/diff.prettyprint", io.ReadWriter(&bytes.Buffer{}), nil)
		runErr = c.Execute(nil)
		report, _ = vFSRead("/out/report")
	} else {
		dir, derr := os.MkdirTemp("", "verifc15")
		if derr != nil {
			panic(derr)
		}
		defer os.RemoveAll(dir)
		w := func(name string, v interface{}) string {
			b, merr := json.Marshal(v)
			if merr != nil {
				panic(merr)
			}
			p := filepath.Join(dir, name)
			if werr := os.WriteFile(p, b, 0o600); werr != nil {
				panic(werr)
			}
			return p
		}
		c.Args.OldSpec, c.Args.NewSpec = w("old.json", s1), w("new.json", s2)
		c.IgnoreFile = w("ignore.json", ign)
		c.Destination = filepath.Join(dir, "report")
		if stale {
			_ = os.WriteFile(c.Destination, []byte(oldReport), 0o600)
		}
		runErr = c.Execute(nil)
		b, _ := os.ReadFile(c.Destination)
		report = string(b)
	}
	vAssert(!strings.Contains(report, "END-OF-OLD-REPORT"), "the report file still holds the tail of an older report")
	vCover("executed")
	want := false
	for i := 0; i < n; i++ {
		want = vOr(want, vAnd(!ignored[i], diffs[i].Compatibility == diff.Breaking))
	}
	if vKnown("C15-D13", vAnd(c.Format == "json", want)) {
		return // known: with -f json the command exits 0 whatever it found
	}
	vAssert((runErr != nil) == want, "the exit status is not 'failure exactly when a non-ignored difference is Breaking'")
}
