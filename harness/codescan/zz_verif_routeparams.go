//go:build verif

package codescan

// C17 (inline parameters of swagger:route): every "+ name:" entry of the Parameters: section becomes
// one parameter that carries exactly the keywords written under it - type, enum, default, format,
// bounds - and nothing of its neighbours.

import (
	"strings"

	"github.com/go-openapi/spec"
)

func init() { vRegister("VerifC17RouteParams", VerifC17RouteParams) }

type vInlineParam struct {
	name                             string
	integer                          bool
	enum, def, format, min, required bool
}

func (p vInlineParam) lines() []string {
	typ := "string"
	if p.integer {
		typ = "integer"
	}
	out := []string{"+ name: " + p.name, "  in: query", "  type: " + typ}
	if p.required {
		out = append(out, "  required: true")
	}
	if p.enum {
		if p.integer {
			out = append(out, "  enum: 1,2")
		} else {
			out = append(out, "  enum: asc,desc")
		}
	}
	if p.def {
		if p.integer {
			out = append(out, "  default: 1")
		} else {
			out = append(out, "  default: asc")
		}
	}
	if p.format {
		if p.integer {
			out = append(out, "  format: int32")
		} else {
			out = append(out, "  format: word")
		}
	}
	if p.min {
		out = append(out, "  min: 3")
	}
	return out
}

func vDrawInline(name string) vInlineParam {
	return vInlineParam{name: name, integer: vBool(name + ".integer"), enum: vBool(name + ".enum"), def: vBool(name + ".default"),
		format: vBool(name + ".format"), min: name != "sort" && vBool(name+".min"), required: name == "sort" && vBool(name+".required")}
}

func VerifC17RouteParams() {
	// ten symbolic flags: the first entry never has a bound, the second is never required
	a, b := vDrawInline("sort"), vDrawInline("limit")
	ps := []vInlineParam{a, b}
	if vBool2("third") {
		ps = append(ps, vInlineParam{name: "plain"})
	}
	var lines []string
	for _, p := range ps {
		lines = append(lines, p.lines()...)
	}
	var got []*spec.Parameter
	err := newSetParams(nil, func(r []*spec.Parameter) { got = r }).Parse(lines)
	vCover("parsed")
	vAssert(err == nil, "the inline parameters of a route are refused")
	if err != nil {
		return
	}
	vAssert(len(got) == len(ps), "the number of parameters is not the number of entries: "+strings.Join(lines, "|"))
	if len(got) != len(ps) {
		return
	}
	for i, p := range ps {
		g := got[i]
		vAssert(g.Name == p.name && g.In == "query", "an inline parameter lost its name or location")
		wantType := "string"
		if p.integer {
			wantType = "integer"
		}
		vAssert(g.Type == wantType, "an inline parameter has another type than written")
		vAssert(g.Required == p.required, "an inline parameter has another required flag than written")
		vAssert((len(g.Enum) == 2) == p.enum && (len(g.Enum) == 0) == !p.enum, "an inline parameter has an enum that is not written under it (or lost its own)")
		if p.enum && len(g.Enum) == 2 {
			if p.integer {
				vAssert(g.Enum[0] == 1.0 && g.Enum[1] == 2.0, "enum values of an integer parameter are not its own")
			} else {
				vAssert(g.Enum[0] == "asc" && g.Enum[1] == "desc", "enum values of a string parameter are not its own")
			}
		}
		if p.def {
			if p.integer {
				vAssert(g.Default == 1.0, "the default of an integer parameter is not its own")
			} else {
				vAssert(g.Default == "asc", "the default of a string parameter is not its own")
			}
		} else {
			vAssert(g.Default == nil, "an inline parameter has a default that is not written under it")
		}
		wantFormat := ""
		if p.format {
			wantFormat = "word"
			if p.integer {
				wantFormat = "int32"
			}
		}
		vAssert(g.Format == wantFormat, "an inline parameter has a format that is not written under it (or lost its own)")
		vAssert((g.Minimum != nil) == (p.min && p.integer), "an inline parameter has a minimum that is not written under it (or an integer one lost its own)")
	}
}
