//go:build verif

package codescan

import (
	"go/ast"

	"github.com/go-openapi/spec"
)

func init() {
	vRegister("VerifC17Responses", VerifC17Responses)
	vRegister("VerifC17ResponseLinesNoCrash", VerifC17ResponseLinesNoCrash)
	vRegister("VerifC17SectionsNoCrash", VerifC17SectionsNoCrash)
}

// C17 (faithfulness of the Responses: section of swagger:route): every "code: target" line yields a response for
// that code which points at the declared target - "response:X"/bare X at #/responses/X when such a response exists,
// "body:X" (or a bare name that is only a model) at #/definitions/X
func VerifC17Responses() {
	hasModel, hasResp := vBool2("modelXExists"), vBool2("responseXExists")
	defs := map[string]spec.Schema{}
	resps := map[string]spec.Response{}
	if hasModel {
		defs["X"] = spec.Schema{}
	}
	if hasResp {
		resps["X"] = spec.Response{}
	}
	form := vChoice("form", 5)
	target := []string{"X", "response:X", "body:X", "body:[]X", "response:X the description"}[form]
	key := []string{"200", "404", "default"}[vChoice("code", 3)]
	var gotDef *spec.Response
	var gotCodes map[int]spec.Response
	p := newSetResponses(defs, resps, func(d *spec.Response, m map[int]spec.Response) { gotDef, gotCodes = d, m })
	err := p.Parse([]string{key + ": " + target})
	vCover("parsed")
	vAssert(err == nil, "a documented response line is rejected")
	var r *spec.Response
	if key == "default" {
		r = gotDef
	} else {
		code := 200
		if key == "404" {
			code = 404
		}
		if v, ok := gotCodes[code]; ok {
			r = &v
		}
	}
	vAssert(r != nil, "the declared status code has no response")
	if r == nil {
		return
	}
	respRef := r.Ref.String()
	schemaRef := ""
	if r.Schema != nil {
		s := r.Schema
		for s.Items != nil && s.Items.Schema != nil {
			s = s.Items.Schema
		}
		schemaRef = s.Ref.String()
	}
	vObserve("respRef", respRef)
	vObserve("schemaRef", schemaRef)
	switch form {
	case 2, 3:
		vAssert(schemaRef == "#/definitions/X" && respRef == "", "body:X does not refer to the model X")
	case 1, 4:
		if hasResp {
			vAssert(respRef == "#/responses/X" && schemaRef == "", "response:X does not refer to the declared response X")
		}
	default:
		if hasResp {
			vAssert(respRef == "#/responses/X" && schemaRef == "", "a name that is a declared response does not refer to it")
		} else if hasModel {
			vAssert(schemaRef == "#/definitions/X", "a name that is only a model does not refer to it")
		}
	}
}

func vCommentText(name string, n int) string {
	s := vBytesN(name, n)
	for i := 0; i < len(s); i++ {
		c := s[i]
		vAssume(vOr(vOr(vOr(c == ' ', c == ':'), vOr(c == '[', c == ']')), vOr(vOr(c == 'a', c == '2'), vOr(c == '-', c == '\t'))))
	}
	return s
}

// C17 (no crash): arbitrary text in the Responses: section
func VerifC17ResponseLinesNoCrash() {
	n := vParam("len")
	l1 := vCommentText("line1", n)
	l2 := vCommentText("line2", vParam("len2"))
	p := newSetResponses(map[string]spec.Schema{}, map[string]spec.Response{}, func(d *spec.Response, m map[int]spec.Response) {})
	_ = p.Parse([]string{l1, l2})
	vCover("parsed")
	_, _, _, _, _ = parseTags(l1)
}

// C17 (no crash): a comment group with arbitrary short lines run through a sectioned parser configured with
// single-line and multi-line taggers the way the route/parameter builders do
func VerifC17SectionsNoCrash() {
	n := vParam("len")
	var list []*ast.Comment
	for i := 0; i < vParam("lines"); i++ {
		list = append(list, &ast.Comment{Text: "// " + vCommentText("line", n)})
	}
	sp := new(sectionedParser)
	sp.setTitle = func([]string) {}
	sp.setDescription = func([]string) {}
	var schemes []string
	sp.taggers = []tagParser{
		newSingleLineTagParser("maxLength", &setMaxLength{nil, rxf(rxMaxLengthFmt, "")}),
		newMultiLineTagParser("Schemes", newSetSchemes(func(s []string) { schemes = s }), false),
		newMultiLineTagParser("Consumes", newMultilineDropEmptyParser(rxConsumes, func([]string) {}), false),
	}
	_ = sp.Parse(&ast.CommentGroup{List: list})
	vCover("parsed")
	vObserve("nschemes", len(schemes))
	vObserve("ntitle", len(sp.Title()))
	vObserve("ndesc", len(sp.Description()))
}

func init() { vRegister("VerifC17ExtensionsNoCrash", VerifC17ExtensionsNoCrash) }

// C17 (no crash): the Extensions: section of a route. On the pinned tree this parser panics on ordinary text
// (known finding C17-S1, class = any non-trivial block); the harness replays the recorded witness and reports
// again should the parser be repaired and then regress.
func VerifC17ExtensionsNoCrash() {
	lines := []string{[]string{"x-a: 1", " - b", "x-a:", ""}[vChoice("l1", 4)], []string{"  k: v", " - c", "/*+", "x-b: 2"}[vChoice("l2", 4)]}
	if vKnown("C17-S1", true) {
		return
	}
	p := newSetExtensions(func(*spec.Extensions) {})
	_ = p.Parse(lines)
	vCover("parsed")
}

func init() { vRegister("VerifC17ItemsLevels", VerifC17ItemsLevels) }

// C17 (faithfulness, "validation tags at items depth"): a validation line prefixed with items. (once per
// nesting level) is read by the tagger of that items level - for slices of values and of pointers alike -
// and an unprefixed line by the field's own tagger
func VerifC17ItemsLevels() {
	depth := 1 + vChoice("depth", 2)
	ptrElem := vBool2("pointerElement")
	var elt ast.Expr = ast.NewIdent("string")
	if ptrElem {
		elt = &ast.StarExpr{X: elt}
	}
	leaf := &spec.Schema{}
	leaf.Typed("string", "")
	cur := leaf
	var typ ast.Expr = elt
	for d := 0; d < depth; d++ {
		arr := &spec.Schema{}
		arr.Typed("array", "")
		arr.Items = &spec.SchemaOrArray{Schema: cur}
		cur = arr
		typ = &ast.ArrayType{Elt: typ}
	}
	sb := &schemaBuilder{}
	sp := sb.createParser("field", &spec.Schema{}, cur, &ast.Field{Type: typ})
	vAssert(sp != nil, "no parser")
	if sp == nil {
		return
	}
	vCover("built")
	level := vChoice("level", depth+1) // 0: the field itself, k: k-th items level
	kw := []struct{ text, suffix string }{{"min length: 3", "MinLength"}, {"max length: 7", "MaxLength"}, {"pattern: ^a$", "Pattern"}}[vChoice("keyword", 3)]
	line := ""
	for i := 0; i < level; i++ {
		line += "items."
	}
	line += kw.text
	first := ""
	for _, tg := range sp.taggers {
		t := tg
		if t.Matches(line) {
			first = t.Name
			break
		}
	}
	vObserve("first", first)
	want := "items" + string(rune('0'+level-1)) + kw.suffix
	if level == 0 {
		want = []string{"minLength", "maxLength", "pattern"}[0]
		switch kw.suffix {
		case "MaxLength":
			want = "maxLength"
		case "Pattern":
			want = "pattern"
		}
	}
	vAssert(first == want, "a validation line is not read at the items depth it was written for")
}
