//go:build verif

package codescan

import (
	"go/ast"
	"os"
	"strings"

	"github.com/go-openapi/spec"
)

func init() { vRegister("VerifC18Vocabulary", VerifC18Vocabulary) }

// the validation lines generator/templates/validation/structfield.gotmpl writes above a field, and the tagger
// of schemaBuilder.createParser that must read each of them back
var vEmitted = []struct{ prefix, tagger, operand string }{
	{"Maximum: ", "maximum", "number"},
	{"Maximum: < ", "maximum", "number"},
	{"Minimum: ", "minimum", "number"},
	{"Minimum: > ", "minimum", "number"},
	{"Multiple Of: ", "multipleOf", "number"},
	{"Max Length: ", "maxLength", "int"},
	{"Min Length: ", "minLength", "int"},
	{"Max Items: ", "maxItems", "int"},
	{"Min Items: ", "minItems", "int"},
	{"Unique: ", "unique", "true"},
	{"Required: ", "required", "true"},
	{"Read Only: ", "readOnly", "true"},
	{"Pattern: ", "pattern", "text"},
}

func vDigit(name string) string {
	s := vBytesN(name, 1)
	vAssume(vAnd(s[0] >= '0', s[0] <= '9'))
	return s
}

func vDigits(name string, max int) string {
	n := 1 + vChoice(name+".n", max)
	out := ""
	for i := 0; i < n; i++ {
		out += vDigit(name)
	}
	return out
}

// what Go's text/template prints for a *float64 / *int64 operand
func vOperand(kind string) string {
	switch kind {
	case "int":
		return vDigits("int", 3)
	case "true":
		return "true"
	case "text":
		s := vBytes("text", vParam("textlen"))
		for i := 0; i < len(s); i++ {
			c := s[i]
			vAssume(vOr(vOr(vOr(c == 'm', c == 'a'), vOr(c == 'x', c == ':')), vOr(vOr(c == ' ', c == '1'), vOr(c == '^', c == 'M'))))
		}
		return s
	}
	sign := ""
	if vBool2("negative") {
		sign = "-"
	}
	switch vChoice("numform", 3) {
	case 0:
		return sign + vDigits("int", 3)
	case 1:
		return sign + vDigits("int", 2) + "." + vDigits("frac", 2)
	default:
		es := "+"
		if vBool2("negexp") {
			es = "-"
		}
		return sign + vDigit("m") + "e" + es + vDigit("e1") + vDigit("e2")
	}
}

// C18: each validation line the model template emits is picked up by the scanner tagger for the same keyword
// (first matching tagger wins in sectionedParser.Parse)
func VerifC18Vocabulary() {
	if !vSymbolic() {
		vCheckStructfieldTemplate()
	}
	k := vChoice("keyword", len(vEmitted))
	em := vEmitted[k]
	line := em.prefix + vOperand(em.operand)
	ps := &spec.Schema{}
	ps.Typed("string", "")
	sb := &schemaBuilder{}
	sp := sb.createParser("field", &spec.Schema{}, ps, &ast.Field{Type: ast.NewIdent("string")})
	vAssert(sp != nil, "no parser")
	if sp == nil {
		return
	}
	vCover("built")
	vObserve("keyword", em.tagger)
	first := ""
	for _, tg := range sp.taggers {
		t := tg
		if t.Matches(line) {
			first = t.Name
			break
		}
	}
	vObserve("first", first)
	if vKnown("C18-S3a", em.operand == "number" && strings.Contains(line, "e")) {
		return
	}
	if vKnown("C18-S3b", em.operand == "text" && first != "" && first != "pattern") {
		return
	}
	vAssert(first == em.tagger, "a validation line written by the model template is not read back by the tagger of the same keyword")
}

func vCheckStructfieldTemplate() {
	dir := os.Getenv("VERIF_REPO")
	if dir == "" {
		dir = "/repo"
	}
	b, err := os.ReadFile(dir + "/generator/templates/validation/structfield.gotmpl")
	if err != nil {
		panic("ORACLE-MISMATCH: cannot read structfield.gotmpl")
	}
	txt := string(b)
	for _, want := range []string{"// Maximum: {{ if .ExclusiveMaximum }}< {{ end }}{{ .Maximum }}", "// Minimum: {{ if .ExclusiveMinimum }}> {{ end }}{{ .Minimum }}",
		"// Multiple Of: {{ .MultipleOf }}", "// Max Length: {{ .MaxLength }}", "// Min Length: {{ .MinLength }}", "// Pattern: {{ .Pattern }}",
		"// Max Items: {{ .MaxItems }}", "// Min Items: {{ .MinItems }}", "// Unique: true", "// Required: true", "// Read Only: true"} {
		if !strings.Contains(txt, want) {
			panic("ORACLE-MISMATCH: structfield.gotmpl no longer emits " + want)
		}
	}
}
