//go:build verif

package codescan

import (
	"strings"

	"github.com/go-openapi/spec"
)

func init() {
	vRegister("VerifC16TypeWalk", VerifC16TypeWalk)
}

// what the JSON encoding of a field looks like, written from encoding/json's rules
type vWant struct {
	name     string // JSON member name; "" = the field does not appear in the encoding
	typ      string
	format   string
	ref      string   // definition referenced
	items    *vWant   // array element
	values   *vWant   // object (map) values
	props    []string // object: exactly these member names
	anything bool     // any JSON value: no type is stated
}

type vFieldKind struct {
	decl  string  // field declaration inside the struct
	aux   string  // extra top-level declarations
	wants []vWant // members this field contributes (embedded structs contribute several)
	imp   string  // standard-library package the field needs (a minimal in-memory stand-in is provided)
}

// minimal stand-ins for the two standard-library types the scanner knows by name
const vMiniTime = `package time

// A Time represents an instant in time
type Time struct{ wall uint64 }

// MarshalText implements encoding.TextMarshaler
func (t Time) MarshalText() ([]byte, error) { return nil, nil }
`

func vw(name, typ, format string) vWant { return vWant{name: name, typ: typ, format: format} }

var vFieldKinds = []vFieldKind{
	{decl: "Name string `json:\"name\"`", wants: []vWant{vw("name", "string", "")}},
	{decl: "Count int32", wants: []vWant{vw("Count", "integer", "int32")}},
	{decl: "Base", aux: "type Base struct {\n\tID int64 `json:\"id\"`\n}\n", wants: []vWant{vw("id", "integer", "int64")}},
	{decl: "inner", aux: "type inner struct {\n\tVer uint16 `json:\"ver\"`\n\tAuthor string\n}\n", wants: []vWant{vw("ver", "integer", "uint16"), vw("Author", "string", "")}},
	{decl: "W map[string]float32 `json:\"w\"`", wants: []vWant{{name: "w", typ: "object", values: &vWant{typ: "number", format: "float"}}}},
	{decl: "K map[Chan]uint8 `json:\"k\"`", aux: "type Chan string\n", wants: []vWant{{name: "k", typ: "object", values: &vWant{typ: "integer", format: "uint8"}}}},
	{decl: "L []map[Chan2]bool `json:\"l\"`", aux: "type Chan2 string\n", wants: []vWant{{name: "l", typ: "array", items: &vWant{typ: "object", values: &vWant{typ: "boolean"}}}}},
	{decl: "P *Other `json:\"p\"`", aux: "// Other is a model\n//\n// swagger:model\ntype Other struct {\n\tX bool `json:\"x\"`\n}\n", wants: []vWant{{name: "p", ref: "Other"}}},
	{decl: "hidden int", wants: nil},
	{decl: "Skip string `json:\"-\"`", wants: nil},
	{decl: "S int64 `json:\"s,string\"`", wants: []vWant{vw("s", "string", "int64")}},
	{decl: "A [2]int8 `json:\"a\"`", wants: []vWant{{name: "a", typ: "array", items: &vWant{typ: "integer", format: "int8"}}}},
	{decl: "Magic [2]byte `json:\"magic\"`", wants: []vWant{{name: "magic", typ: "array", items: &vWant{typ: "integer", format: "uint8"}}}},
	{decl: "Str int `json:\"string\"`", wants: []vWant{vw("string", "integer", "int64")}},
	{decl: "F *float64 `json:\"f,omitempty\"`", wants: []vWant{vw("f", "number", "double")}},
	{decl: "LL [][]uint32 `json:\"ll\"`", wants: []vWant{{name: "ll", typ: "array", items: &vWant{typ: "array", items: &vWant{typ: "integer", format: "uint32"}}}}},
	{decl: "N Num `json:\"n\"`", aux: "type Num uint64\n", wants: []vWant{vw("n", "integer", "uint64")}},
	// a tag spelled as an interpreted string literal
	{decl: "Dq float64 \"json:\\\"dq,omitempty\\\"\"", wants: []vWant{vw("dq", "number", "double")}},
	// a named string carrying a swagger:strfmt annotation; the instant type of package time
	{decl: "Ul ULID `json:\"ul\"`", aux: "// ULID is an identifier\n//\n// swagger:strfmt ulid\ntype ULID string\n", wants: []vWant{vw("ul", "string", "ulid")}},
	// more of what encoding/json does with a struct: a name-less tag keeps the Go name, an embedded
	// pointer is flattened, an embedded struct NAMED by its tag is one member, interface values are
	// anything, byte slices are base64 strings, maps may have integer keys, anonymous structs,
	// pointers to slices and to pointers, an outer field shadows a promoted one, empty structs
	{decl: "Plain string `json:\",omitempty\"`", wants: []vWant{vw("Plain", "string", "")}},
	{decl: "*Base2", aux: "type Base2 struct {\n\tB2 int64 `json:\"b2\"`\n}\n", wants: []vWant{vw("b2", "integer", "int64")}},
	{decl: "Base3 `json:\"base\"`", aux: "type Base3 struct {\n\tB3 int64 `json:\"b3\"`\n}\n", wants: []vWant{{name: "base", typ: "object", props: []string{"b3"}}}},
	{decl: "Any interface{} `json:\"any\"`", wants: []vWant{{name: "any", anything: true}}},
	{decl: "Raw []byte `json:\"raw\"`", wants: []vWant{vw("raw", "string", "byte")}},
	{decl: "Oct []uint8 `json:\"oct\"`", wants: []vWant{vw("oct", "string", "byte")}},
	{decl: "Free map[string]interface{} `json:\"free\"`", wants: []vWant{{name: "free", typ: "object"}}},
	{decl: "MI map[int]string `json:\"mi\"`", wants: []vWant{{name: "mi", typ: "object", values: &vWant{typ: "string"}}}},
	{decl: "Both int32 `json:\"both,omitempty,string\"`", wants: []vWant{vw("both", "string", "int32")}},
	{decl: "Inl struct {\n\t\tX int8 `json:\"x\"`\n\t} `json:\"inl\"`", wants: []vWant{{name: "inl", typ: "object", props: []string{"x"}}}},
	{decl: "PS *[]string `json:\"ps\"`", wants: []vWant{{name: "ps", typ: "array", items: &vWant{typ: "string"}}}},
	{decl: "PP **int16 `json:\"pp\"`", wants: []vWant{vw("pp", "integer", "int16")}},
	{decl: "shadowed\n\tTok int64 `json:\"tok\"`", aux: "type shadowed struct {\n\tTok string `json:\"tok\"`\n\tKept bool `json:\"kept\"`\n}\n", wants: []vWant{vw("tok", "integer", "int64"), vw("kept", "boolean", "")}},
	{decl: "Nothing struct{} `json:\"nothing\"`", wants: []vWant{{name: "nothing", typ: "object"}}},
	{decl: "UP uintptr `json:\"up\"`", wants: []vWant{vw("up", "integer", "uint64")}},
	// two fields of one struct with the same JSON name: encoding/json leaves out both (open finding C16-S4)
	{decl: "Dup1 int `json:\"dup\"`\n\tDup2 string `json:\"dup\"`", wants: nil},
	// a model renamed by an annotation written without a blank after the slashes (the directive form gofmt keeps)
	{decl: "Own *Owner `json:\"own\"`", aux: "// Owner is a renamed model\n//\n//swagger:model owner\ntype Owner struct {\n\tY bool `json:\"y\"`\n}\n", wants: []vWant{{name: "own", ref: "owner"}}},
	// two packages called types, each with a type Money: one a formatted string, the other a plain struct
	{decl: "Old ltypes.Money `json:\"old\"`\n\tTotal btypes.Money `json:\"total\"`", imp: "money", wants: []vWant{vw("old", "string", "money"), {name: "total", ref: "Money"}}},
	{decl: "When time.Time `json:\"when\"`", imp: "time", wants: []vWant{vw("when", "string", "date-time")}},
	{decl: "Whens []*time.Time `json:\"whens\"`", imp: "time", wants: []vWant{{name: "whens", typ: "array", items: &vWant{typ: "string", format: "date-time"}}}},
	// text marshalers: value receiver, pointer receiver behind a pointer field and as slice element
	{decl: "At Stamp `json:\"at\"`", aux: "type Stamp struct{ Sec int }\n\nfunc (s Stamp) MarshalText() ([]byte, error) { return nil, nil }\n", wants: []vWant{vw("at", "string", "")}},
	{decl: "From *Offset `json:\"from\"`", aux: "type Offset struct{ Sec int }\n\nfunc (o *Offset) MarshalText() ([]byte, error) { return nil, nil }\n", wants: []vWant{vw("from", "string", "")}},
	{decl: "Marks []*Mark `json:\"marks\"`", aux: "type Mark struct{ Sec int }\n\nfunc (o *Mark) MarshalText() ([]byte, error) { return nil, nil }\n", wants: []vWant{{name: "marks", typ: "array", items: &vWant{typ: "string"}}}},
}

func vMatches(sw *spec.Swagger, got *spec.Schema, w *vWant) bool {
	if got == nil {
		return false
	}
	if w.ref != "" {
		return got.Ref.String() == "#/definitions/"+w.ref
	}
	if w.anything {
		return got.Ref.String() == "" && len(got.Type) == 0
	}
	// a named Go type may be described in place or through a definition of its own
	for depth := 0; depth < 3 && got.Ref.String() != ""; depth++ {
		d, ok := sw.Definitions[strings.TrimPrefix(got.Ref.String(), "#/definitions/")]
		if !ok {
			return false
		}
		got = &d
	}
	if len(got.Type) != 1 || got.Type[0] != w.typ {
		return false
	}
	if w.typ != "array" && w.typ != "object" && got.Format != w.format {
		return false
	}
	if w.items != nil {
		if got.Items == nil || got.Items.Schema == nil || !vMatches(sw, got.Items.Schema, w.items) {
			return false
		}
	}
	if w.props != nil {
		if len(got.Properties) != len(w.props) {
			return false
		}
		for _, n := range w.props {
			if _, has := got.Properties[n]; !has {
				return false
			}
		}
	}
	if w.values != nil {
		if got.AdditionalProperties == nil || got.AdditionalProperties.Schema == nil || !vMatches(sw, got.AdditionalProperties.Schema, w.values) {
			return false
		}
	}
	return true
}

// every $ref of the document points to an existing definition
func vRefsResolve(sw *spec.Swagger) bool {
	ok := true
	var walk func(s *spec.Schema)
	walk = func(s *spec.Schema) {
		if s == nil {
			return
		}
		if r := s.Ref.String(); r != "" {
			if !strings.HasPrefix(r, "#/definitions/") {
				ok = false
			} else if _, has := sw.Definitions[strings.TrimPrefix(r, "#/definitions/")]; !has {
				ok = false
			}
		}
		for k := range s.Properties {
			p := s.Properties[k]
			walk(&p)
		}
		if s.Items != nil {
			walk(s.Items.Schema)
		}
		if s.AdditionalProperties != nil {
			walk(s.AdditionalProperties.Schema)
		}
		for i := range s.AllOf {
			walk(&s.AllOf[i])
		}
	}
	for k := range sw.Definitions {
		d := sw.Definitions[k]
		walk(&d)
	}
	return ok
}

// C16 (type walk): a struct assembled from vParam("fields") field kinds; the scanned definition has
// exactly the members encoding/json emits for it, each with the JSON type of its Go type
func VerifC16TypeWalk() {
	n := vParam("fields")
	var decls, aux []string
	var wants []vWant
	used := map[int]bool{}
	imports := map[string]bool{}
	for i := 0; i < n; i++ {
		k := vChoice("field", len(vFieldKinds))
		vAssume(!used[k]) // each kind declares its own field and auxiliary type names
		used[k] = true
		fk := vFieldKinds[k]
		if fk.imp != "" {
			imports[fk.imp] = true
		}
		decls = append(decls, "\t"+fk.decl)
		if fk.aux != "" {
			aux = append(aux, fk.aux)
		}
		wants = append(wants, fk.wants...)
	}
	srcs := []vPkgSrc{}
	head := "package a\n\n"
	if imports["time"] {
		srcs = append(srcs, vPkgSrc{"time", vMiniTime})
		head += "import \"time\"\n\n"
	}
	if imports["money"] {
		srcs = append(srcs, vPkgSrc{"example.com/legacy/types", "package types\n\n// Money is an amount written as text\n//\n// swagger:strfmt money\ntype Money string\n"})
		srcs = append(srcs, vPkgSrc{"example.com/billing/types", "package types\n\n// Money is an amount with its currency\ntype Money struct {\n\tCents int64 `json:\"cents\"`\n}\n"})
		if imports["time"] {
			head = "package a\n\nimport (\n\t\"time\"\n\tbtypes \"example.com/billing/types\"\n\tltypes \"example.com/legacy/types\"\n)\n\n"
		} else {
			head = "package a\n\nimport (\n\tbtypes \"example.com/billing/types\"\n\tltypes \"example.com/legacy/types\"\n)\n\n"
		}
	}
	src := head + strings.Join(aux, "\n") + "\n// Thing is the model under test\n//\n// swagger:model\ntype Thing struct {\n" + strings.Join(decls, "\n") + "\n}\n"
	srcs = append(srcs, vPkgSrc{"example.com/a", src})
	sw, err := vScan(srcs, []string{"example.com/a"}, nil, true)
	vCover("scanned")
	vAssert(err == nil, "the scanner fails on a plain struct")
	if err != nil {
		return
	}
	def, ok := sw.Definitions["Thing"]
	vAssert(ok, "the model has no definition")
	if !ok {
		return
	}
	for i := range wants {
		w := wants[i]
		p, has := def.Properties[w.name]
		vAssert(has, "a member of the JSON encoding is missing from the definition: "+w.name)
		if has {
			vAssert(vMatches(sw, &p, &w), "a member is described with a type its JSON encoding does not have: "+w.name)
		}
	}
	if _, dup := def.Properties["dup"]; vKnown("C16-S4", dup) {
		return
	}
	vAssert(len(def.Properties) == len(wants), "the definition declares members the JSON encoding does not have")
	vAssert(vRefsResolve(sw), "the document refers to a definition it does not contain")
}
