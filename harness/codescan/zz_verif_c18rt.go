//go:build verif

package codescan

// C18, end to end: the definitions of harness/gen/c02/swagger.json are turned into Go models by
// the generator built from the working tree (done by the check driver before the run); the
// scanner then runs - inside the symbolic engine - on the generated source files, and the scanned
// definition is compared with the input definition.

import (
	"fmt"
	"go/ast"
	"go/parser"
	"go/token"
	"go/types"
	"strings"

	"github.com/go-openapi/spec"
	"golang.org/x/tools/go/packages"
)

func init() { vRegister("VerifC18RoundTrip", VerifC18RoundTrip) }

func vS(f func(s *spec.Schema)) spec.Schema {
	s := spec.Schema{}
	f(&s)
	return s
}

func vSP(f func(s *spec.Schema)) *spec.Schema {
	s := vS(f)
	return &s
}

func vF(f float64) *float64 { return &f }
func vI(i int64) *int64     { return &i }

// file name the generator gives to a definition of these (CamelCase + digits) names
func vSnake(name string) string {
	out := ""
	for i := 0; i < len(name); i++ {
		c := name[i]
		if c >= 'A' && c <= 'Z' {
			if i > 0 && !(name[i-1] >= 'A' && name[i-1] <= 'Z') {
				out += "_"
			}
			c += 'a' - 'A'
		}
		out += string(c)
	}
	return out
}

// the generated models import go-openapi packages that cannot be imported in memory: the files
// are type-checked leniently (their struct and named types only use built-in types)
// the declarations of go-openapi/strfmt the generated models of this spec refer to, with the doc
// comments of the real package (the scanner reads the swagger:strfmt annotation from them)
const vMiniStrfmt = `package strfmt

// Registry is the format registry (its methods are of no interest to the scanner)
type Registry interface{}

// UUID represents a uuid string format
//
// swagger:strfmt uuid
type UUID string

// MarshalText turns this instance into text
func (u UUID) MarshalText() ([]byte, error) { return []byte(string(u)), nil }

// Email represents the email string format as specified by the json schema spec
//
// swagger:strfmt email
type Email string

// MarshalText turns this instance into text
func (e Email) MarshalText() ([]byte, error) { return []byte(string(e)), nil }

// Hostname represents the hostname string format as specified by the json schema spec
//
// swagger:strfmt hostname
type Hostname string

// MarshalText turns this instance into text
func (h Hostname) MarshalText() ([]byte, error) { return []byte(string(h)), nil }

// IPv4 represents an IP v4 address
//
// swagger:strfmt ipv4
type IPv4 string

// MarshalText turns this instance into text
func (u IPv4) MarshalText() ([]byte, error) { return []byte(string(u)), nil }

// URI represents the uri string format as specified by the json schema spec
//
// swagger:strfmt uri
type URI string

// MarshalText turns this instance into text
func (u URI) MarshalText() ([]byte, error) { return []byte(string(u)), nil }
`

func vLoadGenerated(defs []string) ([]*packages.Package, bool) {
	fset := token.NewFileSet()
	imp := vImporter{}
	sfFile, err := parser.ParseFile(fset, "strfmt/default.go", vMiniStrfmt, parser.ParseComments)
	if err != nil {
		return nil, false
	}
	sfInfo := &types.Info{
		Types: map[ast.Expr]types.TypeAndValue{}, Defs: map[*ast.Ident]types.Object{}, Uses: map[*ast.Ident]types.Object{},
		Implicits: map[ast.Node]types.Object{}, Selections: map[*ast.SelectorExpr]*types.Selection{}, Scopes: map[ast.Node]*types.Scope{},
	}
	sfTypes, err := (&types.Config{}).Check("github.com/go-openapi/strfmt", fset, []*ast.File{sfFile}, sfInfo)
	if err != nil {
		return nil, false
	}
	imp["github.com/go-openapi/strfmt"] = sfTypes
	sfPkg := &packages.Package{ID: "github.com/go-openapi/strfmt", Name: "strfmt", PkgPath: "github.com/go-openapi/strfmt", Fset: fset,
		Syntax: []*ast.File{sfFile}, Types: sfTypes, TypesInfo: sfInfo, Imports: map[string]*packages.Package{}}
	var files []*ast.File
	for _, d := range defs {
		src, ok := vHostFile("models/" + vSnake(d) + ".go")
		if !ok {
			return nil, false
		}
		f, err := parser.ParseFile(fset, "models/"+vSnake(d)+".go", src, parser.ParseComments)
		if err != nil {
			return nil, false
		}
		files = append(files, f)
	}
	info := &types.Info{
		Types: map[ast.Expr]types.TypeAndValue{}, Defs: map[*ast.Ident]types.Object{}, Uses: map[*ast.Ident]types.Object{},
		Implicits: map[ast.Node]types.Object{}, Selections: map[*ast.SelectorExpr]*types.Selection{}, Scopes: map[ast.Node]*types.Scope{},
	}
	conf := types.Config{Importer: imp, Error: func(error) {}}
	tp, _ := conf.Check("example.com/models", fset, files, info)
	if tp == nil {
		return nil, false
	}
	p := &packages.Package{ID: "example.com/models", Name: "models", PkgPath: "example.com/models", Fset: fset, Syntax: files, Types: tp, TypesInfo: info,
		Imports: map[string]*packages.Package{"github.com/go-openapi/strfmt": sfPkg}}
	return []*packages.Package{p}, true
}

func vEnumText(v interface{}) string { return fmt.Sprint(v) }

func vFloatPtrEq(a, b *float64) bool {
	if a == nil || b == nil {
		return a == nil && b == nil
	}
	return *a == *b
}

func vIntPtrEq(a, b *int64) bool {
	if a == nil || b == nil {
		return a == nil && b == nil
	}
	return *a == *b
}

// format the generator's Go type stands for when the input gives none
func vDefaultFormat(typ, format string) string {
	if format != "" {
		return format
	}
	switch typ {
	case "integer":
		return "int64"
	case "number":
		return "double"
	}
	return ""
}

// vSchemaDiff: first difference between the input schema and the scanned one ("" = none).
// where tells which kind of position is being compared (for the classification of known gaps)
func vSchemaDiff(in, got *spec.Schema, scanned *spec.Swagger, where string, depth int) string {
	if depth > 6 {
		return ""
	}
	inRef, gotRef := in.Ref.String(), got.Ref.String()
	if inRef != "" || gotRef != "" {
		if inRef != gotRef {
			return where + ": $ref " + inRef + " became " + gotRef
		}
		return ""
	}
	// allOf: compared member-wise
	if len(in.AllOf) > 0 || len(got.AllOf) > 0 {
		if len(in.AllOf) != len(got.AllOf) {
			return where + ": allOf members " + fmt.Sprint(len(in.AllOf)) + " became " + fmt.Sprint(len(got.AllOf))
		}
		for i := range in.AllOf {
			if d := vSchemaDiff(&in.AllOf[i], &got.AllOf[i], scanned, where+".allOf", depth+1); d != "" {
				return d
			}
		}
		return ""
	}
	it, gt := "", ""
	if len(in.Type) == 1 {
		it = in.Type[0]
	}
	if len(got.Type) == 1 {
		gt = got.Type[0]
	}
	if it != gt {
		return where + ": type " + it + " became " + gt
	}
	if it != "object" && it != "array" && vDefaultFormat(it, in.Format) != vDefaultFormat(gt, got.Format) {
		return where + ": format " + in.Format + " became " + got.Format
	}
	if !vFloatPtrEq(in.Maximum, got.Maximum) || in.ExclusiveMaximum != got.ExclusiveMaximum {
		return where + ": maximum differs"
	}
	if !vFloatPtrEq(in.Minimum, got.Minimum) || in.ExclusiveMinimum != got.ExclusiveMinimum {
		return where + ": minimum differs"
	}
	if !vIntPtrEq(in.MaxLength, got.MaxLength) || !vIntPtrEq(in.MinLength, got.MinLength) {
		return where + ": length bounds differ"
	}
	if in.Pattern != got.Pattern {
		return where + ": pattern differs"
	}
	if !vIntPtrEq(in.MaxItems, got.MaxItems) || !vIntPtrEq(in.MinItems, got.MinItems) {
		return where + ": item counts differ"
	}
	if in.ReadOnly != got.ReadOnly {
		return where + ": readOnly differs"
	}
	if in.UniqueItems != got.UniqueItems {
		return where + ": uniqueItems differs"
	}
	if len(in.Enum) != len(got.Enum) {
		return where + ": enum differs"
	}
	for i := range in.Enum {
		if vEnumText(in.Enum[i]) != vEnumText(got.Enum[i]) {
			return where + ": enum differs"
		}
	}
	// required set
	if len(in.Required) != len(got.Required) {
		return where + ": required set differs"
	}
	for _, r := range in.Required {
		found := false
		for _, g := range got.Required {
			if g == r {
				found = true
			}
		}
		if !found {
			return where + ": required set differs"
		}
	}
	if len(in.Properties) != len(got.Properties) {
		return where + ": property names differ"
	}
	for k := range in.Properties {
		ip := in.Properties[k]
		gp, ok := got.Properties[k]
		if !ok {
			return where + ": property names differ"
		}
		if d := vSchemaDiff(&ip, &gp, scanned, "property", depth+1); d != "" {
			return d
		}
	}
	if (in.Items != nil && in.Items.Schema != nil) != (got.Items != nil && got.Items.Schema != nil) {
		return where + ": items schema present on one side only"
	}
	if in.Items != nil && in.Items.Schema != nil {
		if d := vSchemaDiff(in.Items.Schema, got.Items.Schema, scanned, "items", depth+1); d != "" {
			return d
		}
	}
	ia := in.AdditionalProperties != nil && in.AdditionalProperties.Schema != nil
	ga := got.AdditionalProperties != nil && got.AdditionalProperties.Schema != nil
	if ia != ga {
		return where + ": additionalProperties schema present on one side only"
	}
	if ia {
		if d := vSchemaDiff(in.AdditionalProperties.Schema, got.AdditionalProperties.Schema, scanned, "map values", depth+1); d != "" {
			return d
		}
	}
	return ""
}

// a difference in a validation keyword (not in type, format, names, required, $ref)
func vIsValidationDiff(diff string) bool {
	for _, k := range []string{"maximum differs", "minimum differs", "length bounds differ", "pattern differs", "item counts differ", "uniqueItems differs", "enum differs"} {
		if strings.HasSuffix(diff, k) {
			return true
		}
	}
	return false
}

func VerifC18RoundTrip() {
	k := vChoice("case", len(vRTCases))
	if st := vParam("stride"); st > 1 && k%st != vParam("offset") {
		vAssume(false)
	}
	c := vRTCases[k]
	pkgs, ok := vLoadGenerated(c.defs)
	vAssert(ok, c.name+": the generated model files are missing or do not parse")
	if !ok {
		return
	}
	if vSymbolic() {
		vStubReturn("go/importer.Default", types.Importer(vEncImporter{vEncodingPkg()}))
	}
	app, err := newTypeIndex(pkgs, false, nil, nil, nil, nil, false)
	vAssert(err == nil, c.name+": the scanner cannot index the generated models")
	if err != nil {
		return
	}
	sw, err := newSpecBuilder(nil, &scanCtx{pkgs: pkgs, app: app}, true).Build()
	vCover(c.family)
	vAssert(err == nil, c.name+": the scanner fails on the generated models")
	if err != nil {
		return
	}
	for _, d := range c.defs {
		in := vRTInput(d)
		got, has := sw.Definitions[d]
		vAssert(has, c.name+" ("+c.desc+"): definition "+d+" is missing from the scanned spec")
		if !has {
			continue
		}
		diff := vSchemaDiff(&in, &got, sw, "definition", 0)
		vObserve("diff", diff)
		// known gaps of the round trip, by the kind of position that loses its validations
		// (property-level validations, types, formats, required sets and $refs do round-trip)
		scalarOrContainer := len(in.Properties) == 0 && len(in.AllOf) == 0
		if vKnown("C18-R1", scalarOrContainer && strings.HasPrefix(diff, "definition: ") && vIsValidationDiff(diff)) {
			return
		}
		if vKnown("C18-R2", strings.HasPrefix(diff, "items: ") && vIsValidationDiff(diff)) {
			return
		}
		if vKnown("C18-R3", strings.HasPrefix(diff, "map values: ") && vIsValidationDiff(diff)) {
			return
		}
		if vKnown("C18-R4", strings.HasPrefix(diff, "definition: allOf members")) {
			return
		}
		if vKnown("C18-R5", len(in.Properties) > 0 && diff == "definition: additionalProperties schema present on one side only") {
			return
		}
		vAssert(diff == "", c.name+" ("+c.desc+"): "+d+": "+diff)
	}
}
