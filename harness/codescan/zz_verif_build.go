//go:build verif

package codescan

import (
	"sort"
	"strings"

	"github.com/go-openapi/spec"
)

func init() {
	vRegister("VerifC17Discovered", VerifC17Discovered)
	vRegister("VerifC17ParamOverride", VerifC17ParamOverride)
}

// every $ref anywhere in the document (definitions, responses, parameters, operations) resolves
func vAllRefsResolve(sw *spec.Swagger) bool {
	if !vRefsResolve(sw) {
		return false
	}
	ok := true
	check := func(s *spec.Schema) {
		if s == nil {
			return
		}
		tmp := &spec.Swagger{}
		tmp.Definitions = spec.Definitions{"x": *s}
		for k, v := range sw.Definitions {
			tmp.Definitions[k] = v
		}
		if !vRefsResolve(tmp) {
			ok = false
		}
	}
	for k := range sw.Responses {
		r := sw.Responses[k]
		check(r.Schema)
	}
	for k := range sw.Parameters {
		p := sw.Parameters[k]
		check(p.Schema)
	}
	if sw.Paths != nil {
		for _, pi := range sw.Paths.Paths {
			for _, op := range []*spec.Operation{pi.Get, pi.Put, pi.Post, pi.Delete, pi.Patch, pi.Head, pi.Options} {
				if op == nil {
					continue
				}
				for i := range op.Parameters {
					check(op.Parameters[i].Schema)
				}
				if op.Responses != nil {
					if op.Responses.Default != nil {
						check(op.Responses.Default.Schema)
					}
					for c := range op.Responses.StatusCodeResponses {
						r := op.Responses.StatusCodeResponses[c]
						check(r.Schema)
						if rr := r.Ref.String(); rr != "" {
							if _, has := sw.Responses[strings.TrimPrefix(rr, "#/responses/")]; !has {
								ok = false
							}
						}
					}
				}
			}
		}
	}
	return ok
}

// C17 (discovery): models reached only through a response or a parameter body, living in other
// packages, possibly sharing their Go identifier and renamed by swagger:model, all end up as
// definitions under their model names - the document has no dangling $ref.
func VerifC17Discovered() {
	sameGoName := vBool("sameGoName")
	override := vBool("overrideNames")
	viaParam := vBool("viaParameter")
	scanModels := vBool("scanModels")
	nested := vBool("nestedRef")
	noBlank := vBool("annotationWithoutBlank") // "//swagger:model X", the directive form gofmt keeps
	ann := "// swagger:model"
	if noBlank {
		ann = "//swagger:model"
	}
	vAssume(vImplies(sameGoName, override)) // two types named alike need distinct model names to coexist at all
	g2 := "Cat"
	if sameGoName {
		g2 = "Pet"
	}
	m1, m2 := "", ""
	want1, want2 := "Pet", g2
	if override {
		m1, m2 = " PetV1", " PetV2"
		want1, want2 = "PetV1", "PetV2"
	}
	v1 := "package v1\n\n// Pet is the first version\n//\n" + ann + m1 + "\ntype Pet struct {\n\tName string `json:\"name\"`\n}\n"
	inner := ""
	innerField := ""
	if nested {
		inner = "// Tag is only reachable through the second model\n//\n// swagger:model\ntype Tag struct {\n\tLabel string `json:\"label\"`\n}\n\n"
		innerField = "\tTag *Tag `json:\"tag\"`\n"
	}
	v2 := "package v2\n\n" + inner + "// " + g2 + " is the second version\n//\n" + ann + m2 + "\ntype " + g2 + " struct {\n\tAge int32 `json:\"age\"`\n" + innerField + "}\n"
	body := "struct {\n\t\tA v1.Pet `json:\"a\"`\n\t\tB []v2." + g2 + " `json:\"b\"`\n\t}"
	api := "package api\n\nimport (\n\tv1 \"example.com/v1\"\n\tv2 \"example.com/v2\"\n)\n\n"
	if viaParam {
		api += "// PetsParams carries the pets\n//\n// swagger:parameters listPets\ntype PetsParams struct {\n\t// in: body\n\tBody " + body + "\n}\n\n"
		api += "// swagger:route POST /pets pets listPets\n//\n// responses:\n//   200: description: ok\n\n"
	} else {
		api += "// PetsResponse carries the pets\n//\n// swagger:response petsResponse\ntype PetsResponse struct {\n\t// in: body\n\tBody " + body + "\n}\n\n"
		api += "// swagger:route GET /pets pets listPets\n//\n// responses:\n//   200: petsResponse\n\n"
	}
	api += "var _ = 0\n"
	sw, err := vScan([]vPkgSrc{{"example.com/v1", v1}, {"example.com/v2", v2}, {"example.com/api", api}}, []string{"example.com/api"}, nil, scanModels)
	vCover("scanned")
	vAssert(err == nil, "the scanner fails on models discovered through a response/parameter")
	if err != nil {
		return
	}
	d1, ok1 := sw.Definitions[want1]
	d2, ok2 := sw.Definitions[want2]
	vAssert(ok1, "the first discovered model has no definition")
	vAssert(ok2, "the second discovered model has no definition")
	if ok1 {
		_, has := d1.Properties["name"]
		vAssert(has, "the first model's definition is not built from its own type")
	}
	if ok2 {
		_, has := d2.Properties["age"]
		vAssert(has, "the second model's definition is not built from its own type")
	}
	if nested {
		_, has := sw.Definitions["Tag"]
		vAssert(has, "a model reachable only through another discovered model has no definition")
	}
	vAssert(vAllRefsResolve(sw), "the document refers to a definition it does not contain")
}

// C17 (merge with an input spec): parameters re-declared by a swagger:parameters struct replace
// the operation's parameters of the same name; all the others stay, nothing is duplicated.
func VerifC17ParamOverride() {
	names := []string{"limit", "offset", "q", "extra"}
	gonames := []string{"Limit", "Offset", "Q", "Extra"}
	redeclare := make([]bool, len(names))
	for i := range names {
		redeclare[i] = vBool("redeclare." + names[i])
	}
	embed := vBool("throughEmbeddedStruct")
	renamed := vBool("inputHasAnotherOperationId") // the input spec knows GET /pets under an id the code no longer uses
	input := &spec.Swagger{}
	input.Swagger = "2.0"
	input.Paths = &spec.Paths{Paths: map[string]spec.PathItem{}}
	op := &spec.Operation{}
	op.ID = "listPets"
	if renamed {
		op.ID = "findPets"
	}
	for i := 0; i < 3; i++ {
		p := spec.QueryParam(names[i])
		p.Type, p.Format = "integer", "int64"
		op.Parameters = append(op.Parameters, *p)
	}
	op.Responses = &spec.Responses{}
	pi := spec.PathItem{}
	pi.Get = op
	input.Paths.Paths["/pets"] = pi

	fields, efields := "", ""
	k := 0
	for i := range names {
		if !redeclare[i] {
			continue
		}
		f := "\t// in: query\n\t" + gonames[i] + " int32 `json:\"" + names[i] + "\"`\n"
		if embed && k%2 == 0 {
			efields += f
		} else {
			fields += f
		}
		k++
	}
	src := "package api\n\n"
	if embed {
		src += "type Paging struct {\n" + efields + "}\n\n"
		fields = "\tPaging\n" + fields
	}
	src += "// ListParams of listPets\n//\n// swagger:parameters listPets\ntype ListParams struct {\n" + fields + "}\n\n"
	src += "// swagger:route GET /pets pets listPets\n//\n// responses:\n//   200: description: ok\n\nvar _ = 0\n"
	sw, err := vScan([]vPkgSrc{{"example.com/api", src}}, []string{"example.com/api"}, input, false)
	vCover("scanned")
	vAssert(err == nil, "the scanner fails when merging parameters into an input spec")
	if err != nil || sw.Paths == nil {
		return
	}
	got := sw.Paths.Paths["/pets"].Get
	vAssert(got != nil, "the operation of the input spec is gone")
	if got == nil {
		return
	}
	vAssert(got.ID == "listPets", "GET /pets does not carry the operation id the code declares")
	if renamed {
		// the route of the code takes the place of the stale operation: what the code declares must be there
		for i := range names {
			if !redeclare[i] {
				continue
			}
			found := false
			for _, p := range got.Parameters {
				if p.Name == names[i] && p.Format == "int32" {
					found = true
				}
			}
			vAssert(found, "a parameter the code declares for the operation is missing from the document")
		}
		return
	}
	var seen []string
	for _, p := range got.Parameters {
		seen = append(seen, p.Name)
		idx := -1
		for i := range names {
			if names[i] == p.Name {
				idx = i
			}
		}
		vAssert(idx >= 0, "a parameter appears that neither the input spec nor the code declares")
		if idx >= 0 {
			if redeclare[idx] {
				vAssert(p.Format == "int32", "a re-declared parameter keeps the stale description of the input spec")
			} else {
				vAssert(p.Format == "int64", "a parameter the code does not mention was altered")
			}
		}
	}
	sort.Strings(seen)
	var want []string
	for i := range names {
		if i < 3 || redeclare[i] {
			want = append(want, names[i])
		}
	}
	sort.Strings(want)
	vAssert(strings.Join(seen, ",") == strings.Join(want, ","), "parameters are dropped or duplicated when the code re-declares some of them: "+strings.Join(seen, ","))
}

func init() {
	vRegister("VerifC17TitleNoCrash", VerifC17TitleNoCrash)
	vRegister("VerifC17EnumBlocks", VerifC17EnumBlocks)
}

// C17 (never crash): the title/description splitter applied to the head of every meta, model,
// route and operation comment, on arbitrary short comment lines
func VerifC17TitleNoCrash() {
	n := 1 + vChoice("lines", vParam("maxlines"))
	var lines []string
	for i := 0; i < n; i++ {
		lines = append(lines, vBytes("line", vParam("linelen")))
	}
	title, desc := collectScannerTitleDescription(lines)
	vCover("split")
	vAssert(len(title)+len(desc) <= n, "the splitter invents lines")
}

// C17 (faithful): the values of a swagger:enum type are all the typed constants of the package,
// however they are spread over const declarations
func VerifC17EnumBlocks() {
	split := vChoice("constBlocks", 3) // 0: one block, 1: two blocks, 2: three declarations
	untypedFollowers := vBool2("iotaStyleFollowers")
	src := "package api\n\n// Status of an order\n//\n// swagger:enum Status\ntype Status string\n\n"
	consts := []string{"Placed Status = \"placed\"", "Approved Status = \"approved\"", "Shipped Status = \"shipped\""}
	_ = untypedFollowers
	switch split {
	case 0:
		src += "const (\n\t" + consts[0] + "\n\t" + consts[1] + "\n\t" + consts[2] + "\n)\n\n"
	case 1:
		src += "const (\n\t" + consts[0] + "\n\t" + consts[1] + "\n)\n\nconst (\n\t" + consts[2] + "\n)\n\n"
	default:
		src += "const " + consts[0] + "\n\nconst " + consts[1] + "\n\nconst " + consts[2] + "\n\n"
	}
	src += "// Order is a model\n//\n// swagger:model\ntype Order struct {\n\tStatus Status `json:\"status\"`\n}\n"
	sw, err := vScan([]vPkgSrc{{"example.com/api", src}}, []string{"example.com/api"}, nil, true)
	vCover("scanned")
	vAssert(err == nil, "the scanner fails on an enum type")
	if err != nil {
		return
	}
	def, ok := sw.Definitions["Order"]
	vAssert(ok, "the model has no definition")
	if !ok {
		return
	}
	p, ok := def.Properties["status"]
	vAssert(ok, "the enum-typed property is missing")
	if !ok {
		return
	}
	enum := p.Enum
	if len(enum) == 0 && p.Ref.String() != "" {
		if d, has := sw.Definitions[strings.TrimPrefix(p.Ref.String(), "#/definitions/")]; has {
			enum = d.Enum
		}
	}
	got := map[string]bool{}
	for _, e := range enum {
		if s, isS := e.(string); isS {
			got[s] = true
		}
	}
	vAssert(len(enum) == 3 && got["placed"] && got["approved"] && got["shipped"], "the enum of the scanned property is not the set of constants of its type")
}
