//go:build verif

package codescan

// In-memory front end for the scanner: packages are parsed (go/parser) and type-checked (go/types)
// from source text held by the harness, wrapped as packages.Package values and handed to the real
// newTypeIndex / newSpecBuilder. The symbolic engine interprets go/parser and go/types themselves;
// natively the very same code runs, so every path can be replayed as is. No standard-library
// imports are available to the scanned sources (there is no importer for them): built-in types,
// structs, maps, slices, arrays, pointers, named types and other in-memory packages only.

import (
	"go/ast"
	"go/parser"
	"go/token"
	"go/types"

	"github.com/go-openapi/spec"
	"golang.org/x/tools/go/packages"
)

type vPkgSrc struct {
	path, src string
}

type vImporter map[string]*types.Package

func (m vImporter) Import(p string) (*types.Package, error) {
	if pk, ok := m[p]; ok {
		return pk, nil
	}
	return nil, &vImportErr{p}
}

type vImportErr struct{ p string }

func (e *vImportErr) Error() string { return "no such package: " + e.p }

// vLoad: packages in dependency order (imported ones first)
func vLoad(srcs []vPkgSrc) []*packages.Package {
	fset := token.NewFileSet()
	imp := vImporter{}
	byPath := map[string]*packages.Package{}
	var out []*packages.Package
	for _, s := range srcs {
		f, err := parser.ParseFile(fset, s.path+"/a.go", s.src, parser.ParseComments)
		if err != nil {
			panic("harness source does not parse: " + err.Error())
		}
		info := &types.Info{
			Types: map[ast.Expr]types.TypeAndValue{}, Defs: map[*ast.Ident]types.Object{}, Uses: map[*ast.Ident]types.Object{},
			Implicits: map[ast.Node]types.Object{}, Selections: map[*ast.SelectorExpr]*types.Selection{}, Scopes: map[ast.Node]*types.Scope{},
		}
		conf := types.Config{Importer: imp}
		tp, err := conf.Check(s.path, fset, []*ast.File{f}, info)
		if err != nil {
			panic("harness source does not type-check: " + err.Error())
		}
		imp[s.path] = tp
		p := &packages.Package{ID: s.path, Name: tp.Name(), PkgPath: s.path, Fset: fset, Syntax: []*ast.File{f}, Types: tp, TypesInfo: info,
			Imports: map[string]*packages.Package{}}
		for _, im := range tp.Imports() {
			p.Imports[im.Path()] = byPath[im.Path()]
		}
		byPath[s.path] = p
		out = append(out, p)
	}
	return out
}

// the scanner asks go/importer for package "encoding" (TextMarshaler); symbolically the compiled
// export data cannot be read, so the importer is replaced by one that knows this interface only
type vEncImporter struct{ pkg *types.Package }

func (i vEncImporter) Import(path string) (*types.Package, error) {
	if path == "encoding" {
		return i.pkg, nil
	}
	return nil, &vImportErr{path}
}

func vEncodingPkg() *types.Package {
	pkg := types.NewPackage("encoding", "encoding")
	errT := types.Universe.Lookup("error").Type()
	res := types.NewTuple(types.NewVar(token.NoPos, pkg, "text", types.NewSlice(types.Typ[types.Byte])), types.NewVar(token.NoPos, pkg, "err", errT))
	sig := types.NewSignatureType(nil, nil, nil, nil, res, false)
	m := types.NewFunc(token.NoPos, pkg, "MarshalText", sig)
	iface := types.NewInterfaceType([]*types.Func{m}, nil).Complete()
	tn := types.NewTypeName(token.NoPos, pkg, "TextMarshaler", nil)
	types.NewNamed(tn, iface, nil)
	pkg.Scope().Insert(tn)
	pkg.MarkComplete()
	return pkg
}

// vScan runs the real scanner on in-memory packages; only the packages listed in roots are handed
// over as command-line packages (the others are reached through imports, as with `swagger generate spec`)
func vScan(srcs []vPkgSrc, roots []string, input *spec.Swagger, scanModels bool) (*spec.Swagger, error) {
	if vSymbolic() {
		vStubReturn("go/importer.Default", types.Importer(vEncImporter{vEncodingPkg()}))
	}
	all := vLoad(srcs)
	var pkgs []*packages.Package
	for _, p := range all {
		for _, r := range roots {
			if p.PkgPath == r {
				pkgs = append(pkgs, p)
			}
		}
	}
	app, err := newTypeIndex(pkgs, false, nil, nil, nil, nil, false)
	if err != nil {
		return nil, err
	}
	sc := &scanCtx{pkgs: pkgs, app: app}
	return newSpecBuilder(input, sc, scanModels).Build()
}
