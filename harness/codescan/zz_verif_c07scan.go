//go:build verif

package codescan

import (
	"reflect"

	"github.com/go-openapi/spec"
)

func init() { vRegister("VerifC07ScanOrder", VerifC07ScanOrder) }

const vC07Src = `// Package api of the order test
//
//	Schemes: http, https
//	Consumes:
//	- application/json
//	- application/xml
//	Produces:
//	- application/json
//
// swagger:meta
package api

// ItemParams are the parameters of getItem
//
// swagger:parameters getItem
type ItemParams struct {
	// the id of the item
	//
	// in: path
	// required: false
	// minimum: 1
	// maximum: 100
	ID int64 ` + "`json:\"id\"`" + `

	// a filter
	//
	// in: query
	// required: true
	// min length: 2
	// max length: 9
	// pattern: ^[a-z]+$
	// enum: aa,bb
	Filter string ` + "`json:\"filter\"`" + `

	// tags to look for
	//
	// in: query
	// unique: true
	// min items: 1
	// max items: 4
	// collection format: pipes
	Tags []string ` + "`json:\"tags\"`" + `
}

// Item is a model
//
// swagger:model
type Item struct {
	// the id
	//
	// required: true
	// read only: true
	// minimum: 1
	ID int64 ` + "`json:\"id\"`" + `

	// the name
	//
	// required: true
	// min length: 1
	// example: box
	// default: crate
	Name string ` + "`json:\"name\"`" + `

	// sizes
	//
	// items.minimum: 1
	// items.maximum: 9
	// unique: true
	Sizes []int32 ` + "`json:\"sizes\"`" + `
}

// ItemResponse carries an item
//
// swagger:response itemResponse
type ItemResponse struct {
	// in: body
	Body Item
	// remaining calls
	//
	// minimum: 0
	// maximum: 500
	XRate int32 ` + "`json:\"X-Rate\"`" + `
}

// swagger:route GET /items/{id} items getItem
//
// Gets an item.
//
//	Consumes:
//	- application/json
//	Produces:
//	- application/json
//	- application/xml
//	Schemes: http, https
//	Security:
//	  api_key:
//	  oauth: read, write
//	Responses:
//	  200: itemResponse
//	  default: itemResponse

var _ = 0
`

// C07 (scanner): the spec produced from a package does not depend on the order in which Go
// iterates the scanner's maps: one scan in canonical order, one with a single range statement of
// the codescan package rotated (every site, every rotation), equal documents.
func VerifC07ScanOrder() {
	srcs := []vPkgSrc{{"example.com/api", vC07Src}}
	roots := []string{"example.com/api"}
	var in1, in2 *spec.Swagger
	sw1, err1 := vScan(srcs, roots, in1, true)
	k := vChoice("site", vParam("sites"))
	vMapOrderSiteIn(k, "github.com/go-swagger/go-swagger/codescan")
	sw2, err2 := vScan(srcs, roots, in2, true)
	vMapOrderSite(-1)
	vCover("scanned")
	vAssert((err1 == nil) == (err2 == nil), "whether the scan succeeds depends on map iteration order")
	if err1 != nil || err2 != nil {
		return
	}
	vAssert(reflect.DeepEqual(sw1, sw2), "the scanned spec depends on map iteration order")
}
