//go:build verif

package codescan

// C17 (never crash): a swagger:parameters struct and a swagger:response struct with one field of
// each Go kind, declared in every location: the scanner answers with a document or with an error,
// never with a panic; and a document it answers with has no dangling $ref.

func init() { vRegister("VerifC17FieldKindsNoCrash", VerifC17FieldKindsNoCrash) }

var vParamKinds = []string{
	"string", "*int32", "[]string", "[][]int64", "map[string]string", "[]map[string]int", "map[string][]string",
	"Inner", "*Inner", "[]Inner", "interface{}", "[2]byte", "[]byte", "Named", "map[Named]Inner", "struct{ X int }",
	"Page[string]", "Page[Inner]", "EmbA", "*Node",
}

func VerifC17FieldKindsNoCrash() {
	kind := vParamKinds[vChoice("kind", len(vParamKinds))]
	in := []string{"query", "header", "path", "body", "formData"}[vChoice("in", 5)]
	asResponse := vBool2("response")
	src := "package api\n\n// Inner is a plain struct\ntype Inner struct {\n\tV string `json:\"v\"`\n}\n\n// Named is a named string\ntype Named string\n\n" +
		"// Page is generic\ntype Page[T any] struct {\n\tItems []T `json:\"items\"`\n}\n\n" +
		"// EmbA and EmbB embed each other\ntype EmbA struct {\n\t*EmbB\n}\n\ntype EmbB struct {\n\t*EmbA\n\tX int `json:\"x\"`\n}\n\n" +
		"// Node is recursive\ntype Node struct {\n\tNext *Node `json:\"next\"`\n\tKids []Node `json:\"kids\"`\n}\n\n"
	if asResponse {
		rin := "header"
		if in == "body" {
			rin = "body"
		}
		src += "// ListResponse of listPets\n//\n// swagger:response listResponse\ntype ListResponse struct {\n\t// in: " + rin + "\n\tF " + kind + " `json:\"f\"`\n}\n\n"
		src += "// swagger:route GET /pets pets listPets\n//\n// responses:\n//   200: listResponse\n\nvar _ = 0\n"
	} else {
		src += "// ListParams of listPets\n//\n// swagger:parameters listPets\ntype ListParams struct {\n\t// in: " + in + "\n\tF " + kind + " `json:\"f\"`\n}\n\n"
		src += "// swagger:route GET /pets pets listPets\n//\n// responses:\n//   200: description: ok\n\nvar _ = 0\n"
	}
	sw, err := vScan([]vPkgSrc{{"example.com/api", src}}, []string{"example.com/api"}, nil, false)
	vCover("scanned")
	vObserve("refused", err != nil)
	if err != nil || sw == nil {
		return // refusing a field with an error is fine
	}
	vAssert(vAllRefsResolve(sw), "the document refers to a definition it does not contain")
	if asResponse && in != "body" {
		// the struct declares a header only: the response has no body
		resp, has := sw.Responses["listResponse"]
		vAssert(has, "the response of the code is missing from the document")
		if vKnown("C17-S12", has && resp.Schema != nil) {
			return
		}
		vAssert(!has || resp.Schema == nil, "a response that declares only a header is given a body schema")
	}
}
