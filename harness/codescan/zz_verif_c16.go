//go:build verif

package codescan

import (
	"go/ast"
	"go/token"
	"strings"

	"github.com/go-openapi/spec"
)

func init() {
	vRegister("VerifC16BuiltinRanges", VerifC16BuiltinRanges)
	vRegister("VerifC16JSONTag", VerifC16JSONTag)
}

type vTypeRecorder struct {
	typ, format string
	calls       int
}

func (r *vTypeRecorder) Typed(t, f string)                      { r.typ, r.format = t, f; r.calls++ }
func (r *vTypeRecorder) SetRef(spec.Ref)                        {}
func (r *vTypeRecorder) Items() swaggerTypable                  { return r }
func (r *vTypeRecorder) Schema() *spec.Schema                   { return nil }
func (r *vTypeRecorder) Level() int                             { return 0 }
func (r *vTypeRecorder) AddExtension(key string, v interface{}) {}
func (r *vTypeRecorder) WithEnum(...interface{})                {}
func (r *vTypeRecorder) WithEnumDescription(desc string)        {}

type vKind struct {
	name   string
	bits   int
	signed bool
	float  int // 0 no, 32, 64
}

var vKinds = []vKind{
	{"int", 64, true, 0}, {"int8", 8, true, 0}, {"int16", 16, true, 0}, {"int32", 32, true, 0}, {"int64", 64, true, 0},
	{"uint", 64, false, 0}, {"uint8", 8, false, 0}, {"uint16", 16, false, 0}, {"uint32", 32, false, 0}, {"uint64", 64, false, 0},
	{"uintptr", 64, false, 0}, {"byte", 8, false, 0}, {"rune", 32, true, 0}, {"float32", 0, true, 32}, {"float64", 0, true, 64},
	{"bool", 0, false, 0}, {"string", 0, false, 0},
}

// does the integer format accept value v (given as signed sv when the Go kind is signed, else unsigned uv)?
func vIntFormatAccepts(format string, signed bool, sv int64, uv uint64) bool {
	switch format {
	case "int8":
		if signed {
			return vAnd(sv >= -128, sv <= 127)
		}
		return uv <= 127
	case "int16":
		if signed {
			return vAnd(sv >= -32768, sv <= 32767)
		}
		return uv <= 32767
	case "int32":
		if signed {
			return vAnd(sv >= -2147483648, sv <= 2147483647)
		}
		return uv <= 2147483647
	case "int64", "":
		if signed {
			return true
		}
		return uv <= 9223372036854775807
	case "uint8":
		if signed {
			return vAnd(sv >= 0, sv <= 255)
		}
		return uv <= 255
	case "uint16":
		if signed {
			return vAnd(sv >= 0, sv <= 65535)
		}
		return uv <= 65535
	case "uint32":
		if signed {
			return vAnd(sv >= 0, sv <= 4294967295)
		}
		return uv <= 4294967295
	case "uint64":
		if signed {
			return sv >= 0
		}
		return true
	}
	return false
}

// C16: the swagger type/format recorded for a Go builtin accepts EVERY value of that builtin
func VerifC16BuiltinRanges() {
	k := vKinds[vChoice("kind", len(vKinds))]
	rec := &vTypeRecorder{}
	err := swaggerSchemaForType(k.name, rec)
	vCover("typed")
	vObserve("type", rec.typ+"/"+rec.format)
	vAssert(err == nil && rec.calls == 1, "a JSON-encodable builtin is not typed")
	switch {
	case k.name == "bool":
		vAssert(rec.typ == "boolean", "bool is not a JSON boolean")
	case k.name == "string":
		vAssert(rec.typ == "string" && rec.format == "", "string is not a plain JSON string")
	case k.float != 0:
		vAssert(rec.typ == "number", "a float is not a JSON number")
		vAssert(rec.format == "double" || (rec.format == "float" && k.float == 32), "the float format is narrower than the Go type")
	default:
		vAssert(rec.typ == "integer", "an integer kind is not a JSON integer")
		raw := vI64("value")
		var sv int64
		var uv uint64
		switch {
		case k.signed && k.bits == 8:
			sv = int64(int8(raw))
		case k.signed && k.bits == 16:
			sv = int64(int16(raw))
		case k.signed && k.bits == 32:
			sv = int64(int32(raw))
		case k.signed:
			sv = raw
		case k.bits == 8:
			uv = uint64(uint8(raw))
		case k.bits == 16:
			uv = uint64(uint16(raw))
		case k.bits == 32:
			uv = uint64(uint32(raw))
		default:
			uv = uint64(raw)
		}
		vAssert(vIntFormatAccepts(rec.format, k.signed, sv, uv), "some value of the Go integer kind is outside the range of the recorded format")
	}
}

var vTagTexts = []string{"", "name", "name,omitempty", "name,string", "-", "-,", ",string", "string", "omitempty", "string,omitempty", ",omitempty,string", "name,", "n,string,omitempty"}
var vFieldTypes = []string{"int", "uint8", "float32", "float64", "uintptr", "string", "bool", "MyStruct", "int64", "uint"}

// reference: encoding/json's reading of a struct tag
func vStdJSONTag(fieldName, tag, typ string, tagged bool) (name string, ignore, isString, omitEmpty bool) {
	if !tagged {
		return fieldName, false, false, false
	}
	parts := strings.Split(tag, ",")
	n := parts[0]
	if tag == "-" {
		return fieldName, true, false, false
	}
	for _, o := range parts[1:] {
		if o == "omitempty" {
			omitEmpty = true
		}
		if o == "string" {
			switch typ {
			case "int", "int8", "int16", "int32", "int64", "uint", "uint8", "uint16", "uint32", "uint64", "uintptr", "float32", "float64", "string", "bool":
				isString = true
			}
		}
	}
	if n == "" {
		n = fieldName
	}
	return n, false, isString, omitEmpty
}

// C16: the scanner reads a json struct tag the way encoding/json does
func VerifC16JSONTag() {
	tag := vTagTexts[vChoice("tag", len(vTagTexts))]
	typ := vFieldTypes[vChoice("type", len(vFieldTypes))]
	ptr := vBool2("pointer")
	tagged := vBool2("hasJSONKey")
	var texpr ast.Expr = ast.NewIdent(typ)
	if ptr {
		texpr = &ast.StarExpr{X: texpr}
	}
	f := &ast.Field{Names: []*ast.Ident{ast.NewIdent("Field")}, Type: texpr}
	if tagged {
		f.Tag = &ast.BasicLit{Kind: token.STRING, Value: "`json:\"" + tag + "\" yaml:\"y\"`"}
	} else {
		f.Tag = &ast.BasicLit{Kind: token.STRING, Value: "`yaml:\"" + tag + "\"`"}
	}
	name, ignore, isString, omitEmpty, err := parseJSONTag(f)
	vCover("parsed")
	vAssert(err == nil, "a well-formed tag is rejected")
	wn, wi, ws, wo := vStdJSONTag("Field", tag, typ, tagged)
	vObserve("got", name)
	if vKnown("C16-S2b", tagged && tag == "-,") {
		return
	}
	if vKnown("C16-S2a", strings.Contains(tag, ",string") && (typ == "float32" || typ == "uintptr")) {
		return
	}
	vAssert(ignore == wi, "the scanner and encoding/json disagree on whether the field is skipped")
	if !wi {
		vAssert(name == wn, "the scanner and encoding/json disagree on the property name")
		vAssert(isString == ws, "the scanner and encoding/json disagree on the ,string option")
		vAssert(omitEmpty == wo, "the scanner and encoding/json disagree on omitempty")
	}
}
