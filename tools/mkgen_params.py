#!/usr/bin/env python3
"""Writes the spec and the harness of the generated-code check of C03 (harness/gen/c03).

Every case is one operation with one non-body parameter `p`. The real generator (built from
/repo) renders the server; the harness calls the generated per-parameter binder
    (o *CaseNNNParams) bindP(rawData []string, hasKey bool, formats) error
on a symbolic raw request value and compares (a) accepted/rejected and (b) the value left in the
parameter struct with a reference written from the Swagger 2.0 parameter semantics.

Raw values: strings of <= 3 symbolic ASCII bytes (integers, booleans, strings); array parameters
are the join of <= 2 such element texts with the separator of their collectionFormat. Numbers
(float parsing is out of reach symbolically): swag.ConvertFloat32/64 is a stub returning an
arbitrary float or an error; natively the raw text is the formatting of that float.

Run:  python3 tools/mkgen_params.py
"""
import json, os

ROOT = os.path.dirname(os.path.dirname(os.path.abspath(__file__)))
OUT = os.path.join(ROOT, "harness", "gen", "c03")

INT_GO = {"": "int64", "int32": "int32", "int64": "int64", "uint32": "uint32", "uint64": "uint64"}
NUM_GO = {"": "float64", "double": "float64", "float": "float32"}
STR_FORMATS = {"uuid": "strfmt.UUID", "email": "strfmt.Email", "hostname": "strfmt.Hostname"}
SEP = {"": ",", "csv": ",", "pipes": "|", "ssv": " ", "tsv": "\t"}

CASES = []
PATHS = {}


def AND(*xs):
    xs = [x for x in xs if x != "true"]
    if not xs:
        return "true"
    if "false" in xs:
        return "false"
    r = xs[0]
    for x in xs[1:]:
        r = "vAnd(%s, %s)" % (r, x)
    return r


def OR(*xs):
    xs = [x for x in xs if x != "false"]
    if not xs:
        return "false"
    if "true" in xs:
        return "true"
    r = xs[0]
    for x in xs[1:]:
        r = "vOr(%s, %s)" % (r, x)
    return r


class Case:
    def __init__(self, name, family, desc):
        self.name, self.family, self.desc = name, family, desc
        self.lines = []
        self.n = 0

    def fresh(self, base):
        self.n += 1
        return "%s%d" % (base, self.n)

    def emit(self, s):
        self.lines.append("\t" + s)


def gofloat(v):
    return repr(float(v))


def scalar_constraints(s, v, kind):
    """reference predicate over the parsed value v (int64 / float64 / string / bool Go expression)"""
    r = []
    if kind == "int":
        if "minimum" in s:
            r.append("%s %s %d" % (v, ">" if s.get("exclusiveMinimum") else ">=", s["minimum"]))
        if "maximum" in s:
            r.append("%s %s %d" % (v, "<" if s.get("exclusiveMaximum") else "<=", s["maximum"]))
        if "enum" in s:
            r.append(OR(*["%s == %d" % (v, e) for e in s["enum"]]))
    elif kind == "num":
        if "enum" in s:
            r.append(OR(*["%s == %s" % (v, gofloat(e)) for e in s["enum"]]))
        if "minimum" in s:
            r.append("%s %s %s" % (v, ">" if s.get("exclusiveMinimum") else ">=", gofloat(s["minimum"])))
        if "maximum" in s:
            r.append("%s %s %s" % (v, "<" if s.get("exclusiveMaximum") else "<=", gofloat(s["maximum"])))
    elif kind == "str":
        if "minLength" in s:
            r.append("len(%s) >= %d" % (v, s["minLength"]))
        if "maxLength" in s:
            r.append("len(%s) <= %d" % (v, s["maxLength"]))
        if "enum" in s:
            r.append(OR(*["vStrEq(%s, %s)" % (v, json.dumps(e)) for e in s["enum"]]))
        if "pattern" in s:
            r.append("vHasPrefixRef(%s, %s)" % (v, json.dumps(s["pattern"][1:])))
        if s.get("format") in STR_FORMATS:
            r.append("fmtok")
    elif kind == "bool":
        if "enum" in s:
            r.append(OR(*[(v if e else "!" + v) for e in s["enum"]]))
    return AND(*r)


def kind_of(s):
    t = s["type"]
    return {"integer": "int", "number": "num", "string": "str", "boolean": "bool"}[t]


def gotype(s):
    t, f = s["type"], s.get("format", "")
    if t == "integer":
        return INT_GO[f]
    if t == "number":
        return NUM_GO[f]
    if t == "string":
        return STR_FORMATS.get(f, "string")
    if t == "boolean":
        return "bool"
    if t == "array":
        return "[]" + gotype(s["items"])


def gen_text(c, s, tag, maxlen, forbid):
    """symbolic raw text of one scalar value of schema s.
    returns (raw expr, parses predicate, parsed value expr (Go, widened: int64/float64/string/bool))"""
    k = kind_of(s)
    raw = c.fresh("raw")
    if k == "num":
        f = c.fresh("f")
        ok = c.fresh("parses")
        c.emit('%s := vF64("%s.value")' % (f, tag))
        c.emit("vAssume(vIsFinite(%s))" % f)
        c.emit('%s := vBool("%s.parses")' % (ok, tag))
        conv = "ConvertFloat32" if gotype(s) == "float32" else "ConvertFloat64"
        w = f
        if gotype(s) == "float32":
            w = c.fresh("g")
            c.emit("%s := float64(float32(%s))" % (w, f))
            c.emit("vAssume(vIsFinite(%s))" % w)
        c.emit("%s := vFloatText(%s, %s, %s)" % (raw, json.dumps("github.com/go-openapi/swag." + conv), f, ok))
        c.uses_float = True
        return raw, ok, w
    c.emit('%s := vBytes("%s", %d)' % (raw, tag, maxlen))
    if forbid:
        c.emit("vAssume(vNoneOf(%s, %s))" % (raw, json.dumps(forbid)))
    if k == "int":
        v, ok = c.fresh("v"), c.fresh("parses")
        unsigned = "true" if gotype(s).startswith("uint") else "false"
        c.emit("%s, %s := vParseIntRef(%s, %s)" % (v, ok, raw, unsigned))
        return raw, ok, v
    if k == "bool":
        v = c.fresh("v")
        c.emit("%s := vTruthyRef(%s)" % (v, raw))
        return raw, "true", v
    if s.get("format") in STR_FORMATS:
        return raw, "fmtparses", raw
    return raw, "true", raw


def add_case(family, desc, p):
    name = "Case%03d" % (len(CASES) + 1)
    c = Case(name, family, desc)
    c.uses_float = False
    loc = p["in"]
    param = {k: v for k, v in p.items() if not k.startswith("_")}
    param["name"] = "p"
    path = "/" + name.lower() + ("/{p}" if loc == "path" else "")
    method = "post" if loc == "formData" else "get"
    op = {"operationId": name[0].lower() + name[1:], "parameters": [param], "responses": {"200": {"description": "ok"}}}
    if loc == "formData":
        op["consumes"] = ["application/x-www-form-urlencoded"]
    PATHS[path] = {method: op}

    required = p.get("required", False)
    allow_empty = p.get("allowEmptyValue", False)
    has_default = "default" in p
    c.emit("o := New%sParams()" % name)
    c.emit('hasKey := vBool("hasKey")')
    if loc in ("header", "path"):
        c.emit("vAssume(hasKey) // the generated BindRequest always passes true here")
    if p["type"] != "array":
        k = kind_of(p)
        raw, parses, val = gen_text(c, p, "raw", 3, "")
        if loc == "path":
            c.emit("vAssume(len(%s) > 0) // the router does not match an empty path segment" % raw)
        c.emit("var rawData []string")
        c.emit("if hasKey {")
        c.emit("\trawData = []string{%s}" % raw)
        c.emit("}")
        c.emit("empty := vOr(!hasKey, len(%s) == 0)" % raw)
        cons = scalar_constraints(p, val, k)
        if required:
            if allow_empty:
                ref = AND("hasKey", OR("empty", AND(parses, cons)))
            else:
                ref = AND("!empty", parses, cons)
        else:
            ref = OR("empty", AND(parses, cons))
        c.ref = ref
        # value left in the struct when accepted
        gt = gotype(p)
        wide = {"int": "int64", "num": "float64", "str": "string", "bool": "bool"}[k]
        pointer = (not required) and (not allow_empty)
        post = []
        if pointer:
            post.append("if !empty {")
            post.append('\tvAssert(o.P != nil && %s(*o.P) == %s, name+": the bound value is not the one carried by the request")' % (wide, val))
            post.append("} else {")
            if has_default:
                d = p["default"]
                dv = json.dumps(d) if k == "str" else ("true" if d is True else "false" if d is False else repr(d))
                post.append('\tvAssert(o.P != nil && %s(*o.P) == %s, name+": an absent optional parameter does not hold the default of the spec")' % (wide, dv))
            else:
                post.append('\tvAssert(o.P == nil, name+": an absent optional parameter holds a value")')
            post.append("}")
        else:
            post.append("if !empty {")
            post.append('\tvAssert(%s(o.P) == %s, name+": the bound value is not the one carried by the request")' % (wide, val))
            post.append("}")
        c.post = post
    elif p["items"]["type"] == "array":
        # array of arrays: outer items joined by the outer separator, each being inner items joined by the inner one
        inner = p["items"]
        leaf = inner["items"]
        ofmt, ifmt = p.get("collectionFormat", ""), inner.get("collectionFormat", "")
        osep, isep = SEP[ofmt], SEP[ifmt]
        assert osep != isep
        k = kind_of(leaf)
        c.emit('n := vInt("n", 0, 2)')
        rows = []
        for i in range(2):
            c.emit('m%d := vInt("m%d", 1, 2)' % (i, i))
            cells = []
            for j in range(2):
                raw, parses, val = gen_text(c, leaf, "e%d%d" % (i, j), 1, ",| \t\n\r\v\f")
                c.emit("vAssume(len(%s) > 0)" % raw)
                if k == "int":
                    # (unparsable items are covered by the flat array operations)
                    c.emit("vAssume(vAnd(%s[0] >= '0', %s[0] <= '9'))" % (raw, raw))
                cells.append((raw, parses, val))
            c.emit("row%d := %s" % (i, cells[0][0]))
            c.emit("if m%d > 1 {" % i)
            c.emit("\trow%d = row%d + %s + %s" % (i, i, json.dumps(isep), cells[1][0]))
            c.emit("}")
            rows.append(cells)
        c.emit("var rawData []string")
        c.emit("if hasKey {")
        c.emit('\tjoined := ""')
        c.emit("\tif n > 0 {")
        c.emit("\t\tjoined = row0")
        c.emit("\t}")
        c.emit("\tif n > 1 {")
        c.emit("\t\tjoined = joined + %s + row1" % json.dumps(osep))
        c.emit("\t}")
        c.emit("\trawData = []string{joined}")
        c.emit("}")
        c.emit("empty := vOr(!hasKey, n == 0)")
        r = []
        for i, cells in enumerate(rows):
            rr = []
            for j, (_, parses, val) in enumerate(cells):
                rr.append(OR("m%d <= %d" % (i, j), AND(parses, scalar_constraints(leaf, val, k))))
            if "minItems" in inner:
                rr.append("m%d >= %d" % (i, inner["minItems"]))
            if "maxItems" in inner:
                rr.append("m%d <= %d" % (i, inner["maxItems"]))
            r.append(OR("n <= %d" % i, AND(*rr)))
        if "minItems" in p:
            r.append("n >= %d" % p["minItems"])
        if "maxItems" in p:
            r.append("n <= %d" % p["maxItems"])
        cons = AND(*r)
        c.ref = AND("!empty", cons) if required else OR("empty", cons)
        wide = {"int": "int64", "num": "float64", "str": "string", "bool": "bool"}[k]
        post = ["if !empty {"]
        post.append('\tvAssert(len(o.P) == n, name+": the bound array has a different number of rows than the request")')
        for i, cells in enumerate(rows):
            post.append("\tif n > %d && len(o.P) > %d {" % (i, i))
            post.append('\t\tvAssert(len(o.P[%d]) == m%d, name+": a row of the bound array has a different number of items than the request")' % (i, i))
            for j, (_, _, val) in enumerate(cells):
                post.append("\t\tif m%d > %d && len(o.P[%d]) > %d {" % (i, j, i, j))
                post.append('\t\t\tvAssert(%s(o.P[%d][%d]) == %s, name+": an item of the bound array is not the one carried by the request")' % (wide, i, j, val))
                post.append("\t\t}")
            post.append("\t}")
        post.append("}")
        c.post = post
    else:
        items = p["items"]
        fmt = p.get("collectionFormat", "")
        k = kind_of(items)
        n = c.fresh("n")
        c.emit('%s := vInt("n", 0, 2)' % n)
        elems = []
        forbid = ",| \t\n\r\v\f" if fmt != "multi" else ""
        for i in range(2):
            raw, parses, val = gen_text(c, items, "e%d" % i, 2, forbid)
            if k != "num":
                c.emit("vAssume(len(%s) > 0)" % raw)
            elems.append((raw, parses, val))
        c.emit("var rawData []string")
        if fmt == "multi":
            c.emit("if hasKey {")
            c.emit("\trawData = []string{}")
            for i, (raw, _, _) in enumerate(elems):
                c.emit("\tif %s > %d {" % (n, i))
                c.emit("\t\trawData = append(rawData, %s)" % raw)
                c.emit("\t}")
            c.emit("}")
        else:
            sep = SEP[fmt]
            c.emit("if hasKey {")
            c.emit('\tjoined := ""')
            c.emit("\tif %s > 0 {" % n)
            c.emit("\t\tjoined = %s" % elems[0][0])
            c.emit("\t}")
            c.emit("\tif %s > 1 {" % n)
            c.emit("\t\tjoined = joined + %s + %s" % (json.dumps(sep), elems[1][0]))
            c.emit("\t}")
            c.emit("\trawData = []string{joined}")
            c.emit("}")
        c.emit("empty := vOr(!hasKey, %s == 0)" % n)
        r = []
        for i, (_, parses, val) in enumerate(elems):
            r.append(OR("%s <= %d" % (n, i), AND(parses, scalar_constraints(items, val, k))))
        if "minItems" in p:
            r.append("%s >= %d" % (n, p["minItems"]))
        if "maxItems" in p:
            r.append("%s <= %d" % (n, p["maxItems"]))
        if p.get("uniqueItems"):
            r.append(OR("%s < 2" % n, "!vSame(%s, %s)" % (elems[0][2], elems[1][2])))
        cons = AND(*r)
        if required:
            ref = AND("!empty", cons)
        else:
            ref = OR("empty", cons)
        c.ref = ref
        wide = {"int": "int64", "num": "float64", "str": "string", "bool": "bool"}[k]
        post = ["if !empty {"]
        post.append('\tvAssert(len(o.P) == %s, name+": the bound array has a different number of items than the request")' % n)
        for i, (_, _, val) in enumerate(elems):
            post.append('\tif %s > %d && len(o.P) > %d {' % (n, i, i))
            post.append('\t\tvAssert(%s(o.P[%d]) == %s, name+": an item of the bound array is not the one carried by the request")' % (wide, i, val))
            post.append("\t}")
        post.append("}")
        c.post = post
    CASES.append(c)
    if "default" not in p and not (p["type"] == "array" and p["items"]["type"] == "array") and family != "format":
        INTEROP.append((c, p))


def build():
    locs = ["query", "header", "formData"]
    # integers
    for f in ["", "int32", "uint32"]:
        base = {"type": "integer", "minimum": 2, "exclusiveMinimum": True, "maximum": 7}
        if f:
            base["format"] = f
        for loc in locs:
            add_case("integer", "integer/%s required in %s" % (f or "-", loc), dict(base, **{"in": loc, "required": True}))
            add_case("integer", "integer/%s optional in %s" % (f or "-", loc), dict(base, **{"in": loc}))
        add_case("integer", "integer/%s in path" % (f or "-"), dict(base, **{"in": "path", "required": True}))
        add_case("integer", "integer/%s optional with default" % (f or "-"), dict(base, **{"in": "query", "default": 5}))
        add_case("integer", "integer/%s optional allowEmptyValue" % (f or "-"), dict(base, **{"in": "query", "allowEmptyValue": True}))
        add_case("integer", "integer/%s required allowEmptyValue" % (f or "-"), dict(base, **{"in": "query", "required": True, "allowEmptyValue": True}))
        add_case("integer", "integer/%s required allowEmptyValue in formData" % (f or "-"), dict(base, **{"in": "formData", "required": True, "allowEmptyValue": True}))
        add_case("integer", "integer/%s optional allowEmptyValue in formData" % (f or "-"), dict(base, **{"in": "formData", "allowEmptyValue": True}))
    # bounds at zero: "positive" written as an exclusive minimum of 0, for unsigned and signed formats
    for f in ["uint32", "uint64", "int64"]:
        zero = {"type": "integer", "format": f, "minimum": 0, "exclusiveMinimum": True, "maximum": 7}
        add_case("integer", "integer/%s above zero required in query" % f, dict(zero, **{"in": "query", "required": True}))
        add_case("integer", "integer/%s above zero optional in header" % f, dict(zero, **{"in": "header"}))
    add_case("integer", "integer/uint32 from zero in path", {"in": "path", "required": True, "type": "integer", "format": "uint32", "minimum": 0, "maximum": 7})
    add_case("integer", "integer enum", {"in": "query", "type": "integer", "format": "int32", "enum": [1, 3]})
    add_case("integer", "integer max excl", {"in": "query", "type": "integer", "format": "int64", "minimum": 2, "maximum": 7, "exclusiveMaximum": True, "required": True})
    # numbers
    for f in ["", "float", "double"]:
        for v in ({"minimum": 2, "exclusiveMinimum": True, "maximum": 7}, {"minimum": 2, "maximum": 7, "exclusiveMaximum": True}):
            base = {"type": "number"}
            base.update(v)
            if f:
                base["format"] = f
            add_case("number", "number/%s required query" % (f or "-"), dict(base, **{"in": "query", "required": True}))
            add_case("number", "number/%s optional header" % (f or "-"), dict(base, **{"in": "header"}))
    for f in ["", "float"]:
        base = {"type": "number", "enum": [0.5, 2.5]}
        if f:
            base["format"] = f
        add_case("number", "number/%s enum required query" % (f or "-"), dict(base, **{"in": "query", "required": True}))
        add_case("number", "number/%s enum optional header" % (f or "-"), dict(base, **{"in": "header"}))
    # strings
    for vn, v in [("lengths", {"minLength": 2, "maxLength": 2}), ("enum", {"enum": ["ab", "c"]}), ("pattern", {"pattern": "^ab"}), ("plain", {})]:
        base = {"type": "string"}
        base.update(v)
        for loc in locs:
            add_case("string", "string %s required in %s" % (vn, loc), dict(base, **{"in": loc, "required": True}))
            add_case("string", "string %s optional in %s" % (vn, loc), dict(base, **{"in": loc}))
        add_case("string", "string %s in path" % vn, dict(base, **{"in": "path", "required": True}))
        add_case("string", "string %s optional with default" % vn, dict(base, **{"in": "query", "default": "ab"}))
        add_case("string", "string %s required allowEmptyValue" % vn, dict(base, **{"in": "query", "required": True, "allowEmptyValue": True}))
        add_case("string", "string %s required allowEmptyValue in formData" % vn, dict(base, **{"in": "formData", "required": True, "allowEmptyValue": True}))
    # string formats resolved through the registry
    for f, extra in [("uuid", {}), ("email", {"maxLength": 2}), ("hostname", {"enum": ["ab", "n/a"]})]:
        base = {"type": "string", "format": f}
        base.update(extra)
        for loc in ["query", "header"]:
            add_case("format", "string/%s required in %s" % (f, loc), dict(base, **{"in": loc, "required": True}))
            add_case("format", "string/%s optional in %s" % (f, loc), dict(base, **{"in": loc}))
        add_case("format", "string/%s in path" % f, dict(base, **{"in": "path", "required": True}))
        add_case("format", "array of string/%s" % f, {"in": "query", "type": "array", "items": dict(base), "maxItems": 2})
    # booleans
    for loc in locs:
        add_case("boolean", "boolean required in %s" % loc, {"in": loc, "type": "boolean", "required": True})
        add_case("boolean", "boolean optional in %s" % loc, {"in": loc, "type": "boolean"})
    add_case("boolean", "boolean optional with default true", {"in": "query", "type": "boolean", "default": True})
    add_case("boolean", "boolean enum [true]", {"in": "query", "type": "boolean", "enum": [True], "required": True})
    # arrays of arrays
    for ofmt, ifmt in [("", "pipes"), ("pipes", "csv"), ("ssv", "pipes")]:
        for leaf_name, leaf in [("string enum", {"type": "string", "enum": ["a", "b"]}), ("int32 max", {"type": "integer", "format": "int32", "maximum": 7})]:
            for vn, v, iv in [("plain", {}, {}), ("inner maxItems 1", {}, {"maxItems": 1}), ("outer maxItems 1", {"maxItems": 1}, {}), ("inner minItems 2", {}, {"minItems": 2})]:
                inner = {"type": "array", "items": leaf}
                if ifmt:
                    inner["collectionFormat"] = ifmt
                inner.update(iv)
                base = {"type": "array", "items": inner, "in": "query"}
                if ofmt:
                    base["collectionFormat"] = ofmt
                base.update(v)
                add_case("nested", "array(%s) of array(%s) of %s, %s, optional" % (ofmt or "default", ifmt or "default", leaf_name, vn), dict(base))
                if vn == "plain":
                    add_case("nested", "array(%s) of array(%s) of %s, %s, required" % (ofmt or "default", ifmt or "default", leaf_name, vn), dict(base, required=True))
    # arrays
    for fmt in ["", "csv", "pipes", "ssv", "tsv", "multi"]:
        locs_a = ["query"] if fmt == "multi" else ["query", "header"]
        for loc in locs_a:
            for it_name, it in [("string enum", {"type": "string", "enum": ["a", "bc"]}), ("int32 max", {"type": "integer", "format": "int32", "maximum": 7}),
                                ("string minLength", {"type": "string", "minLength": 2})]:
                for vn, v in [("plain", {}), ("minItems 2", {"minItems": 2}), ("maxItems 1", {"maxItems": 1}), ("uniqueItems", {"uniqueItems": True})]:
                    base = {"type": "array", "items": it, "in": loc}
                    if fmt:
                        base["collectionFormat"] = fmt
                    base.update(v)
                    add_case("array", "array(%s) of %s, %s, optional in %s" % (fmt or "default", it_name, vn, loc), dict(base))
                    if vn in ("plain", "minItems 2"):
                        add_case("array", "array(%s) of %s, %s, required in %s" % (fmt or "default", it_name, vn, loc), dict(base, required=True))


def write():
    os.makedirs(os.path.join(OUT, "restapi", "operations"), exist_ok=True)
    spec = {"swagger": "2.0", "info": {"title": "t", "version": "1"}, "basePath": "/api", "consumes": ["application/json"],
            "produces": ["application/json"], "paths": PATHS}
    with open(os.path.join(OUT, "swagger.json"), "w") as f:
        json.dump(spec, f, indent=1, sort_keys=True)
    fams = []
    for c in CASES:
        if c.family not in fams:
            fams.append(c.family)
    L = ["//go:build verif", "", "// Code generated by tools/mkgen_params.py; DO NOT EDIT.", "", "package operations", "", "func init() {"]
    for fam in fams:
        L.append('\tvRegister("VerifGenParam%s", VerifGenParam%s)' % (fam.capitalize(), fam.capitalize()))
    L += ["}", ""]
    for fam in fams:
        cs = [c for c in CASES if c.family == fam]
        L.append("// VerifGenParam%s: %d operations" % (fam.capitalize(), len(cs)))
        L.append("func VerifGenParam%s() {" % fam.capitalize())
        L.append('\tk := vChoice("case", %d)' % len(cs))
        L.append('\tif st := vParam("stride"); st > 1 && k%st != vParam("offset") {')
        L.append('\t\tvAssume(false) // this tier explores every stride-th operation')
        L.append('\t}')
        L.append('\tswitch k {')
        for i, c in enumerate(cs):
            L.append("\tcase %d:" % i)
            L.append("\t\tv%s()" % c.name)
        L.append("\t}")
        L.append("}")
        L.append("")
    for c in CASES:
        L.append("// %s: %s" % (c.name, c.desc))
        L.append("func v%s() {" % c.name)
        L.append("\tname := %s" % json.dumps(c.name + " (" + c.desc + ")"))
        L.append('\tfmtparses, fmtok := vBool("text.parses"), vBool("text.isWellFormed")')
        L.append("\t_, _ = fmtparses, fmtok")
        L += c.lines
        L.append("\tref := %s" % c.ref)
        L.append("\terr := o.bindP(rawData, hasKey, vFormats{parses: fmtparses, valid: fmtok})")
        L.append('\tvCover("%s")' % c.family)
        L.append("\tvCheckVerdict(err == nil, ref, name)")
        L.append("\tif err == nil {")
        for l in c.post:
            L.append("\t\t" + l)
        L.append("\t}")
        L.append("}")
        L.append("")
    with open(os.path.join(OUT, "restapi", "operations", "zz_verif_cases.go"), "w") as f:
        f.write("\n".join(L))
    print("wrote %d cases" % len(CASES))
    for fam in fams:
        print("  %s: %d" % (fam, len([c for c in CASES if c.family == fam])))


# ---- C04: generated client writer -> generated server binder, per operation ------------------------

INT_VOCAB = [0, 1, -1, 3, 5, 7, 10, 2147483647]
NUM_VOCAB = [0.0, 0.5, 2.5, 3.0, 7.0, 6.999, 1e21]


def interop_case(c_name, desc, p):
    """Go statements of one round trip; returns list of lines"""
    L = []
    loc = p["in"]
    required = p.get("required", False)
    allow_empty = p.get("allowEmptyValue", False)
    wide = {"int": "int64", "num": "float64", "str": "string", "bool": "bool"}
    L.append("name := %s" % json.dumps(c_name + " (" + desc + ")"))
    L.append("cp := cops.New%sParams()" % c_name)
    L.append("cp.P = *new(%s) // forget the defaults: the value under test is set below" % ("[]" + gotype(p["items"]) if p["type"] == "array" else ("*" if (not required and not allow_empty) else "") + gotype(p)))
    kind_loc = {"query": "query", "header": "header", "formData": "form", "path": "path"}[loc]

    def scalar_value(s, tag):
        k = kind_of(s)
        gt = gotype(s)
        if k == "int":
            v = "iv" + tag
            L.append("%s := []int64{%s}[vChoice(%s, %d)]" % (v, ", ".join(str(x) for x in INT_VOCAB), json.dumps("value" + tag), len(INT_VOCAB)))
            if gt.startswith("uint"):
                L.append("vAssume(%s >= 0)" % v)
            return v, "%s(%s)" % (gt, v), k
        if k == "num":
            v = "fv" + tag
            L.append("%s := []float64{%s}[vChoice(%s, %d)]" % (v, ", ".join(repr(x) for x in NUM_VOCAB), json.dumps("value" + tag), len(NUM_VOCAB)))
            if gt == "float32":
                L.append("%s = float64(float32(%s))" % (v, v))
            return v, "%s(%s)" % (gt, v), k
        if k == "bool":
            v = "bv" + tag
            L.append("%s := vBool(%s)" % (v, json.dumps("value" + tag)))
            return v, v, k
        v = "sv" + tag
        L.append("%s := vBytes(%s, 3)" % (v, json.dumps("value" + tag)))
        if not s.get("allowEmptyValue"):
            L.append("vAssume(len(%s) > 0) // an empty text and an absent parameter are not told apart on the wire" % v)
        return v, v, k

    if p["type"] != "array":
        v, conv, k = scalar_value(p, "")
        valid = scalar_constraints(p, v, k)
        pointer = (not required) and (not allow_empty)
        if pointer:
            L.append('set := vBool("set")')
            L.append("if set {")
            L.append("\tt := %s" % conv)
            L.append("\tcp.P = &t")
            L.append("}")
        else:
            L.append("set := true")
            L.append("cp.P = %s" % conv)
        L.append("vAssume(vOr(!set, %s)) // only values the spec allows" % valid)
        L.append("req := vNewCapture()")
        L.append('vAssert(cp.WriteToRequest(req, nil) == nil, name+": the client fails to write a valid parameter")')
        L.append("raw, has := req.get(%s, \"p\")" % json.dumps(kind_loc))
        if loc in ("header", "path"):
            L.append("has = true")
        L.append("o := New%sParams()" % c_name)
        L.append("err := o.bindP(raw, has, nil)")
        L.append('vCover("interop")')
        L.append('vAssert(err == nil, name+": the server rejects what the client sent for a valid value")')
        L.append("if err == nil && set {")
        if pointer:
            L.append('\tvAssert(o.P != nil && %s(*o.P) == %s, name+": the handler does not get the value the client was given")' % (wide[k], v))
        else:
            L.append('\tvAssert(%s(o.P) == %s, name+": the handler does not get the value the client was given")' % (wide[k], v))
        L.append("}")
        return L
    items = p["items"]
    fmt = p.get("collectionFormat", "")
    k = kind_of(items)
    L.append('n := vInt("n", 0, 2)')
    vals = []
    for i in range(2):
        v, conv, _ = scalar_value(items, str(i))
        if k == "str" and fmt != "multi":
            L.append("vAssume(vNoneOf(%s, %s))" % (v, json.dumps(",| \t\n\r\v\f")))
        vals.append((v, conv))
    L.append("if n > 0 {")
    L.append("\tcp.P = %s{}" % ("[]" + gotype(items)))
    for i, (v, conv) in enumerate(vals):
        L.append("\tif n > %d {" % i)
        L.append("\t\tcp.P = append(cp.P, %s)" % conv)
        L.append("\t}")
    L.append("}")
    r = []
    for i, (v, _) in enumerate(vals):
        r.append(OR("n <= %d" % i, scalar_constraints(items, v, k)))
    if "minItems" in p:
        r.append("n >= %d" % p["minItems"])
    if "maxItems" in p:
        r.append("n <= %d" % p["maxItems"])
    if p.get("uniqueItems"):
        r.append(OR("n < 2", "!vSame(%s, %s)" % (vals[0][0], vals[1][0])))
    if required:
        r.append("n > 0")
    L.append("vAssume(%s) // only values the spec allows" % AND(*r))
    L.append("req := vNewCapture()")
    L.append('vAssert(cp.WriteToRequest(req, nil) == nil, name+": the client fails to write a valid parameter")')
    L.append("raw, has := req.get(%s, \"p\")" % json.dumps(kind_loc))
    if loc in ("header", "path"):
        L.append("has = true")
    L.append("o := New%sParams()" % c_name)
    L.append("err := o.bindP(raw, has, nil)")
    L.append('vCover("interop")')
    L.append('vAssert(err == nil, name+": the server rejects what the client sent for a valid value")')
    L.append("if err == nil {")
    L.append('\tvAssert(len(o.P) == n, name+": the handler gets a different number of items than the client was given")')
    for i, (v, _) in enumerate(vals):
        L.append("\tif n > %d && len(o.P) > %d {" % (i, i))
        L.append('\t\tvAssert(%s(o.P[%d]) == %s, name+": an item reaches the handler with a different value")' % (wide[k], i, v))
        L.append("\t}")
    L.append("}")
    return L


INTEROP = []


def write_c04():
    out_dir = os.path.join(ROOT, "harness", "gen", "c04", "restapi", "operations")
    os.makedirs(out_dir, exist_ok=True)
    fams = []
    for (c, p) in INTEROP:
        if c.family not in fams:
            fams.append(c.family)
    L = ["//go:build verif", "", "// Code generated by tools/mkgen_params.py; DO NOT EDIT.", "", "package operations", "",
         'import cops "verifgen/client/operations"', "", "func init() {"]
    for fam in fams:
        L.append('\tvRegister("VerifGenInterop%s", VerifGenInterop%s)' % (fam.capitalize(), fam.capitalize()))
    L += ["}", ""]
    for fam in fams:
        cs = [c for (c, p) in INTEROP if c.family == fam]
        L.append("func VerifGenInterop%s() {" % fam.capitalize())
        L.append('\tk := vChoice("case", %d)' % len(cs))
        L.append('\tif st := vParam("stride"); st > 1 && k%st != vParam("offset") {')
        L.append('\t\tvAssume(false)')
        L.append('\t}')
        L.append('\tswitch k {')
        for i, c in enumerate(cs):
            L.append("\tcase %d:" % i)
            L.append("\t\tvInterop%s()" % c.name)
        L.append("\t}")
        L.append("}")
        L.append("")
    for (c, p) in INTEROP:
        L.append("// %s: %s" % (c.name, c.desc))
        L.append("func vInterop%s() {" % c.name)
        for l in interop_case(c.name, c.desc, p):
            L.append("\t" + l)
        L.append("}")
        L.append("")
    with open(os.path.join(out_dir, "zz_verif_interop.go"), "w") as f:
        f.write("\n".join(L))
    print("wrote %d interop cases" % len(INTEROP))


if __name__ == "__main__":
    build()
    write()
    write_c04()
