#!/usr/bin/env python3
"""Writes the spec and the harness of the generated-code check of C02 (harness/gen/c02).

Every case is one schema definition. From the same descriptor this tool derives
  * the definition put into swagger.json (input of the real generator built from /repo), and
  * a Go harness that builds a symbolic value of the generated Go type - i.e. a symbolic JSON
    document decoded the way encoding/json would decode it - calls the generated Validate
    method, and compares the verdict with a reference predicate written directly from the
    JSON-schema semantics of the keywords (this file, function ref_*), not from the generator.

The only knowledge about go-swagger used here is the documented mapping from schema to Go type
(docs/reference/models/schemas.md): required scalars are pointers, optional ones are values
unless x-nullable, arrays are slices, additionalProperties are maps, $ref to an object is a
pointer to the struct. If that mapping changes the harness stops compiling and the check
answers 'no verdict' (exit 2), never a violation.

Run:  python3 tools/mkgen_models.py     (rewrites harness/gen/c02/swagger.json and
                                        harness/gen/c02/models/zz_verif_cases.go)
"""
import json, os, sys

ROOT = os.path.dirname(os.path.dirname(os.path.abspath(__file__)))
OUT = os.path.join(ROOT, "harness", "gen", "c02")

INT_TYPES = {  # (type, format) -> (go type, lo, hi)
    ("integer", ""): ("int64", -2**63, 2**63 - 1),
    ("integer", "int32"): ("int32", -2**31, 2**31 - 1),
    ("integer", "int64"): ("int64", -2**63, 2**63 - 1),
    ("integer", "uint32"): ("uint32", 0, 2**32 - 1),
    ("integer", "uint64"): ("uint64", 0, 2**63 - 1),  # symbolic values are drawn from int64: upper half outside the claim
}
STR_FORMATS = {"uuid": "strfmt.UUID", "email": "strfmt.Email", "hostname": "strfmt.Hostname", "ipv4": "strfmt.IPv4", "uri": "strfmt.URI"}
NUM_TYPES = {("number", ""): "float64", ("number", "double"): "float64", ("number", "float"): "float32"}


def AND(*xs):
    xs = [x for x in xs if x != "true"]
    if not xs:
        return "true"
    if "false" in xs:
        return "false"
    r = xs[0]
    for x in xs[1:]:
        r = "vAnd(%s, %s)" % (r, x)
    return r


def OR(*xs):
    xs = [x for x in xs if x != "false"]
    if not xs:
        return "false"
    if "true" in xs:
        return "true"
    r = xs[0]
    for x in xs[1:]:
        r = "vOr(%s, %s)" % (r, x)
    return r


def NOT(x):
    if x == "true":
        return "false"
    if x == "false":
        return "true"
    return "!(%s)" % x


def goname(n):
    return n[0].upper() + n[1:]


def gofloat(v):
    s = repr(float(v))
    return s


class Case:
    def __init__(self, name, family, desc):
        self.name, self.family, self.desc = name, family, desc
        self.lines = []
        self.n = 0
        self.uses_format = False

    def fresh(self, base):
        self.n += 1
        return "%s%d" % (base, self.n)

    def emit(self, s):
        self.lines.append("\t" + s)


DEFS = {}  # all definitions of the spec
CASES = []


def is_ref(s):
    return "$ref" in s


def deref(s):
    return DEFS[s["$ref"].split("/")[-1]]


def refname(s):
    return s["$ref"].split("/")[-1]


def kind(s):
    if is_ref(s):
        t = deref(s)
        k = kind(t)
        return "refobject" if k in ("object", "allof") else "ref" + k
    if "allOf" in s:
        return "allof"
    t = s.get("type")
    if t == "array":
        return "array"
    if t == "object":
        if "additionalProperties" in s and "properties" not in s:
            return "map"
        return "object"
    return "scalar"


def base_gotype(s):
    """Go type of a value of this schema in a non-pointer context"""
    if is_ref(s):
        return refname(s)
    k = kind(s)
    if k == "array":
        return "[]" + elem_gotype(s["items"])
    if k == "map":
        return "map[string]" + elem_gotype(s["additionalProperties"])
    if k == "scalar":
        t, f = s["type"], s.get("format", "")
        if t == "integer":
            return INT_TYPES[(t, f)][0]
        if t == "number":
            return NUM_TYPES[(t, f)]
        if t == "string":
            return STR_FORMATS.get(f, "string")
        if t == "boolean":
            return "bool"
    raise Exception("inline objects are not used by this tool: %r" % s)


def elem_gotype(s):
    if kind(s) == "refobject":
        if s.get("_mapvalue"):
            return refname(s)
        return "*" + refname(s)
    if s.get("x-nullable"):
        return "*" + base_gotype(s)
    return base_gotype(s)


# ---- scalars ---------------------------------------------------------------------------------

MODE = "c02"  # "c05": numbers from small vocabularies (the JSON model writes concrete numbers), alphanumeric texts


def gen_scalar_c05(c, s, tag):
    t, f = s["type"], s.get("format", "")
    if t == "integer":
        gt, lo, hi = INT_TYPES[(t, f)]
        v = c.fresh("i")
        vocab = [0, 7] if lo >= 0 else [0, -3]
        if "enum" in s:
            vocab = list(s["enum"]) + [0]
        c.emit('%s := []int64{%s}[vChoice("%s", %d)]' % (v, ", ".join(str(x) for x in vocab), tag, len(vocab)))
        return "%s(%s)" % (gt, v), "true", "%s == 0" % v
    if t == "number":
        gt = NUM_TYPES[(t, f)]
        v = c.fresh("f")
        c.emit('%s := []float64{0, 2.5}[vChoice("%s", 2)]' % (v, tag))
        return "%s(%s)" % (gt, v), "true", "%s == 0" % v
    if t == "string":
        v = c.fresh("s")
        c.emit('%s := vBytes("%s", 1)' % (v, tag))
        c.emit("vAssume(vAlnum(%s))" % v)
        if f in STR_FORMATS:
            return "%s(%s)" % (STR_FORMATS[f], v), "true", "len(%s) == 0" % v
        return v, "true", "len(%s) == 0" % v
    v = c.fresh("b")
    c.emit('%s := vBool("%s")' % (v, tag))
    return v, "true", "!" + v


def gen_scalar(c, s, tag):
    """returns (go expr of the base type, reference predicate, is-zero predicate)"""
    if MODE == "c05":
        return gen_scalar_c05(c, s, tag)
    t, f = s["type"], s.get("format", "")
    if t == "integer":
        gt, lo, hi = INT_TYPES[(t, f)]
        v = c.fresh("i")
        c.emit('%s := vI64("%s")' % (v, tag))
        conds = []
        if lo > -2**63:
            conds.append("%s >= %d" % (v, lo))
        if hi < 2**63 - 1:
            conds.append("%s <= %d" % (v, hi))
        if conds:
            c.emit("vAssume(%s)" % AND(*conds))
        r = []
        if "minimum" in s:
            r.append("%s %s %d" % (v, ">" if s.get("exclusiveMinimum") else ">=", s["minimum"]))
        if "maximum" in s:
            r.append("%s %s %d" % (v, "<" if s.get("exclusiveMaximum") else "<=", s["maximum"]))
        if "enum" in s:
            r.append(OR(*["%s == %d" % (v, e) for e in s["enum"]]))
        if "multipleOf" in s:
            r.append("%s %% %d == 0" % (v, s["multipleOf"]))
        return "%s(%s)" % (gt, v), AND(*r), "%s == 0" % v
    if t == "number":
        gt = NUM_TYPES[(t, f)]
        v = c.fresh("f")
        c.emit('%s := vF64("%s")' % (v, tag))
        c.emit("vAssume(vIsFinite(%s))" % v)
        w = v
        if gt == "float32":
            w = c.fresh("g")
            c.emit("%s := float64(float32(%s)) // the value a float32 field can hold" % (w, v))
            c.emit("vAssume(vIsFinite(%s))" % w)
        r = []
        if "minimum" in s:
            r.append("%s %s %s" % (w, ">" if s.get("exclusiveMinimum") else ">=", gofloat(s["minimum"])))
        if "maximum" in s:
            r.append("%s %s %s" % (w, "<" if s.get("exclusiveMaximum") else "<=", gofloat(s["maximum"])))
        if "enum" in s:
            r.append(OR(*["%s == %s" % (w, gofloat(e)) for e in s["enum"]]))
        return "%s(%s)" % (gt, v), AND(*r), "%s == 0" % w
    if t == "string":
        v = c.fresh("s")
        c.emit('%s := vBytes("%s", %d)' % (v, tag, s.get("_maxlen", 5)))
        r = []
        if "minLength" in s:
            r.append("len(%s) >= %d" % (v, s["minLength"]))
        if "maxLength" in s:
            r.append("len(%s) <= %d" % (v, s["maxLength"]))
        if "enum" in s:
            r.append(OR(*['vStrEq(%s, %s)' % (v, json.dumps(e)) for e in s["enum"]]))
        if "pattern" in s:
            p = s["pattern"]
            assert p.startswith("^") and p[1:].isalnum(), "only ^literal patterns have a hand-written reference"
            lit = p[1:]
            r.append("vHasPrefixRef(%s, %s)" % (v, json.dumps(lit)))
        if f in STR_FORMATS:
            # whether a text is a well-formed <format> is the registry's business: an oracle bit of the case
            c.uses_format = True
            r.append("fmtok")
            return "%s(%s)" % (STR_FORMATS[f], v), AND(*r), "len(%s) == 0" % v
        return v, AND(*r), "len(%s) == 0" % v
    if t == "boolean":
        v = c.fresh("b")
        c.emit('%s := vBool("%s")' % (v, tag))
        r = []
        if "enum" in s:
            r.append(OR(*[(v if e else "!" + v) for e in s["enum"]]))
        return v, AND(*r), "!" + v
    raise Exception("scalar type " + t)


# ---- any value ------------------------------------------------------------------------------------

def gen_value(c, s, tag):
    """symbolic value of schema s (non-pointer Go value): (expr, ref, iszero)"""
    if is_ref(s):
        t = deref(s)
        e, r, z = gen_value(c, t, tag)
        k = kind(t)
        if k in ("object", "allof"):
            return e, r, z  # e is already a composite literal of the named struct (see gen_object)
        return "%s(%s)" % (refname(s), e), r, z
    k = kind(s)
    if k == "scalar":
        return gen_scalar(c, s, tag)
    if k == "array":
        return gen_array(c, s, tag)
    if k == "map":
        return gen_map(c, s, tag)
    raise Exception("unsupported inline schema %r" % s)


MAXN = 2


def gen_elems(c, items, tag, n):
    """MAXN symbolic element values: list of (expr in element position, ref, base expr)"""
    out = []
    for i in range(MAXN):
        e, r, _ = gen_value(c, items, "%s.%d" % (tag, i))
        base = e
        if elem_gotype(items).startswith("*"):
            tmp = c.fresh("e")
            c.emit("%s := %s" % (tmp, e))
            e = "&" + tmp
            base = tmp
        out.append((e, r, base))
    return out


def gen_array(c, s, tag):
    items = s["items"]
    n = c.fresh("n")
    # state 0: absent/null (nil slice); k+1: present with k elements
    st = c.fresh("st")
    c.emit('%s := vInt("%s.state", 0, %d)' % (st, tag, MAXN + 1))
    c.emit("%s := %s - 1" % (n, st))
    elems = gen_elems(c, items, tag, n)
    arr = c.fresh("arr")
    gt = "[]" + elem_gotype(items)
    c.emit("var %s %s" % (arr, gt))
    c.emit("if %s > 0 {" % st)
    c.emit("\t%s = %s{}" % (arr, gt))
    for i, (e, _, _) in enumerate(elems):
        c.emit("\tif %s > %d {" % (n, i))
        c.emit("\t\t%s = append(%s, %s)" % (arr, arr, e))
        c.emit("\t}")
    c.emit("}")
    r = []
    if "minItems" in s:
        r.append("%s >= %d" % (n, s["minItems"]))
    if "maxItems" in s:
        r.append("%s <= %d" % (n, s["maxItems"]))
    for i, (_, er, _) in enumerate(elems):
        if er != "true":
            r.append(OR("%s <= %d" % (n, i), er))
    if s.get("uniqueItems"):
        assert MAXN == 2
        r.append(OR("%s < 2" % n, "!vSame(%s, %s)" % (elems[0][2], elems[1][2])))
    # present (state>0) is a separate fact: the caller decides what absence means
    c.last_present = "%s > 0" % st
    return arr, AND(*r), "%s <= 0" % n


def gen_map(c, s, tag, ptr_values=False):
    vs = dict(s["additionalProperties"])
    if not ptr_values:
        vs["_mapvalue"] = True
    st = c.fresh("st")
    n = c.fresh("n")
    c.emit('%s := vInt("%s.state", 0, %d)' % (st, tag, MAXN + 1))
    c.emit("%s := %s - 1" % (n, st))
    elems = gen_elems(c, vs, tag, n)
    m = c.fresh("mp")
    gt = "map[string]" + elem_gotype(vs)
    c.emit("var %s %s" % (m, gt))
    c.emit("if %s > 0 {" % st)
    c.emit("\t%s = %s{}" % (m, gt))
    for i, (e, _, _) in enumerate(elems):
        c.emit("\tif %s > %d {" % (n, i))
        c.emit('\t\t%s["k%d"] = %s' % (m, i, e))
        c.emit("\t}")
    c.emit("}")
    r = []
    if "minProperties" in s:
        r.append("%s >= %d" % (n, s["minProperties"]))
    if "maxProperties" in s:
        r.append("%s <= %d" % (n, s["maxProperties"]))
    for i, (_, er, _) in enumerate(elems):
        if er != "true":
            r.append(OR("%s <= %d" % (n, i), er))
    c.last_present = "%s > 0" % st
    return m, AND(*r), "%s <= 0" % n


def obj_props(s):
    """(properties, required) of an object or allOf schema, members merged"""
    props, req = {}, []
    if "allOf" in s:
        for m in s["allOf"]:
            t = deref(m) if is_ref(m) else m
            p, r = obj_props(t)
            props.update(p)
            req += r
        return props, req
    return dict(s.get("properties", {})), list(s.get("required", []))


def gen_fields(c, s, tag):
    """field initialisers + reference predicate for the properties declared directly by s"""
    fields, r, zs = [], [], []
    props, req = dict(s.get("properties", {})), list(s.get("required", []))
    for pn in sorted(props):
        ps = props[pn]
        required = pn in req
        k = kind(ps)
        fe, fr, fz = gen_prop(c, ps, "%s.%s" % (tag, pn), required, k)
        fields.append("%s: %s" % (goname(pn), fe))
        r.append(fr)
        zs.append(fz)
    return fields, AND(*r), AND(*zs)


def gen_prop(c, ps, tag, required, k):
    """(field expr, reference predicate, field-is-zero predicate)"""
    if k in ("scalar", "refscalar"):
        e, r, z = gen_value(c, ps, tag)
        nullable = ps.get("x-nullable", False)
        if required and ps.get("readOnly") and not nullable:
            # required + readOnly: a plain value whose zero value counts as absent (documented difference)
            return e, AND(NOT(z), r), z
        if required or nullable:
            has = c.fresh("has")
            c.emit('%s := vBool("%s.present")' % (has, tag))
            tmp = c.fresh("p")
            c.emit("%s := %s" % (tmp, e))
            fe = "vMaybeNil(!%s, &%s)" % (has, tmp)
            if required:
                return fe, AND(has, r), "!" + has
            return fe, OR("!" + has, r), "!" + has
        # optional value: the zero value stands for an absent property (documented difference)
        return e, OR(z, r), z
    if k == "refobject":
        e, r, _ = gen_value(c, ps, tag)
        has = c.fresh("has")
        c.emit('%s := vBool("%s.present")' % (has, tag))
        tmp = c.fresh("o")
        c.emit("%s := %s" % (tmp, e))
        fe = "vMaybeNil(!%s, &%s)" % (has, tmp)
        if required:
            return fe, AND(has, r), "!" + has
        return fe, OR("!" + has, r), "!" + has
    if k in ("array", "map", "refarray", "refmap"):
        e, r, empty = gen_value(c, ps, tag)
        present = c.last_present
        if required:
            return e, AND(present, r), NOT(present)
        # optional: absent/null (a nil slice or map) is fine; an empty container is a value like any other
        return e, OR(NOT(present), r), NOT(present)
    raise Exception("property kind " + k)


def gen_object(c, s, tag, tname):
    """composite literal of struct tname"""
    if "allOf" in s:
        inits, r, zs = [], [], []
        for m in s["allOf"]:
            if is_ref(m):
                e, mr, mz = gen_object(c, deref(m), tag, refname(m))
                inits.append("%s: %s" % (refname(m), e))
                r.append(mr)
                zs.append(mz)
            else:
                f, mr, mz = gen_fields(c, m, tag)
                inits += f
                r.append(mr)
                zs.append(mz)
        return "%s{%s}" % (tname, ", ".join(inits)), AND(*r), AND(*zs)
    f, r, z = gen_fields(c, s, tag)
    if "additionalProperties" in s:
        # mixed object: the extra members live in a map field named after the type
        me, mr, mz = gen_map(c, {"type": "object", "additionalProperties": s["additionalProperties"]}, tag + ".extra", ptr_values=True)
        f.append("%s: %s" % (tname, me))
        r = AND(r, mr)
    return "%s{%s}" % (tname, ", ".join(f)), r, z


_orig_gen_value = gen_value


def gen_value(c, s, tag):  # noqa: F811  (objects need the type name)
    if is_ref(s) and kind(s) == "refobject":
        return gen_object(c, deref(s), tag, refname(s))
    return _orig_gen_value(c, s, tag)


# ---- cases -------------------------------------------------------------------------------------------

def add_def(name, s):
    assert name not in DEFS, name
    DEFS[name] = s
    return {"$ref": "#/definitions/" + name}


def add_case(family, desc, s, name=None):
    name = name or "Case%03d" % (len(CASES) + 1)
    add_def(name, s)
    c = Case(name, family, desc)
    k = kind(s)
    if k in ("object", "allof"):
        e, r, _ = gen_object(c, s, name, name)
        c.emit("m := &%s" % e)
    else:
        e, r, _ = _orig_gen_value(c, s, name)
        c.emit("m := %s(%s)" % (name, e))
        if k in ("array", "map"):
            # a top-level document is present by construction: null is not a value of the definition
            c.emit("vAssume(%s)" % c.last_present)
    c.ref = r
    CASES.append(c)
    build_c05_twin(name, family, desc, s)
    return name


C05CASES = []


def build_c05_twin(name, family, desc, s):
    global MODE
    MODE = "c05"
    try:
        c = Case(name, family, desc)
        k = kind(s)
        if k in ("object", "allof"):
            e, _, _ = gen_object(c, s, name, name)
            c.emit("m := %s" % e)
        else:
            e, _, _ = _orig_gen_value(c, s, name)
            c.emit("m := %s(%s)" % (name, e))
        c.schema = s
        C05CASES.append(c)
    except KeyError:
        pass  # free-form (typeless) schemas have no value generator
    finally:
        MODE = "c02"


# ---- equality of two decoded values of a schema (nil and empty containers are the same) -------------

class Eq:
    def __init__(self):
        self.lines = []
        self.n = 0

    def fresh(self, b):
        self.n += 1
        return "%s%d" % (b, self.n)

    def emit(self, ind, s):
        self.lines.append("\t" * ind + s)


def emit_eq(q, s, a, b, ind):
    """a, b: Go expressions of the base (non-pointer) type of schema s"""
    if is_ref(s):
        t = deref(s)
        if kind(t) in ("object", "allof"):
            emit_eq_object(q, t, a, b, ind, refname(s))
            return
        emit_eq(q, t, a, b, ind)
        return
    k = kind(s)
    if k == "scalar":
        q.emit(ind, "ok = vAnd(ok, %s == %s)" % (a, b))
        return
    if k == "array":
        items = s["items"]
        i = q.fresh("i")
        q.emit(ind, "ok = vAnd(ok, len(%s) == len(%s))" % (a, b))
        q.emit(ind, "for %s := 0; %s < len(%s) && %s < len(%s); %s++ {" % (i, i, a, i, b, i))
        ea, eb = "%s[%s]" % (a, i), "%s[%s]" % (b, i)
        if elem_gotype(items).startswith("*"):
            q.emit(ind + 1, "ok = vAnd(ok, (%s == nil) == (%s == nil))" % (ea, eb))
            q.emit(ind + 1, "if %s != nil && %s != nil {" % (ea, eb))
            emit_eq(q, items, "(*%s)" % ea, "(*%s)" % eb, ind + 2)
            q.emit(ind + 1, "}")
        else:
            emit_eq(q, items, ea, eb, ind + 1)
        q.emit(ind, "}")
        return
    if k == "map":
        emit_eq_map(q, s["additionalProperties"], a, b, ind, False)
        return
    raise Exception("eq: " + k)


def emit_eq_map(q, vs, a, b, ind, ptr_values):
    kk, av, bv, has = q.fresh("k"), q.fresh("av"), q.fresh("bv"), q.fresh("has")
    q.emit(ind, "ok = vAnd(ok, len(%s) == len(%s))" % (a, b))
    q.emit(ind, "for %s, %s := range %s {" % (kk, av, a))
    q.emit(ind + 1, "%s, %s := %s[%s]" % (bv, has, b, kk))
    q.emit(ind + 1, "ok = vAnd(ok, %s)" % has)
    q.emit(ind + 1, "if %s {" % has)
    vs2 = dict(vs)
    if not ptr_values:
        vs2["_mapvalue"] = True
    if elem_gotype(vs2).startswith("*"):
        q.emit(ind + 2, "ok = vAnd(ok, (%s == nil) == (%s == nil))" % (av, bv))
        q.emit(ind + 2, "if %s != nil && %s != nil {" % (av, bv))
        emit_eq(q, vs, "(*%s)" % av, "(*%s)" % bv, ind + 3)
        q.emit(ind + 2, "}")
    else:
        emit_eq(q, vs, av, bv, ind + 2)
    q.emit(ind + 1, "}")
    q.emit(ind, "}")


def emit_eq_fields(q, s, a, b, ind):
    props, req = dict(s.get("properties", {})), list(s.get("required", []))
    for pn in sorted(props):
        ps = props[pn]
        k = kind(ps)
        fa, fb = "%s.%s" % (a, goname(pn)), "%s.%s" % (b, goname(pn))
        required = pn in req
        pointer = False
        if k in ("scalar", "refscalar"):
            pointer = (required and not (ps.get("readOnly") and not ps.get("x-nullable"))) or ps.get("x-nullable", False)
        elif k == "refobject":
            pointer = True
        if pointer:
            q.emit(ind, "ok = vAnd(ok, (%s == nil) == (%s == nil))" % (fa, fb))
            q.emit(ind, "if %s != nil && %s != nil {" % (fa, fb))
            emit_eq(q, ps, "(*%s)" % fa, "(*%s)" % fb, ind + 1)
            q.emit(ind, "}")
        else:
            emit_eq(q, ps, fa, fb, ind)


def emit_eq_object(q, s, a, b, ind, tname):
    if "allOf" in s:
        for m in s["allOf"]:
            if is_ref(m):
                emit_eq_object(q, deref(m), "%s.%s" % (a, refname(m)), "%s.%s" % (b, refname(m)), ind, refname(m))
            else:
                emit_eq_fields(q, m, a, b, ind)
        return
    emit_eq_fields(q, s, a, b, ind)
    if "additionalProperties" in s and "properties" in s:
        emit_eq_map(q, s["additionalProperties"], "%s.%s" % (a, tname), "%s.%s" % (b, tname), ind, True)


def write_c05():
    out_dir = os.path.join(ROOT, "harness", "gen", "c05", "models")
    os.makedirs(out_dir, exist_ok=True)
    fams = []
    for c in C05CASES:
        if c.family not in fams:
            fams.append(c.family)
    L = ["//go:build verif", "", "// Code generated by tools/mkgen_models.py; DO NOT EDIT.", "", "package models", "",
         "import (", '\t"encoding/json"', "", '\t"github.com/go-openapi/strfmt"', ")", "", "var _ strfmt.UUID", "", "func init() {"]
    for fam in fams:
        L.append('\tvRegister("VerifGenRT%s", VerifGenRT%s)' % (goname(fam), goname(fam)))
    L += ["}", ""]
    for fam in fams:
        cs = [c for c in C05CASES if c.family == fam]
        L.append("func VerifGenRT%s() {" % goname(fam))
        L.append('\tk := vChoice("case", %d)' % len(cs))
        L.append('\tif st := vParam("stride"); st > 1 && k%st != vParam("offset") {')
        L.append("\t\tvAssume(false)")
        L.append("\t}")
        L.append("\tswitch k {")
        for i, c in enumerate(cs):
            L.append("\tcase %d:" % i)
            L.append("\t\tvRT%s()" % c.name)
        L.append("\t}")
        L.append("}")
        L.append("")
    for c in C05CASES:
        q = Eq()
        s = c.schema
        if kind(s) in ("object", "allof"):
            emit_eq_object(q, s, "m", "m2", 1, c.name)
        else:
            emit_eq(q, s, "m", "m2", 1)
        L.append("// %s: %s" % (c.name, c.desc))
        L.append("func vRT%s() {" % c.name)
        L.append("\tname := %s" % json.dumps(c.name + " (" + c.desc + ")"))
        L += c.lines
        L.append("\ttxt1, err := json.Marshal(m)")
        L.append('\tvAssert(err == nil, name+": the model cannot be encoded")')
        L.append("\tif err != nil {")
        L.append("\t\treturn")
        L.append("\t}")
        L.append("\tvar m2 %s" % c.name)
        L.append("\terr = json.Unmarshal(txt1, &m2)")
        L.append('\tvCover("%s")' % c.family)
        L.append('\tvAssert(err == nil, name+": the model cannot decode what it encoded")')
        L.append("\tif err != nil {")
        L.append("\t\treturn")
        L.append("\t}")
        L.append("\tok := true")
        L += q.lines
        L.append('\tvAssert(ok, name+": decoding the encoded model yields other values")')
        L.append("\ttxt2, err2 := json.Marshal(m2)")
        L.append('\tvAssert(err2 == nil && string(txt1) == string(txt2), name+": encoding the re-decoded model does not reproduce the text")')
        L.append("}")
        L.append("")
    with open(os.path.join(out_dir, "zz_verif_roundtrip.go"), "w") as f:  # (zz_verif_rt.go is the runtime's name)
        f.write("\n".join(L))
    print("wrote %d C05 round-trip cases" % len(C05CASES))


NUM_VARIANTS = [
    ("min excl / max incl", {"minimum": 2, "exclusiveMinimum": True, "maximum": 7}),
    ("min incl / max excl", {"minimum": 2, "maximum": 7, "exclusiveMaximum": True}),
]


def with_(s, **kw):
    d = dict(s)
    d.update(kw)
    return d


def contexts(family, desc, leaf, aux):
    """the same constrained leaf schema in every position a schema can occupy"""
    add_case(family, desc + " as a named definition", dict(leaf))
    add_case(family, desc + " as required property", {"type": "object", "required": ["p"], "properties": {"p": dict(leaf)}})
    add_case(family, desc + " as optional property", {"type": "object", "properties": {"p": dict(leaf)}})
    add_case(family, desc + " as optional x-nullable property", {"type": "object", "properties": {"p": with_(leaf, **{"x-nullable": True})}})
    add_case(family, desc + " as items of a named array", {"type": "array", "items": dict(leaf)})
    add_case(family, desc + " as items of an optional array property", {"type": "object", "properties": {"p": {"type": "array", "items": dict(leaf)}}})
    add_case(family, desc + " as values of a named map", {"type": "object", "additionalProperties": dict(leaf)})
    add_case(family, desc + " as values of a map property", {"type": "object", "properties": {"p": {"type": "object", "additionalProperties": dict(leaf)}}})
    r = add_def(aux, dict(leaf))
    add_case(family, desc + " behind a $ref, required property", {"type": "object", "required": ["p"], "properties": {"p": r}})
    add_case(family, desc + " behind a $ref, optional property", {"type": "object", "properties": {"p": r}})
    add_case(family, desc + " behind a $ref, array items", {"type": "array", "items": r})


def build():
    k = 0
    for (t, f) in [("integer", ""), ("integer", "int32"), ("integer", "int64"), ("integer", "uint32"), ("integer", "uint64"),
                   ("number", ""), ("number", "float"), ("number", "double")]:
        for vn, v in NUM_VARIANTS:
            k += 1
            leaf = {"type": t}
            if f:
                leaf["format"] = f
            leaf.update(v)
            contexts("numeric", "%s/%s %s" % (t, f or "-", vn), leaf, "AuxNum%d" % k)
    for vn, v in [("lengths", {"minLength": 2, "maxLength": 4}), ("enum", {"enum": ["ab", "cd"]}), ("pattern", {"pattern": "^ab"})]:
        k += 1
        leaf = {"type": "string"}
        leaf.update(v)
        contexts("string", "string " + vn, leaf, "AuxStr%d" % k)
    # integer enums
    for (t, f) in [("integer", "int32"), ("integer", "")]:
        k += 1
        leaf = {"type": t, "enum": [1, 3]}
        if f:
            leaf["format"] = f
        contexts("enum", "%s/%s enum" % (t, f or "-"), leaf, "AuxEnum%d" % k)
    # number and boolean enums
    for (t, f) in [("number", ""), ("number", "float")]:
        k += 1
        leaf = {"type": t, "enum": [0.5, 2.5]}
        if f:
            leaf["format"] = f
        contexts("enum", "%s/%s enum" % (t, f or "-"), leaf, "AuxEnum%d" % k)
    k += 1
    contexts("enum", "boolean enum", {"type": "boolean", "enum": [True]}, "AuxEnum%d" % k)
    # string formats checked by Validate through the registry (string-backed strfmt types)
    for fmt_name, extra in [("uuid", {}), ("email", {"maxLength": 4}), ("hostname", {"enum": ["ab", "n/a"]}), ("ipv4", {"minLength": 1}), ("uri", {"enum": ["x"]})]:
        k += 1
        leaf = {"type": "string", "format": fmt_name, "_maxlen": 4}
        leaf.update(extra)
        contexts("format", "string/%s %s" % (fmt_name, "+".join(extra.keys()) or "plain"), leaf, "AuxFmt%d" % k)
    # integer multipleOf
    for (t, f) in [("integer", "int32"), ("integer", ""), ("integer", "uint32")]:
        k += 1
        leaf = {"type": t, "multipleOf": 3, "maximum": 9}
        if f:
            leaf["format"] = f
        contexts("multiple", "%s/%s multipleOf 3" % (t, f or "-"), leaf, "AuxMul%d" % k)
    # item counts
    for vn, v in [("minItems 1", {"minItems": 1}), ("maxItems 1", {"maxItems": 1}), ("maxItems 0", {"maxItems": 0}), ("minItems 2", {"minItems": 2}),
                  ("uniqueItems", {"uniqueItems": True})]:
        for it in ({"type": "string"}, {"type": "integer", "format": "int32"}):
            arr = {"type": "array", "items": it}
            arr.update(v)
            d = "array of %s with %s" % (it["type"], vn)
            add_case("array", d + " as a named definition", dict(arr))
            add_case("array", d + " as required property", {"type": "object", "required": ["p"], "properties": {"p": dict(arr)}})
            add_case("array", d + " as optional property", {"type": "object", "properties": {"p": dict(arr)}})
            add_case("array", d + " nested in an array", {"type": "array", "items": dict(arr)})
            add_case("array", d + " as map values", {"type": "object", "additionalProperties": dict(arr)})
    # property counts
    for vn, v in [("minProperties 1", {"minProperties": 1}), ("maxProperties 1", {"maxProperties": 1})]:
        mp = {"type": "object", "additionalProperties": {"type": "string"}}
        mp.update(v)
        add_case("map", "map with " + vn + " as a named definition", dict(mp))
        add_case("map", "map with " + vn + " as optional property", {"type": "object", "properties": {"p": dict(mp)}})
    # nested objects
    inner = add_def("Inner", {"type": "object", "required": ["v"], "properties": {"v": {"type": "string", "minLength": 2}, "w": {"type": "integer", "maximum": 3}}})
    add_case("object", "required $ref object", {"type": "object", "required": ["o"], "properties": {"o": inner}})
    add_case("object", "optional $ref object", {"type": "object", "properties": {"o": inner}})
    add_case("object", "array of $ref objects", {"type": "array", "items": inner})
    add_case("object", "array property of $ref objects", {"type": "object", "properties": {"a": {"type": "array", "items": inner}}})
    add_case("object", "map of $ref objects", {"type": "object", "additionalProperties": inner})
    add_case("object", "map property of $ref objects", {"type": "object", "properties": {"m": {"type": "object", "additionalProperties": inner}}})
    add_case("object", "allOf of a $ref and an inline member", {"allOf": [inner, {"type": "object", "required": ["x"], "properties": {"x": {"type": "integer", "format": "int32", "minimum": 1}, "y": {"type": "string", "maxLength": 1}}}]})
    outer = add_def("Outer", {"type": "object", "required": ["i"], "properties": {"i": inner}})
    add_case("object", "two levels of $ref objects", {"type": "object", "properties": {"o": outer}})
    add_case("object", "declared properties next to constrained additionalProperties", {"type": "object", "required": ["a"], "properties": {
        "a": {"type": "integer", "format": "int32", "minimum": 1}, "b": {"type": "string", "maxLength": 2}},
        "additionalProperties": {"type": "integer", "format": "int32", "maximum": 7}})
    add_case("object", "declared properties next to additionalProperties of $ref objects", {"type": "object", "properties": {
        "a": {"type": "string", "minLength": 1}}, "additionalProperties": inner})
    add_case("object", "declared properties next to additionalProperties that are maps", {"type": "object", "properties": {
        "a": {"type": "string"}}, "additionalProperties": {"type": "object", "additionalProperties": {"type": "string", "maxLength": 2}}})
    add_case("object", "declared properties next to additionalProperties that are arrays", {"type": "object", "properties": {
        "a": {"type": "string"}}, "additionalProperties": {"type": "array", "maxItems": 2, "items": {"type": "integer", "format": "int32"}}})
    add_case("object", "required properties that are readOnly or have a default", {"type": "object", "required": ["r", "d", "s"], "properties": {
        "r": {"type": "string", "readOnly": True, "minLength": 2},
        "d": {"type": "integer", "default": 5, "minimum": 2},
        "s": {"type": "string", "default": "xy", "maxLength": 3}}})
    add_case("object", "several properties of every kind", {"type": "object", "required": ["a", "c"], "properties": {
        "a": {"type": "integer", "format": "int32", "minimum": 0, "exclusiveMinimum": True},
        "b": {"type": "number", "maximum": 1.5},
        "c": {"type": "string", "enum": ["x", "y"]},
        "d": {"type": "boolean"},
        "e": {"type": "array", "maxItems": 1, "items": {"type": "string", "minLength": 1}}}})


def write():
    os.makedirs(os.path.join(OUT, "models"), exist_ok=True)
    spec = {"swagger": "2.0", "info": {"title": "generated-code cases", "version": "1"}, "paths": {}, "definitions": {}}
    for n, s in DEFS.items():
        spec["definitions"][n] = strip(s)
    with open(os.path.join(OUT, "swagger.json"), "w") as f:
        json.dump(spec, f, indent=1, sort_keys=True)
    fams = []
    for c in CASES:
        if c.family not in fams:
            fams.append(c.family)
    L = []
    L.append("//go:build verif")
    L.append("")
    L.append("// Code generated by tools/mkgen_models.py; DO NOT EDIT.")
    L.append("")
    L.append("package models")
    L.append("")
    L.append('import "github.com/go-openapi/strfmt"')
    L.append("")
    L.append("var _ strfmt.Registry = vFormats{}")
    L.append("")
    L.append("func init() {")
    for fam in fams:
        L.append('\tvRegister("VerifGen%s", VerifGen%s)' % (goname(fam), goname(fam)))
    L.append("}")
    L.append("")
    for fam in fams:
        cs = [c for c in CASES if c.family == fam]
        L.append("// VerifGen%s: %d definitions" % (goname(fam), len(cs)))
        L.append("func VerifGen%s() {" % goname(fam))
        L.append('\tswitch vChoice("case", %d) {' % len(cs))
        for i, c in enumerate(cs):
            L.append("\tcase %d:" % i)
            L.append("\t\tv%s()" % c.name)
        L.append("\t}")
        L.append("}")
        L.append("")
    for c in CASES:
        L.append("// %s: %s" % (c.name, c.desc))
        L.append("func v%s() {" % c.name)
        if c.uses_format:
            L.append('\tfmtok := vBool("text.isWellFormed")')
        else:
            L.append("\tfmtok := true")
        L += c.lines
        L.append("\tref := %s" % c.ref)
        L.append("\terr := m.Validate(vFormats{ok: fmtok})")
        L.append('\tvCover("%s")' % c.family)
        L.append("\tvCheckVerdict(err == nil, ref, %s)" % json.dumps(c.name + " (" + c.desc + ")"))
        L.append("}")
        L.append("")
    with open(os.path.join(OUT, "models", "zz_verif_cases.go"), "w") as f:
        f.write("\n".join(L))
    print("wrote %d cases in %d families, %d definitions" % (len(CASES), len(fams), len(DEFS)))
    for fam in fams:
        print("  %s: %d" % (fam, len([c for c in CASES if c.family == fam])))


def strip(s):
    if isinstance(s, dict):
        return {k: strip(v) for k, v in s.items() if not k.startswith("_")}
    if isinstance(s, list):
        return [strip(x) for x in s]
    return s


# ---- C18: the same definitions as input of the round trip spec -> models -> scanned spec ----------

def go_lit(v):
    if isinstance(v, bool):
        return "true" if v else "false"
    if isinstance(v, int):
        return "int64(%d)" % v
    if isinstance(v, float):
        return "float64(%r)" % v
    return json.dumps(v)


def go_schema(s, ptr=False):
    L = []
    if "$ref" in s:
        L.append("s.Ref = spec.MustCreateRef(%s)" % json.dumps(s["$ref"]))
    if "type" in s:
        L.append("s.Type = spec.StringOrArray{%s}" % json.dumps(s["type"]))
    if "format" in s:
        L.append("s.Format = %s" % json.dumps(s["format"]))
    for k, f in (("minimum", "Minimum"), ("maximum", "Maximum"), ("multipleOf", "MultipleOf")):
        if k in s:
            L.append("s.%s = vF(%r)" % (f, float(s[k])))
    for k, f in (("exclusiveMinimum", "ExclusiveMinimum"), ("exclusiveMaximum", "ExclusiveMaximum"), ("uniqueItems", "UniqueItems")):
        if s.get(k):
            L.append("s.%s = true" % f)
    for k, f in (("minLength", "MinLength"), ("maxLength", "MaxLength"), ("minItems", "MinItems"), ("maxItems", "MaxItems")):
        if k in s:
            L.append("s.%s = vI(%d)" % (f, s[k]))
    if "pattern" in s:
        L.append("s.Pattern = %s" % json.dumps(s["pattern"]))
    if s.get("readOnly"):
        L.append("s.ReadOnly = true")
    if "enum" in s:
        L.append("s.Enum = []interface{}{%s}" % ", ".join(go_lit(e) for e in s["enum"]))
    if "required" in s:
        L.append("s.Required = []string{%s}" % ", ".join(json.dumps(r) for r in s["required"]))
    if "properties" in s:
        L.append("s.Properties = map[string]spec.Schema{%s}" % ", ".join("%s: %s" % (json.dumps(k), go_schema(v)) for k, v in sorted(s["properties"].items())))
    if "items" in s:
        L.append("s.Items = &spec.SchemaOrArray{Schema: %s}" % go_schema(s["items"], True))
    if "additionalProperties" in s:
        L.append("s.AdditionalProperties = &spec.SchemaOrBool{Allows: true, Schema: %s}" % go_schema(s["additionalProperties"], True))
    if "allOf" in s:
        L.append("s.AllOf = []spec.Schema{%s}" % ", ".join(go_schema(m) for m in s["allOf"]))
    body = "; ".join(L)
    return ("vSP" if ptr else "vS") + "(func(s *spec.Schema) { %s })" % body


def snake(name):
    out = ""
    for i, ch in enumerate(name):
        if ch.isupper() and i > 0 and not name[i - 1].isupper() and not name[i - 1].isdigit():
            out += "_"
        elif ch.isdigit() and i > 0 and name[i - 1].isalpha() and False:
            out += "_"
        out += ch.lower()
    return out


def refs_of(s, acc):
    if isinstance(s, dict):
        if "$ref" in s:
            n = s["$ref"].split("/")[-1]
            if n not in acc:
                acc.append(n)
                refs_of(DEFS[n], acc)
        for v in s.values():
            refs_of(v, acc)
    elif isinstance(s, list):
        for v in s:
            refs_of(v, acc)


RT_ONLY = []  # definitions that only take part in the C18 round trip (no symbolic validator harness)


def add_rt_case(family, desc, name, schema):
    add_def(name, schema)
    c = Case(name, family, desc)
    RT_ONLY.append(c)
    build_c05_twin(name, family, desc, schema)


def build_rt():
    add_rt_case("roundtrip", "property required and readOnly", "RtReadOnly", {"type": "object", "required": ["ident", "name"], "properties": {
        "ident": {"type": "integer", "format": "int64", "readOnly": True}, "name": {"type": "string"}, "note": {"type": "string", "readOnly": True}}})
    add_rt_case("roundtrip", "properties named like struct tag options", "RtTagWords", {"type": "object", "properties": {
        "string": {"type": "integer", "format": "int32"}, "omitempty": {"type": "boolean"}}})  # a property named "-" is the known C16-S2b
    add_rt_case("roundtrip", "string enums with characters JSON escapes", "RtEnumOps", {"type": "object", "properties": {
        # (values made of symbols only would get colliding constant names: known C01-P3)
        "op": {"type": "string", "enum": ["<a", "<=b", "==c", ">d"]}, "join": {"type": "string", "enum": ["x&&y", "p||q"]}, "q": {"type": "string", "enum": ["a\"b", "back\\slash"]}}})
    uuid = add_def("UUID", {"type": "string", "minLength": 1})
    add_rt_case("roundtrip", "a definition named UUID referenced from property, items and map values", "RtNode", {"type": "object", "properties": {
        "ident": uuid, "children": {"type": "array", "items": uuid}, "byName": {"type": "object", "additionalProperties": uuid}}})
    add_rt_case("roundtrip", "required / counted arrays whose items are maps or free-form", "RtArrMaps", {"type": "object", "required": ["records"], "properties": {
        "records": {"type": "array", "minItems": 1, "maxItems": 3, "uniqueItems": True, "items": {"type": "object", "additionalProperties": {"type": "string"}}},
        "payloads": {"type": "array", "maxItems": 2, "items": {}},
        "counters": {"type": "array", "minItems": 1, "items": {"type": "object", "additionalProperties": {"type": "integer", "format": "int64"}}}}})
    add_rt_case("roundtrip", "bounds on properties of every numeric type", "RtBounds", {"type": "object", "properties": {
        "a": {"type": "integer", "format": "int32", "minimum": 1, "maximum": 5, "exclusiveMaximum": True},
        "b": {"type": "number", "format": "float", "minimum": 0.5, "exclusiveMinimum": True},
        "c": {"type": "number", "maximum": 1000},  # larger bounds are printed in exponent form: known C18-S3a
        "d": {"type": "string", "minLength": 1, "maxLength": 12, "pattern": "^[a-z]+$"},
        "e": {"type": "array", "minItems": 1, "maxItems": 3, "uniqueItems": True, "items": {"type": "string"}}}})


def write_c18():
    out = os.path.join(ROOT, "harness", "codescan", "zz_verif_c18cases.go")
    L = ["//go:build verif", "", "// Code generated by tools/mkgen_models.py; DO NOT EDIT.", "", "package codescan", "",
         'import "github.com/go-openapi/spec"', "",
         "// the definitions of harness/gen/c02/swagger.json (input of the real generator), as Go values", "",
         "type vRTCase struct {", "\tname, family, desc string", "\tdefs        []string // the definition and everything it refers to", "}", "",
         "var vRTCases = []vRTCase{"]
    for c in CASES + RT_ONLY:
        acc = [c.name]
        refs_of(DEFS[c.name], acc)
        L.append("\t{%s, %s, %s, []string{%s}}," % (json.dumps(c.name), json.dumps(c.family), json.dumps(c.desc), ", ".join(json.dumps(n) for n in acc)))
    L.append("}")
    L.append("")
    L.append("func vRTInput(name string) spec.Schema {")
    L.append("\tswitch name {")
    for n, s in DEFS.items():
        L.append("\tcase %s:" % json.dumps(n))
        L.append("\t\treturn %s" % go_schema(strip(s)))
    L.append("\t}")
    L.append("\treturn spec.Schema{}")
    L.append("}")
    L.append("")
    with open(out, "w") as f:
        f.write("\n".join(L))
    print("wrote", out)
    # the witnesses of the round-trip findings are case indices: keep them in step with the table
    kf_path = os.path.join(ROOT, "known_findings.json")
    kf = json.load(open(kf_path))
    lst = kf["findings"] if isinstance(kf, dict) else kf
    allc = CASES + RT_ONLY

    def first(pred):
        for i, c in enumerate(allc):
            if pred(c):
                return i
        return None
    want = {
        "C18-R1": first(lambda c: c.desc.endswith("as a named definition") and c.family == "numeric"),
        "C18-R2": first(lambda c: "as items of a named array" in c.desc),
        "C18-R3": first(lambda c: "as values of a named map" in c.desc),
        "C18-R4": first(lambda c: "allOf of a $ref" in c.desc),
        "C18-R5": first(lambda c: "next to constrained additionalProperties" in c.desc),
    }
    for k in lst:
        if k["id"] in want and want[k["id"]] is not None:
            k["witness"] = ["c:%d" % want[k["id"]]]
    json.dump(kf, open(kf_path, "w"), indent=1)


if __name__ == "__main__":
    build()
    build_rt()
    write()
    write_c18()
    write_c05()
