#!/usr/bin/env python3
"""Regenerates /verif/MANIFEST.json from checks/*.json (claimed) and tools/not_applicable.json."""
import json, glob, os
root = os.path.dirname(os.path.dirname(os.path.abspath(__file__)))
props = [json.loads(l) for l in open(os.path.join(root, 'properties.jsonl'))]
na = json.load(open(os.path.join(root, 'tools', 'not_applicable.json')))
checks = []
claimed = []
for p in props:
    f = os.path.join(root, 'checks', p['id'] + '.json')
    if not os.path.exists(f):
        continue
    c = json.load(open(f))
    if c.get('register') is False:
        continue
    claimed.append(p['id'])
    checks.append({
        "property_id": p['id'],
        "quick_cmd": "./check %s --tier quick" % p['id'],
        "thorough_cmd": "./check %s --tier thorough" % p['id'],
        "evidence_file": "evidence/%s.json" % p['id'],
        "replay_cmd_template": "./check replay {path}",
        "engine": "gosym",
        "level_claimed": {"category": c.get('level', 'model_checking'), "text": c['level_text'], "design_ref": c.get('design_ref', 'DESIGN.md')},
        "level_note": c['level_note'],
        "technique": c.get('technique', "symbolic execution of go/ssa + SMT (z3), counterexamples replayed natively"),
    })
m = {
    "version": 1,
    "setup_cmd": "./setup.sh",
    "hooks": {
        "guard": "verif",
        "enable": "harness files carry //go:build verif and are injected into the package under test through go/packages Overlay (symbolic run) and `go build -tags verif -overlay` (native replay); nothing is written to /repo",
        "baseline_off_cmd": "for m in $(cat /w/out/gomods.txt); do MF=$(cd /repo/$m && . /w/out/goenv.sh && gomodflag); (cd /repo/$m && go test $MF -json -vet=off -count=1 -timeout 25m ./...); done",
        "source_commits": [],
        "add_only": True,
    },
    "engines": [{"name": "gosym", "path": "engine", "serves_properties": claimed,
                 "kind_free_text": "own symbolic executor over go/ssa (x/tools v0.29.0): forking path exploration by re-execution, SMT-LIB2 to a long-lived z3 4.8.12 (z3-new/cvc5 fallback on unknown), every counterexample replayed natively before it is reported"}],
    "checks": checks,
    "not_applicable": [{"property_id": p['id'], "reason": na.get(p['id'], "no check registered")} for p in props if p['id'] not in claimed],
    "notes": "exit 0 = all registered harnesses explored exhaustively within their bounds with every obligation discharged (open known findings print KNOWN-FINDING lines); exit 1 = natively reproduced counterexample (VIOLATION line); exit 2 = no verdict (engine could not decide: unsupported construct, bound hit, solver unknown, non-reproducing candidate).",
}
json.dump(m, open(os.path.join(root, 'MANIFEST.json'), 'w'), indent=1)
print("claimed:", claimed)
