#!/usr/bin/env python3
"""Runs the repository baseline (guard off) and compares with /root/.vp/BASELINE.json stable_pass."""
import json, subprocess, sys, os
b = json.load(open('/root/.vp/BASELINE.json'))
want = set(b['stable_pass'])
env = dict(os.environ, GOFLAGS='-mod=mod', GOPROXY='off', GOSUMDB='off', GOTOOLCHAIN='local')
p = subprocess.run(['go', 'test', '-json', '-vet=off', '-count=1', '-timeout', '25m', './...'], cwd='/repo', env=env, capture_output=True, text=True)
passed = set()
for l in p.stdout.split('\n'):
    try:
        e = json.loads(l)
    except Exception:
        continue
    if e.get('Action') == 'pass' and e.get('Test'):
        passed.add(e['Package'] + '::' + e['Test'])
missing = sorted(want - passed)
print("baseline stable_pass: %d, passed now: %d, missing: %d" % (len(want), len(want & passed), len(missing)))
for m in missing[:20]:
    print("  MISSING", m)
sys.exit(1 if missing else 0)
